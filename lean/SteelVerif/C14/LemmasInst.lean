/-
C14 — lemmas about the instantiation machine (`visit`, `evalRequestI`).
-/
import SteelVerif.C14.LemmasReq
namespace SteelVerif.C14

/-! ## well-formed graphs -/

theorem wfFrom_targets : ∀ (l : List Module) (base i : Nat), Graph.wfFrom base l = true →
    ∀ t ∈ (l.getD i ⟨[], [], [], []⟩).reqs.map Spec.target, t < base + i := by
  intro l
  induction l with
  | nil => intro base i _ t ht; simp at ht
  | cons m rest ih =>
    intro base i h t ht
    simp only [Graph.wfFrom, Bool.and_eq_true, List.all_eq_true, decide_eq_true_eq] at h
    cases i with
    | zero =>
      simp at ht
      obtain ⟨s, hs, rfl⟩ := ht
      have := h.1 s hs
      omega
    | succ i =>
      have := ih (base + 1) i h.2 t (by simpa using ht)
      omega

theorem wf_targets {g : Graph} (h : g.wf = true) : ∀ k t, t ∈ g.targets k → t < k := by
  intro k t ht
  have := wfFrom_targets g 0 k h t (by simpa [Graph.targets, Graph.mod] using ht)
  omega

/-! ## `visit`: unfolding, monotonicity, bounds -/

theorem visit_zero (g : Graph) (k : Nat) (st : VS) : visit g 0 k st = st := rfl

theorem visit_succ (g : Graph) (fuel k : Nat) (st : VS) :
    visit g (fuel + 1) k st =
      if k ∈ st.fmeta ∧ k ∈ st.compiled then st
      else
        let st2 := (g.targets k).foldl (fun s t => visit g fuel t s) { st with fmeta := k :: st.fmeta }
        if (g.mod k).provs ≠ [] ∨ k ∉ st2.compiled then
          { st2 with compiled := k :: st2.compiled, emitted := st2.emitted ++ [k] }
        else st2 := rfl

/-- A property of the form "everything in the old state is still there" passes through `foldl`. -/
theorem foldl_preserves {P : VS → VS → Prop} (hrefl : ∀ s, P s s) (htrans : ∀ a b c, P a b → P b c → P a c)
    (f : VS → Nat → VS) (hstep : ∀ s t, P s (f s t)) : ∀ (ts : List Nat) (s : VS), P s (ts.foldl f s) := by
  intro ts
  induction ts with
  | nil => intro s; exact hrefl s
  | cons t ts ih => intro s; exact htrans _ _ _ (hstep s t) (ih (f s t))

def VS.le (a b : VS) : Prop :=
  (∀ x ∈ a.compiled, x ∈ b.compiled) ∧ (∀ x ∈ a.fmeta, x ∈ b.fmeta) ∧ (∀ x ∈ a.emitted, x ∈ b.emitted)

theorem VS.le_refl (a : VS) : a.le a := ⟨fun _ h => h, fun _ h => h, fun _ h => h⟩

theorem VS.le_trans (a b c : VS) (h1 : a.le b) (h2 : b.le c) : a.le c :=
  ⟨fun x h => h2.1 x (h1.1 x h), fun x h => h2.2.1 x (h1.2.1 x h), fun x h => h2.2.2 x (h1.2.2 x h)⟩

theorem visit_mono (g : Graph) : ∀ (fuel k : Nat) (st : VS), st.le (visit g fuel k st) := by
  intro fuel
  induction fuel with
  | zero => intro k st; exact VS.le_refl st
  | succ fuel ih =>
    intro k st
    rw [visit_succ]
    split
    · exact VS.le_refl st
    · have h1 : st.le { st with fmeta := k :: st.fmeta } :=
        ⟨fun _ h => h, fun x h => List.mem_cons_of_mem _ h, fun _ h => h⟩
      have h2 := foldl_preserves (P := VS.le) VS.le_refl VS.le_trans (fun s t => visit g fuel t s)
        (fun s t => ih t s) (g.targets k) { st with fmeta := k :: st.fmeta }
      have h12 := VS.le_trans _ _ _ h1 h2
      simp only
      split
      · refine VS.le_trans _ _ _ h12 ⟨fun x h => List.mem_cons_of_mem _ h, fun _ h => h, fun x h => ?_⟩
        exact List.mem_append_left _ h
      · exact h12

theorem foldl_visit_mono (g : Graph) (fuel : Nat) (ts : List Nat) (st : VS) :
    st.le (ts.foldl (fun s t => visit g fuel t s) st) :=
  foldl_preserves (P := VS.le) VS.le_refl VS.le_trans _ (fun s t => visit_mono g fuel t s) ts st

/-- Everything `visit k` adds is `≤ k` (in a graph in dependency order). -/
def VS.bnd (n : Nat) (a b : VS) : Prop :=
  (∀ x ∈ b.compiled, x ∈ a.compiled ∨ x < n) ∧ (∀ x ∈ b.emitted, x ∈ a.emitted ∨ x < n)

theorem VS.bnd_refl (n : Nat) (a : VS) : VS.bnd n a a := ⟨fun _ h => Or.inl h, fun _ h => Or.inl h⟩

theorem VS.bnd_trans (n : Nat) (a b c : VS) (h1 : VS.bnd n a b) (h2 : VS.bnd n b c) : VS.bnd n a c := by
  refine ⟨fun x h => ?_, fun x h => ?_⟩
  · rcases h2.1 x h with h | h
    · exact h1.1 x h
    · exact Or.inr h
  · rcases h2.2 x h with h | h
    · exact h1.2 x h
    · exact Or.inr h

theorem VS.bnd_weaken {n m : Nat} (h : n ≤ m) {a b : VS} (hb : VS.bnd n a b) : VS.bnd m a b :=
  ⟨fun x hx => (hb.1 x hx).imp id (fun h' => by omega), fun x hx => (hb.2 x hx).imp id (fun h' => by omega)⟩

theorem foldl_bnd (g : Graph) (fuel n : Nat) (hstep : ∀ (t : Nat) (st : VS), t < n → VS.bnd n st (visit g fuel t st)) :
    ∀ (ts : List Nat), (∀ t ∈ ts, t < n) → ∀ (st : VS), VS.bnd n st (ts.foldl (fun s t => visit g fuel t s) st) := by
  intro ts
  induction ts with
  | nil => intro _ st; exact VS.bnd_refl n st
  | cons t ts ih =>
    intro h st
    exact VS.bnd_trans n _ _ _ (hstep t st (h t (by simp))) (ih (fun x hx => h x (by simp [hx])) _)

theorem visit_bnd {g : Graph} (hwf : g.wf = true) :
    ∀ (fuel k : Nat) (st : VS), VS.bnd (k + 1) st (visit g fuel k st) := by
  intro fuel
  induction fuel with
  | zero => intro k st; exact VS.bnd_refl _ st
  | succ fuel ih =>
    intro k st
    rw [visit_succ]
    split
    · exact VS.bnd_refl _ st
    · have hb := foldl_bnd g fuel k
        (fun t s ht => VS.bnd_weaken (by omega) (ih t s)) (g.targets k) (fun t ht => wf_targets hwf k t ht)
        { st with fmeta := k :: st.fmeta }
      simp only
      split
      · refine ⟨fun x hx => ?_, fun x hx => ?_⟩
        · rcases List.mem_cons.mp hx with e | e
          · exact Or.inr (by omega)
          · exact (hb.1 x e).imp id (fun h => by omega)
        · rcases List.mem_append.mp hx with e | e
          · exact (hb.2 x e).imp id (fun h => by omega)
          · simp at e; exact Or.inr (by omega)
      · exact VS.bnd_weaken (by omega) hb

/-! ## the weak invariant: nothing that ran is emitted again (holds with either roll-back) -/

/-- `A` = the modules whose bodies ran. -/
structure WInv (A : List Nat) (st : VS) : Prop where
  am : ∀ x ∈ A, x ∈ st.fmeta ∧ x ∈ st.compiled
  dj : ∀ x ∈ st.emitted, x ∉ A
  nd : st.emitted.Nodup
  em : ∀ x ∈ st.emitted, x ∈ st.fmeta ∧ x ∈ st.compiled

theorem foldl_inv {P : VS → Prop} (f : VS → Nat → VS) (hstep : ∀ s t, P s → P (f s t)) :
    ∀ (ts : List Nat) (s : VS), P s → P (ts.foldl f s) := by
  intro ts
  induction ts with
  | nil => intro s h; exact h
  | cons t ts ih => intro s h; exact ih _ (hstep s t h)

theorem visit_winv {g : Graph} (hwf : g.wf = true) (A : List Nat) :
    ∀ (fuel k : Nat) (st : VS), WInv A st → WInv A (visit g fuel k st) := by
  intro fuel
  induction fuel with
  | zero => intro k st h; exact h
  | succ fuel ih =>
    intro k st h
    rw [visit_succ]
    split
    · exact h
    · rename_i hnot
      have h1 : WInv A { st with fmeta := k :: st.fmeta } :=
        ⟨fun x hx => ⟨List.mem_cons_of_mem _ (h.am x hx).1, (h.am x hx).2⟩, h.dj, h.nd,
          fun x hx => ⟨List.mem_cons_of_mem _ (h.em x hx).1, (h.em x hx).2⟩⟩
      have h2 := foldl_inv (P := WInv A) (fun s t => visit g fuel t s) (fun s t hs => ih t s hs)
        (g.targets k) _ h1
      have hb := foldl_bnd g fuel k
        (fun t s _ => VS.bnd_weaken (by omega) (visit_bnd hwf fuel t s)) (g.targets k)
        (fun t ht => wf_targets hwf k t ht) { st with fmeta := k :: st.fmeta }
      have hm := foldl_visit_mono g fuel (g.targets k) { st with fmeta := k :: st.fmeta }
      simp only
      split
      · -- `k` is emitted
        have hkA : k ∉ A := fun hk => hnot (h.am k hk)
        have hkE : k ∉ (List.foldl (fun s t => visit g fuel t s) { st with fmeta := k :: st.fmeta }
            (g.targets k)).emitted := by
          intro hk
          rcases hb.2 k hk with e | e
          · exact hnot (h.em k e)
          · omega
        refine ⟨fun x hx => ⟨(h2.am x hx).1, List.mem_cons_of_mem _ (h2.am x hx).2⟩, ?_, ?_, ?_⟩
        · intro x hx
          rcases List.mem_append.mp hx with e | e
          · exact h2.dj x e
          · simp at e; subst e; exact hkA
        · rw [List.nodup_append]
          refine ⟨h2.nd, by simp, ?_⟩
          intro a ha b hb' e
          simp at hb'
          subst hb'; subst e
          exact hkE ha
        · intro x hx
          rcases List.mem_append.mp hx with e | e
          · exact ⟨(h2.em x e).1, List.mem_cons_of_mem _ (h2.em x e).2⟩
          · simp at e; subst e
            exact ⟨hm.2.1 x (by simp), by simp⟩
      · exact h2

/-! ## the strong invariant: what is in the table ran or is about to run -/

/-- The dependencies of every emitted module ran before, or were emitted before it. -/
def Ordered (g : Graph) (A : List Nat) : List Nat → List Nat → Prop
  | _, [] => True
  | before, x :: rest => (∀ t ∈ g.targets x, t ∈ A ∨ t ∈ before) ∧ Ordered g A (before ++ [x]) rest

theorem ordered_append (g : Graph) (A : List Nat) (k : Nat) : ∀ (l b : List Nat),
    Ordered g A b l → (∀ t ∈ g.targets k, t ∈ A ∨ t ∈ b ++ l) → Ordered g A b (l ++ [k]) := by
  intro l
  induction l with
  | nil => intro b _ h; exact ⟨by simpa using h, trivial⟩
  | cons x l ih =>
    intro b h hk
    refine ⟨h.1, ih (b ++ [x]) h.2 ?_⟩
    simpa [List.append_assoc] using hk

structure VInv (g : Graph) (A : List Nat) (st : VS) : Prop where
  cm : ∀ x ∈ st.compiled, x ∈ st.fmeta
  ce : ∀ x ∈ st.compiled, x ∈ A ∨ x ∈ st.emitted
  ec : ∀ x ∈ st.emitted, x ∈ st.compiled
  ac : ∀ x ∈ A, x ∈ st.compiled
  cl : ∀ x ∈ st.compiled, ∀ t ∈ g.targets x, t ∈ st.compiled
  nd : st.emitted.Nodup
  dj : ∀ x ∈ st.emitted, x ∉ A
  ord : Ordered g A [] st.emitted

theorem foldl_vinv (g : Graph) (A : List Nat) (fuel : Nat)
    (hstep : ∀ (t : Nat) (s : VS), VInv g A s → t < fuel →
      VInv g A (visit g fuel t s) ∧ t ∈ (visit g fuel t s).compiled) :
    ∀ (ts : List Nat) (s : VS), VInv g A s → (∀ t ∈ ts, t < fuel) →
      VInv g A (ts.foldl (fun s t => visit g fuel t s) s) ∧
      ∀ t ∈ ts, t ∈ (ts.foldl (fun s t => visit g fuel t s) s).compiled := by
  intro ts
  induction ts with
  | nil => intro s h _; exact ⟨h, by simp⟩
  | cons t ts ih =>
    intro s h hlt
    obtain ⟨h1, ht⟩ := hstep t s h (hlt t (by simp))
    obtain ⟨h2, hts⟩ := ih (visit g fuel t s) h1 (fun x hx => hlt x (by simp [hx]))
    refine ⟨h2, ?_⟩
    intro x hx
    rcases List.mem_cons.mp hx with e | e
    · subst e
      exact (foldl_visit_mono g fuel ts (visit g fuel x s)).1 x ht
    · exact hts x e

theorem visit_vinv {g : Graph} (hwf : g.wf = true) (A : List Nat) :
    ∀ (fuel k : Nat) (st : VS), VInv g A st → k < fuel →
      VInv g A (visit g fuel k st) ∧ k ∈ (visit g fuel k st).compiled := by
  intro fuel
  induction fuel with
  | zero => intro k st _ hk; omega
  | succ fuel ih =>
    intro k st h hk
    rw [visit_succ]
    split
    · rename_i hboth
      exact ⟨h, hboth.2⟩
    · rename_i hnot
      have hkc : k ∉ st.compiled := fun hc => hnot ⟨h.cm k hc, hc⟩
      have h1 : VInv g A { st with fmeta := k :: st.fmeta } :=
        ⟨fun x hx => List.mem_cons_of_mem _ (h.cm x hx), h.ce, h.ec, h.ac, h.cl, h.nd, h.dj, h.ord⟩
      have hlt : ∀ t ∈ g.targets k, t < fuel := fun t ht => by have := wf_targets hwf k t ht; omega
      obtain ⟨h2, hts⟩ := foldl_vinv g A fuel (fun t s hs ht => ih t s hs ht) (g.targets k) _ h1 hlt
      have hb := foldl_bnd g fuel k
        (fun t s _ => VS.bnd_weaken (by omega) (visit_bnd hwf fuel t s)) (g.targets k)
        (fun t ht => wf_targets hwf k t ht) { st with fmeta := k :: st.fmeta }
      have hm := foldl_visit_mono g fuel (g.targets k) { st with fmeta := k :: st.fmeta }
      have hk2 : k ∉ (List.foldl (fun s t => visit g fuel t s) { st with fmeta := k :: st.fmeta }
          (g.targets k)).compiled := by
        intro hc
        rcases hb.1 k hc with e | e
        · exact hkc e
        · omega
      simp only
      rw [if_pos (Or.inr hk2)]
      refine ⟨⟨?_, ?_, ?_, ?_, ?_, ?_, ?_, ?_⟩, by simp⟩
      · intro x hx
        rcases List.mem_cons.mp hx with e | e
        · subst e; exact hm.2.1 x (by simp)
        · exact h2.cm x e
      · intro x hx
        rcases List.mem_cons.mp hx with e | e
        · subst e; exact Or.inr (by simp)
        · exact (h2.ce x e).imp id (fun h' => List.mem_append_left _ h')
      · intro x hx
        rcases List.mem_append.mp hx with e | e
        · exact List.mem_cons_of_mem _ (h2.ec x e)
        · simp at e; subst e; simp
      · intro x hx; exact List.mem_cons_of_mem _ (h2.ac x hx)
      · intro x hx t ht
        rcases List.mem_cons.mp hx with e | e
        · subst e; exact List.mem_cons_of_mem _ (hts t ht)
        · exact List.mem_cons_of_mem _ (h2.cl x e t ht)
      · rw [List.nodup_append]
        refine ⟨h2.nd, by simp, ?_⟩
        intro a ha b hb' e
        simp at hb'
        subst hb'; subst e
        exact hk2 (h2.ec a ha)
      · intro x hx
        rcases List.mem_append.mp hx with e | e
        · exact h2.dj x e
        · simp at e; subst e
          exact fun hA => hk2 (h2.ac x hA)
      · apply ordered_append g A k _ [] h2.ord
        intro t ht
        simpa using h2.ce t (hts t ht)

/-! ## which module tables a program refers to -/

theorem staticImports_target (g : Graph) (specs : List Spec) :
    ∀ i ∈ staticImports g specs, i.1 ∈ specs.map Spec.target := by
  intro i hi
  unfold staticImports at hi
  rw [List.mem_flatMap] at hi
  obtain ⟨r, hr, hi⟩ := hi
  obtain ⟨s, hs, rfl⟩ := List.mem_map.mp hr
  obtain ⟨j, _, rfl⟩ := List.mem_map.mp hi
  simp only [flatten_eq]
  exact List.mem_map.mpr ⟨s, hs, rfl⟩

theorem hashRefs_sub (g : Graph) (specs : List Spec) :
    ∀ x ∈ hashRefs g specs, x ∈ specs.map Spec.target := by
  intro x hx
  unfold hashRefs at hx
  obtain ⟨i, hi, rfl⟩ := List.mem_map.mp hx
  exact staticImports_target g specs i hi

theorem modRefsGo_sub (defs used : List Name) (um : Nat × Name × Name × Bool → Bool) :
    ∀ (l : List (Nat × Name × Name × Bool)) (x : Nat), x ∈ modRefsGo defs used um l → ∃ i ∈ l, x = i.1 := by
  intro l
  induction l with
  | nil => intro x hx; simp [modRefsGo] at hx
  | cons i rest ih =>
    intro x hx
    unfold modRefsGo at hx
    simp only at hx
    split at hx
    · rcases List.mem_cons.mp hx with e | e
      · exact ⟨i, by simp, e⟩
      · obtain ⟨j, hj, e'⟩ := ih x e
        exact ⟨j, by simp [hj], e'⟩
    · obtain ⟨j, hj, e'⟩ := ih x hx
      exact ⟨j, by simp [hj], e'⟩

theorem modRefs_sub (g : Graph) (k : Nat) : ∀ x ∈ modRefs g k, x ∈ g.targets k := by
  intro x hx
  unfold modRefs at hx
  obtain ⟨i, hi, rfl⟩ := modRefsGo_sub _ _ _ _ x hx
  exact staticImports_target g _ i hi

theorem missingBefore_false (g : Graph) (A : List Nat) : ∀ (l before : List Nat),
    Ordered g A before l → missingBefore g A before l = false := by
  intro l
  induction l with
  | nil => intro _ _; rfl
  | cons k rest ih =>
    intro before h
    unfold missingBefore
    rw [ih _ h.2, Bool.or_false, List.any_eq_false]
    intro t ht
    have := h.1 t (modRefs_sub g k t ht)
    simp only [decide_eq_true_eq]
    rcases this with e | e
    · exact fun hh => hh.1 e
    · exact fun hh => hh.2 e

/-! ## one request -/

structure JInv (st : IM) : Prop where
  im : ∀ x ∈ st.inst, x ∈ st.fmeta ∧ x ∈ st.compiled
  nd : st.inst.Nodup

structure KInv (g : Graph) (st : IM) : Prop where
  im : ∀ x ∈ st.inst, x ∈ st.fmeta ∧ x ∈ st.compiled
  ci : ∀ x ∈ st.compiled, x ∈ st.inst
  cl : ∀ x ∈ st.inst, ∀ t ∈ g.targets x, t ∈ st.inst
  nd : st.inst.Nodup

theorem KInv.toJ {g : Graph} {st : IM} (h : KInv g st) : JInv st := ⟨h.im, h.nd⟩

theorem evalRequestI_eq (b : Bool) (g : Graph) (st : IM) (specs : List Spec) (mode : Mode) (extra : Bool) :
    evalRequestI b g st specs mode extra =
      (let v := visitAll g (specs.map Spec.target) ⟨st.compiled, st.fmeta, []⟩
       if mode = .failCompile then
         ({ st with compiled := st.compiled, fmeta := if b then st.fmeta else v.fmeta }, .errSyntax, [])
       else if mode = .failBuild ∨ extra ∨ missingHash g st.inst v.emitted specs then
         ({ st with compiled := if b then st.compiled else v.compiled, fmeta := st.fmeta }, .errFreeId, [])
       else
         (⟨v.compiled, v.fmeta, st.inst ++ v.emitted⟩,
           if mode = .failRuntime then .errRuntime else .ok, v.emitted)) := rfl

theorem visitAll_winv {g : Graph} (hwf : g.wf = true) (A : List Nat) (ts : List Nat) (st : VS)
    (h : WInv A st) : WInv A (visitAll g ts st) :=
  foldl_inv (P := WInv A) _ (fun s t hs => visit_winv hwf A g.length t s hs) ts st h

theorem visitAll_mono (g : Graph) (ts : List Nat) (st : VS) : st.le (visitAll g ts st) :=
  foldl_visit_mono g g.length ts st

theorem evalRequestI_jinv {g : Graph} (hwf : g.wf = true) (b : Bool) (st : IM) (specs : List Spec)
    (mode : Mode) (extra : Bool) (h : JInv st) : JInv (evalRequestI b g st specs mode extra).1 := by
  have hw0 : WInv st.inst ⟨st.compiled, st.fmeta, []⟩ :=
    ⟨h.im, by simp, by simp, by simp⟩
  have hw := visitAll_winv hwf st.inst (specs.map Spec.target) _ hw0
  have hm := visitAll_mono g (specs.map Spec.target) ⟨st.compiled, st.fmeta, []⟩
  rw [evalRequestI_eq]
  simp only
  split
  · refine ⟨fun x hx => ⟨?_, (h.im x hx).2⟩, h.nd⟩
    cases b
    · exact hm.2.1 x (h.im x hx).1
    · exact (h.im x hx).1
  · split
    · refine ⟨fun x hx => ⟨(h.im x hx).1, ?_⟩, h.nd⟩
      cases b
      · exact hm.1 x (h.im x hx).2
      · exact (h.im x hx).2
    · refine ⟨fun x hx => ?_, ?_⟩
      · rcases List.mem_append.mp hx with e | e
        · exact hw.am x e
        · exact hw.em x e
      · rw [List.nodup_append]
        exact ⟨h.nd, hw.nd, fun a ha b' hb e => hw.dj b' hb (e ▸ ha)⟩

theorem visitAll_vinv {g : Graph} (hwf : g.wf = true) (A : List Nat) (ts : List Nat) (st : VS)
    (h : VInv g A st) (hlt : ∀ t ∈ ts, t < g.length) :
    VInv g A (visitAll g ts st) ∧ ∀ t ∈ ts, t ∈ (visitAll g ts st).compiled :=
  foldl_vinv g A g.length (fun t s hs ht => visit_vinv hwf A g.length t s hs ht) ts st h hlt

/-- With the repaired roll-back every request preserves the strong invariant; with the old one every
request except one that fails when the program is built.  A request that is not made to fail runs, and
afterwards everything it names has been instantiated. -/
theorem evalRequestI_kinv {g : Graph} (hwf : g.wf = true) (b : Bool) (st : IM) (specs : List Spec)
    (mode : Mode) (hb : b = true ∨ mode ≠ .failBuild) (hlt : ∀ s ∈ specs, s.target < g.length)
    (h : KInv g st) :
    KInv g (evalRequestI b g st specs mode false).1 ∧
      ((mode = .ok ∨ mode = .failRuntime) →
        (∀ s ∈ specs, s.target ∈ (evalRequestI b g st specs mode false).1.inst) ∧
        (evalRequestI b g st specs mode false).2.1 = (if mode = .failRuntime then .errRuntime else .ok)) := by
  have hv0 : VInv g st.inst ⟨st.compiled, st.fmeta, []⟩ :=
    ⟨fun x hx => (h.im x (h.ci x hx)).1, fun x hx => Or.inl (h.ci x hx), by simp,
      fun x hx => (h.im x hx).2, fun x hx t ht => (h.im t (h.cl x (h.ci x hx) t ht)).2, by simp, by simp,
      trivial⟩
  obtain ⟨hv, hts⟩ := visitAll_vinv hwf st.inst (specs.map Spec.target) _ hv0
    (fun t ht => by obtain ⟨s, hs, rfl⟩ := List.mem_map.mp ht; exact hlt s hs)
  have hm := visitAll_mono g (specs.map Spec.target) ⟨st.compiled, st.fmeta, []⟩
  have hmiss : missingHash g st.inst
      (visitAll g (specs.map Spec.target) ⟨st.compiled, st.fmeta, []⟩).emitted specs = false := by
    unfold missingHash
    rw [missingBefore_false g st.inst _ [] hv.ord, Bool.false_or, List.any_eq_false]
    intro t ht
    have := hv.ce t (hts t (hashRefs_sub g specs t ht))
    simp only [decide_eq_true_eq]
    rcases this with e | e
    · exact fun hh => hh.1 e
    · exact fun hh => hh.2 e
  rw [evalRequestI_eq]
  simp only [hmiss]
  split
  · rename_i hmode
    refine ⟨⟨fun x hx => ⟨?_, (h.im x hx).2⟩, h.ci, h.cl, h.nd⟩, ?_⟩
    · cases b
      · exact hm.2.1 x (h.im x hx).1
      · exact (h.im x hx).1
    · intro hh; rcases hh with e | e <;> simp [hmode] at e
  · split
    · rename_i hmode hfb
      simp at hfb
      rcases hb with hb | hb
      · subst hb
        exact ⟨⟨h.im, h.ci, h.cl, h.nd⟩, fun hh => by rcases hh with e | e <;> simp [hfb] at e⟩
      · exact absurd hfb hb
    · refine ⟨⟨?_, ?_, ?_, ?_⟩, fun _ => ⟨?_, rfl⟩⟩
      · intro x hx
        rcases List.mem_append.mp hx with e | e
        · exact ⟨hm.2.1 x (h.im x e).1, hm.1 x (h.im x e).2⟩
        · exact ⟨hv.cm x (hv.ec x e), hv.ec x e⟩
      · intro x hx
        exact List.mem_append.mpr (hv.ce x hx)
      · intro x hx t ht
        have hxc : x ∈ (visitAll g (specs.map Spec.target) ⟨st.compiled, st.fmeta, []⟩).compiled := by
          rcases List.mem_append.mp hx with e | e
          · exact hv.ac x e
          · exact hv.ec x e
        exact List.mem_append.mpr (hv.ce t (hv.cl x hxc t ht))
      · rw [List.nodup_append]
        exact ⟨h.nd, hv.nd, fun a ha b' hb' e => hv.dj b' hb' (e ▸ ha)⟩
      · intro s hs
        exact List.mem_append.mpr (hv.ce _ (hts _ (List.mem_map.mpr ⟨s, hs, rfl⟩)))

/-! ## sequences of requests -/

def Request.wfIn (g : Graph) (r : Request) : Prop := ∀ s ∈ r.specs, s.target < g.length

theorem evalRequestI_inst_mono (b : Bool) (g : Graph) (st : IM) (specs : List Spec) (mode : Mode)
    (extra : Bool) : ∀ x ∈ st.inst, x ∈ (evalRequestI b g st specs mode extra).1.inst := by
  intro x hx
  rw [evalRequestI_eq]
  simp only
  split
  · exact hx
  · split
    · exact hx
    · exact List.mem_append_left _ hx

theorem run_inst_mono (b : Bool) (g : Graph) : ∀ (reqs : List Request) (st : IM),
    ∀ x ∈ st.inst, x ∈ (runRequestsI b g st reqs).inst := by
  intro reqs
  induction reqs with
  | nil => intro st x hx; exact hx
  | cons r rest ih =>
    intro st x hx
    exact ih _ x (evalRequestI_inst_mono b g st r.specs r.mode false x hx)

theorem run_jinv {g : Graph} (hwf : g.wf = true) (b : Bool) : ∀ (reqs : List Request) (st : IM),
    JInv st → JInv (runRequestsI b g st reqs) := by
  intro reqs
  induction reqs with
  | nil => intro st h; exact h
  | cons r rest ih => intro st h; exact ih _ (evalRequestI_jinv hwf b st r.specs r.mode false h)

theorem run_kinv {g : Graph} (hwf : g.wf = true) (b : Bool) : ∀ (reqs : List Request) (st : IM),
    (∀ r ∈ reqs, r.wfIn g) → (b = true ∨ ∀ r ∈ reqs, r.mode ≠ .failBuild) → KInv g st →
    KInv g (runRequestsI b g st reqs) := by
  intro reqs
  induction reqs with
  | nil => intro st _ _ h; exact h
  | cons r rest ih =>
    intro st hw hb h
    refine ih _ (fun x hx => hw x (by simp [hx])) (hb.imp id (fun hh x hx => hh x (by simp [hx]))) ?_
    exact (evalRequestI_kinv hwf b st r.specs r.mode (hb.imp id (fun hh => hh r (by simp)))
      (hw r (by simp)) h).1

theorem deps_closed (g : Graph) (I : List Nat) (hcl : ∀ x ∈ I, ∀ t ∈ g.targets x, t ∈ I) :
    ∀ (f k : Nat), k ∈ I → ∀ x ∈ depsFuel g f k, x ∈ I := by
  intro f
  induction f with
  | zero => intro k _ x hx; simp [depsFuel] at hx
  | succ f ih =>
    intro k hk x hx
    simp only [depsFuel, List.mem_cons, List.mem_flatMap] at hx
    rcases hx with e | ⟨t, ht, hx⟩
    · subst e; exact hk
    · exact ih t (hcl k hk t ht) x hx

/-- Every request that is not made to fail gets everything it needs instantiated, and it stays so. -/
theorem run_needs {g : Graph} (hwf : g.wf = true) (b : Bool) : ∀ (reqs : List Request) (st : IM),
    (∀ r ∈ reqs, r.wfIn g) → (b = true ∨ ∀ r ∈ reqs, r.mode ≠ .failBuild) → KInv g st →
    ∀ r ∈ reqs, (r.mode = .ok ∨ r.mode = .failRuntime) →
      ∀ k ∈ r.needs g, k ∈ (runRequestsI b g st reqs).inst := by
  intro reqs
  induction reqs with
  | nil => intro st _ _ _ r hr; simp at hr
  | cons r0 rest ih =>
    intro st hw hb h r hr hmode k hk
    have hstep := evalRequestI_kinv hwf b st r0.specs r0.mode (hb.imp id (fun hh => hh r0 (by simp)))
      (hw r0 (by simp)) h
    rcases List.mem_cons.mp hr with e | e
    · subst e
      show k ∈ (runRequestsI b g (evalRequestI b g st r.specs r.mode).1 rest).inst
      apply run_inst_mono b g rest _ k
      obtain ⟨s, hs, hk⟩ : ∃ s ∈ r.specs, k ∈ g.deps s.target := by
        simp only [Request.needs, List.mem_flatMap, List.mem_map] at hk
        obtain ⟨t, ⟨s, hs, rfl⟩, hk⟩ := hk
        exact ⟨s, hs, hk⟩
      exact deps_closed g _ hstep.1.cl g.length s.target ((hstep.2 hmode).1 s hs) k hk
    · exact ih _ (fun x hx => hw x (by simp [hx])) (hb.imp id (fun hh x hx => hh x (by simp [hx])))
        hstep.1 r e hmode k hk

/-! ## nothing is instantiated that no request needs -/

theorem foldl_emitted_sub (g : Graph) (fuel : Nat)
    (hstep : ∀ (t : Nat) (s : VS), ∀ x ∈ (visit g fuel t s).emitted, x ∈ s.emitted ∨ x ∈ depsFuel g fuel t) :
    ∀ (ts : List Nat) (s : VS), ∀ x ∈ (ts.foldl (fun s t => visit g fuel t s) s).emitted,
      x ∈ s.emitted ∨ x ∈ ts.flatMap (depsFuel g fuel) := by
  intro ts
  induction ts with
  | nil => intro s x hx; exact Or.inl hx
  | cons t ts ih =>
    intro s x hx
    rcases ih (visit g fuel t s) x hx with e | e
    · rcases hstep t s x e with e' | e'
      · exact Or.inl e'
      · exact Or.inr (by simp [e'])
    · exact Or.inr (by simp only [List.flatMap_cons, List.mem_append]; exact Or.inr e)

theorem visit_emitted_sub (g : Graph) : ∀ (fuel k : Nat) (st : VS),
    ∀ x ∈ (visit g fuel k st).emitted, x ∈ st.emitted ∨ x ∈ depsFuel g fuel k := by
  intro fuel
  induction fuel with
  | zero => intro k st x hx; exact Or.inl hx
  | succ fuel ih =>
    intro k st x hx
    rw [visit_succ] at hx
    split at hx
    · exact Or.inl hx
    · have hsub := foldl_emitted_sub g fuel ih (g.targets k) { st with fmeta := k :: st.fmeta }
      simp only at hx
      split at hx
      · rcases List.mem_append.mp hx with e | e
        · rcases hsub x e with e' | e'
          · exact Or.inl e'
          · exact Or.inr (by simp only [depsFuel, List.mem_cons]; exact Or.inr e')
        · simp at e; subst e
          exact Or.inr (by simp [depsFuel])
      · rcases hsub x hx with e' | e'
        · exact Or.inl e'
        · exact Or.inr (by simp only [depsFuel, List.mem_cons]; exact Or.inr e')

theorem evalRequestI_inst_sub (b : Bool) (g : Graph) (st : IM) (r : Request) :
    ∀ x ∈ (evalRequestI b g st r.specs r.mode).1.inst,
      x ∈ st.inst ∨ ((r.mode = .ok ∨ r.mode = .failRuntime) ∧ x ∈ r.needs g) := by
  intro x hx
  rw [evalRequestI_eq] at hx
  simp only at hx
  split at hx
  · exact Or.inl hx
  · split at hx
    · exact Or.inl hx
    · rename_i h1 h2
      rcases List.mem_append.mp hx with e | e
      · exact Or.inl e
      · refine Or.inr ⟨?_, ?_⟩
        · cases hm : r.mode <;> simp_all
        · have := foldl_emitted_sub g g.length (visit_emitted_sub g g.length) (r.specs.map Spec.target)
            ⟨st.compiled, st.fmeta, []⟩ x e
          simpa [Request.needs, Graph.deps] using this

theorem run_inst_sub (b : Bool) (g : Graph) : ∀ (reqs : List Request) (st : IM),
    ∀ x ∈ (runRequestsI b g st reqs).inst,
      x ∈ st.inst ∨ ∃ r ∈ reqs, (r.mode = .ok ∨ r.mode = .failRuntime) ∧ x ∈ r.needs g := by
  intro reqs
  induction reqs with
  | nil => intro st x hx; exact Or.inl hx
  | cons r rest ih =>
    intro st x hx
    rcases ih _ x hx with e | ⟨r', hr', h'⟩
    · rcases evalRequestI_inst_sub b g st r x e with e' | e'
      · exact Or.inl e'
      · exact Or.inr ⟨r, by simp, e'⟩
    · exact Or.inr ⟨r', by simp [hr'], h'⟩

theorem kinv_init (g : Graph) : KInv g {} := ⟨by simp, by simp, by simp, by simp⟩

theorem count_le_one_of_nodup {l : List Nat} (h : l.Nodup) (k : Nat) : l.count k ≤ 1 := by
  rw [List.Nodup.count h]; split <;> omega

theorem count_eq_one_of_nodup {l : List Nat} (h : l.Nodup) {k : Nat} (hk : k ∈ l) : l.count k = 1 := by
  rw [List.Nodup.count h]; simp [hk]

end SteelVerif.C14
