/-
C14 — lemmas for the whole-request refinement, part A: association lists under mangled keys, the
equivalence of the flattened import list with the composed one (up to the order of binding), and the
structure of S (`sBuild` satisfies its defining equation; the folds over require specs in normal form).
-/
import SteelVerif.C14.LemmasTbl
namespace SteelVerif.C14

/-! ## lists -/

theorem foldl_cons_eq {α β : Type} (f : α → β) : ∀ (l : List α) (t : List β),
    l.foldl (fun t a => f a :: t) t = (l.map f).reverse ++ t := by
  intro l
  induction l with
  | nil => intro t; rfl
  | cons a l ih => intro t; simp [List.foldl_cons, ih, List.reverse_cons, List.append_assoc]

theorem lookup_isSome_iff_keys {β : Type} (l : List (Name × β)) (k : Name) :
    (l.lookup k).isSome = true ↔ k ∈ l.map (·.1) := by
  constructor
  · intro h
    by_cases hk : k ∈ l.map (·.1)
    · exact hk
    · rw [lookup_none_of_not_mem_keys l k hk] at h; simp at h
  · exact lookup_isSome_of_mem_keys l k

theorem mangle_beq (k : Nat) (n a : Name) : (mangle k n == mangle k a) = (n == a) := by
  by_cases h : n = a
  · subst h; simp
  · have : mangle k n ≠ mangle k a := fun e => h (mangle_inj e).2
    rw [beq_eq_false_iff_ne.mpr this, beq_eq_false_iff_ne.mpr h]

/-- Looking a mangled name up among mangled keys = looking the name up among the plain keys. -/
theorem lookup_mkeys (k : Nat) (n : Name) : ∀ (L : List (Name × Val)),
    (L.map fun b => (mangle k b.1, b.2)).lookup (mangle k n) = L.lookup n := by
  intro L
  induction L with
  | nil => rfl
  | cons b L ih =>
    obtain ⟨a, v⟩ := b
    simp only [List.map_cons, List.lookup_cons, mangle_beq, ih]

theorem lookup_mkeys_none (k : Nat) (key : Name) (h : ∀ n, key ≠ mangle k n) (L : List (Name × Val)) :
    (L.map fun b => (mangle k b.1, b.2)).lookup key = none := by
  apply lookup_none_of_not_mem_keys
  intro hm
  simp only [List.map_map, List.mem_map, Function.comp] at hm
  obtain ⟨b, _, e⟩ := hm
  exact h b.1 e.symm

/-- Last-binding-wins lookup. -/
def RevEq {β : Type} (L L' : List (Name × β)) : Prop := ∀ n, L.reverse.lookup n = L'.reverse.lookup n

theorem RevEq.refl {β : Type} (L : List (Name × β)) : RevEq L L := fun _ => rfl

theorem RevEq.append {β : Type} {A A' B B' : List (Name × β)} (ha : RevEq A A') (hb : RevEq B B') :
    RevEq (A ++ B) (A' ++ B') := by
  intro n
  simp only [List.reverse_append, List.lookup_append, ha n, hb n]

theorem RevEq.keys {β : Type} {L L' : List (Name × β)} (h : RevEq L L') (n : Name) :
    n ∈ L.map (·.1) ↔ n ∈ L'.map (·.1) := by
  have e1 := lookup_isSome_iff_keys L.reverse n
  have e2 := lookup_isSome_iff_keys L'.reverse n
  rw [h n] at e1
  simp only [List.map_reverse, List.mem_reverse] at e1 e2
  exact e1.symm.trans e2

theorem RevEq.flatMap {α β : Type} (f f' : α → List (Name × β)) : ∀ (l : List α),
    (∀ a ∈ l, RevEq (f a) (f' a)) → RevEq (l.flatMap f) (l.flatMap f') := by
  intro l
  induction l with
  | nil => intro _; exact RevEq.refl _
  | cons a l ih =>
    intro h
    simp only [List.flatMap_cons]
    exact RevEq.append (h a (by simp)) (ih fun x hx => h x (by simp [hx]))

/-- A list in which a key determines its value. -/
def Fun {β : Type} (L : List (Name × β)) : Prop := ∀ k b b', (k, b) ∈ L → (k, b') ∈ L → b = b'

theorem lookup_eq_of_mem_fun {β : Type} {L L' : List (Name × β)} (hm : ∀ x, x ∈ L ↔ x ∈ L') (hf : Fun L') :
    ∀ n, L.lookup n = L'.lookup n := by
  intro n
  cases h : L.lookup n with
  | none =>
    symm
    apply lookup_none_of_not_mem_keys
    intro hk
    obtain ⟨p, hp, e⟩ := List.mem_map.mp hk
    have hp' : p ∈ L := (hm p).mpr hp
    have := lookup_isSome_of_mem_keys L n (List.mem_map.mpr ⟨p, hp', e⟩)
    rw [h] at this; simp at this
  | some b =>
    have hb : (n, b) ∈ L' := (hm _).mp (lookup_some_mem L n b h)
    have hs := lookup_isSome_of_mem_keys L' n (List.mem_map.mpr ⟨(n, b), hb, rfl⟩)
    cases h' : L'.lookup n with
    | none => rw [h'] at hs; simp at hs
    | some b' => rw [hf n b b' hb (lookup_some_mem L' n b' h')]

theorem revEq_of_mem_fun {β : Type} {L L' : List (Name × β)} (hm : ∀ x, x ∈ L ↔ x ∈ L') (hf : Fun L') :
    RevEq L L' := by
  intro n
  apply lookup_eq_of_mem_fun
  · intro x; simp only [List.mem_reverse]; exact hm x
  · intro k b b' h1 h2
    exact hf k b b' (List.mem_reverse.mp h1) (List.mem_reverse.mp h2)

theorem nodup_map_inj {α β : Type} (f : α → β) : ∀ (l : List α), (l.map f).Nodup →
    ∀ x ∈ l, ∀ y ∈ l, f x = f y → x = y := by
  intro l
  induction l with
  | nil => intro _ x hx; simp at hx
  | cons a l ih =>
    intro hn x hx y hy e
    simp only [List.map_cons, List.nodup_cons, List.mem_map, not_exists, not_and] at hn
    rcases List.mem_cons.mp hx with hxa | hxl <;> rcases List.mem_cons.mp hy with hya | hyl
    · rw [hxa, hya]
    · subst hxa; exact absurd e.symm (hn.1 y hyl)
    · subst hya; exact absurd e (hn.1 x hxl)
    · exact ih hn.2 x hxl y hyl e

/-! ## what a flat require binds -/

/-- (bound name, payload) for a flat require. -/
def Req.bind {β : Type} (r : Req) (ex : List (Name × β)) : List (Name × β) :=
  (r.importsM ex).map fun i => (i.1, i.2.2)

theorem bind_eq {β : Type} (r : Req) (ex : List (Name × β)) :
    r.bind ex = ex.filterMap fun e => (r.rename e.1).map fun v => (v, e.2) := by
  unfold Req.bind Req.importsM
  rw [List.map_filterMap]
  congr 1
  funext e
  cases r.rename e.1 <;> rfl

theorem bind_map {β γ : Type} (f : β → γ) (r : Req) (ex : List (Name × β)) :
    (r.bind ex).map (fun i => (i.1, f i.2)) = r.bind (ex.map fun e => (e.1, f e.2)) := by
  rw [bind_eq, bind_eq, List.map_filterMap, List.filterMap_map]
  congr 1
  funext e
  simp only [Function.comp]
  cases r.rename e.1 <;> rfl

theorem mem_bind {β : Type} (r : Req) (ex : List (Name × β)) (v : Name) (b : β) :
    (v, b) ∈ r.bind ex ↔ ∃ n, (v, n, b) ∈ r.importsM ex := by
  unfold Req.bind
  constructor
  · intro h
    obtain ⟨⟨v', n, b'⟩, hm, e⟩ := List.mem_map.mp h
    simp only [Prod.mk.injEq] at e
    obtain ⟨rfl, rfl⟩ := e
    exact ⟨n, hm⟩
  · rintro ⟨n, hm⟩
    exact List.mem_map.mpr ⟨(v, n, b), hm, rfl⟩

theorem bind_prefix {β : Type} (t : Nat) (ids : List (Name × Option Name)) (p q : Name) (ex : List (Name × β)) :
    (⟨t, ids, p ++ q⟩ : Req).bind ex = ((⟨t, ids, q⟩ : Req).bind ex).map fun e => (p ++ e.1, e.2) := by
  rw [bind_eq, bind_eq, List.map_filterMap]
  congr 1
  funext e
  rw [rename_prefix]
  cases (⟨t, ids, q⟩ : Req).rename e.1 <;> rfl

theorem bind_path {β : Type} (m : Nat) (ex : List (Name × β)) : (⟨m, [], []⟩ : Req).bind ex = ex := by
  rw [bind_eq]
  induction ex with
  | nil => rfl
  | cons e ex ih => simp [Req.rename] at ih ⊢

/-- The relation kept through the induction over a canonical spec: the two lists are the same, or they
have the same members and a key determines its value (so the order of binding does not matter). -/
def Same {β : Type} (L L' : List (Name × β)) : Prop := L = L' ∨ ((∀ x, x ∈ L ↔ x ∈ L') ∧ Fun L')

theorem Same.revEq {β : Type} {L L' : List (Name × β)} (h : Same L L') : RevEq L L' := by
  rcases h with e | ⟨hm, hf⟩
  · subst e; exact RevEq.refl _
  · exact revEq_of_mem_fun hm hf

theorem Same.map_prefix {β : Type} {L L' : List (Name × β)} (p : Name) (h : Same L L') :
    Same (L.map fun e => (p ++ e.1, e.2)) (L'.map fun e => (p ++ e.1, e.2)) := by
  rcases h with e | ⟨hm, hf⟩
  · exact Or.inl (by rw [e])
  · refine Or.inr ⟨?_, ?_⟩
    · intro x
      simp only [List.mem_map]
      constructor
      · rintro ⟨y, hy, e⟩; exact ⟨y, (hm y).mp hy, e⟩
      · rintro ⟨y, hy, e⟩; exact ⟨y, (hm y).mpr hy, e⟩
    · intro k b b' h1 h2
      obtain ⟨y, hy, e⟩ := List.mem_map.mp h1
      obtain ⟨y', hy', e'⟩ := List.mem_map.mp h2
      simp only [Prod.mk.injEq] at e e'
      have hk : y.1 = y'.1 := List.append_cancel_left (e.1.trans e'.1.symm)
      have := hf y.1 y.2 y'.2 hy (by rw [hk]; exact hy')
      rw [← e.2, ← e'.2, this]

/-- **Flattening = composing, as binding lists**, on the fragment `canonical2`: the composed list exists
and binds every name to the same definition as the flattened one, whatever the order of binding. -/
theorem bind_same {β : Type} (ex : Nat → List (Name × β)) (s : Spec) :
    s.canonical2 (fun m => (ex m).map (·.1)) = true →
    ∃ l, s.importsS ex = some l ∧ Same (s.flatten.bind (ex s.target)) l := by
  induction s with
  | path m =>
    intro _
    refine ⟨ex m, rfl, Or.inl ?_⟩
    simp only [flatten_eq, Spec.target, Spec.ids, Spec.prefixes]
    exact bind_path m (ex m)
  | prefixIn p s ih =>
    intro hc
    obtain ⟨l, hl, hs⟩ := ih (by simpa [Spec.canonical2] using hc)
    refine ⟨l.map fun e => (p ++ e.1, e.2), by simp [Spec.importsS, hl], ?_⟩
    have := Same.map_prefix p hs
    simp only [flatten_eq, Spec.target, Spec.ids, Spec.prefixes] at this ⊢
    rw [bind_prefix]
    exact this
  | onlyIn s ids _ =>
    intro hc
    cases s with
    | onlyIn _ _ => simp [Spec.canonical2] at hc
    | prefixIn _ _ => simp [Spec.canonical2] at hc
    | path m =>
      simp only [Spec.canonical2, Bool.and_eq_true, decide_eq_true_eq] at hc
      obtain ⟨hcan, hnd2⟩ := hc
      obtain ⟨hne, hnd, hall, hpn⟩ := canonical_onlyIn_path hcan
      have hsome : ∀ ia ∈ ids, (((ex m).lookup ia.1).map fun b => (ia.2.getD ia.1, b)).isSome = true := by
        intro ia hia
        have := lookup_isSome_of_mem_keys (ex m) ia.1 (hall ia hia)
        cases h : (ex m).lookup ia.1 <;> simp [h] at this ⊢
      obtain ⟨l', hl'⟩ := mapOpt_isSome _ ids hsome
      have hl : (Spec.onlyIn (.path m) ids).importsS ex = some l' := by
        simp only [Spec.importsS]; exact hl'
      have hmem := mapOpt_some _ ids l' hl'
      refine ⟨l', hl, Or.inr ⟨?_, ?_⟩⟩
      · rintro ⟨v, b⟩
        rw [mem_bind]
        have := flat_eq_compositional ex (Spec.onlyIn (.path m) ids) hcan v b
        simp only [Spec.target] at this ⊢
        rw [this]
        constructor
        · rintro ⟨l, hl2, hv⟩
          rw [hl] at hl2
          cases hl2
          exact hv
        · intro hv; exact ⟨l', hl, hv⟩
      · intro k b b' h1 h2
        obtain ⟨ia, hia, e⟩ := (hmem (k, b)).mp h1
        obtain ⟨ia', hia', e'⟩ := (hmem (k, b')).mp h2
        cases hx : (ex m).lookup ia.1 with
        | none => simp [hx] at e
        | some c =>
          cases hx' : (ex m).lookup ia'.1 with
          | none => simp [hx'] at e'
          | some c' =>
            simp only [hx, hx', Option.map_some, Option.some.injEq, Prod.mk.injEq] at e e'
            have hkk : ia.2.getD ia.1 = ia'.2.getD ia'.1 := e.1.trans e'.1.symm
            have := nodup_map_inj (fun ia : Name × Option Name => ia.2.getD ia.1) ids hnd2 ia hia ia' hia' hkk
            subst this
            rw [hx] at hx'
            cases hx'
            rw [← e.2, ← e'.2]

/-! ## S in normal form -/

theorem importsS_congr {β : Type} (ex ex' : Nat → List (Name × β)) (s : Spec)
    (h : ex s.target = ex' s.target) : s.importsS ex = s.importsS ex' := by
  induction s with
  | path m => simp only [Spec.importsS]; exact congrArg some h
  | prefixIn p s ih => simp only [Spec.importsS, ih h]
  | onlyIn s ids ih => simp only [Spec.importsS, ih h]

theorem lookup_map_snd {β γ : Type} (f : β → γ) (n : Name) : ∀ (l : List (Name × β)),
    (l.map fun e => (e.1, f e.2)).lookup n = (l.lookup n).map f := by
  intro l
  induction l with
  | nil => rfl
  | cons e l ih =>
    obtain ⟨a, b⟩ := e
    simp only [List.map_cons, List.lookup_cons]
    cases n == a <;> simp [ih]

theorem mapOpt_map {α β γ : Type} (f : α → Option β) (h : β → γ) : ∀ (l : List α),
    mapOpt (fun a => (f a).map h) l = (mapOpt f l).map (List.map h) := by
  intro l
  induction l with
  | nil => rfl
  | cons a l ih =>
    simp only [mapOpt, ih]
    cases f a <;> cases mapOpt f l <;> rfl

/-- `importsS` commutes with a map on the payload of the export lists. -/
theorem importsS_map {β γ : Type} (f : β → γ) (ex : Nat → List (Name × β)) (s : Spec) :
    s.importsS (fun m => (ex m).map fun e => (e.1, f e.2)) =
      (s.importsS ex).map (List.map fun e => (e.1, f e.2)) := by
  induction s with
  | path m => rfl
  | prefixIn p s ih =>
    simp only [Spec.importsS, ih, Option.map_map]
    cases s.importsS ex <;> simp [Function.comp]
  | onlyIn s ids ih =>
    simp only [Spec.importsS, ih]
    cases s.importsS ex with
    | none => rfl
    | some inner =>
      simp only [Option.map_some]
      rw [← mapOpt_map]
      congr 1
      funext ia
      rw [lookup_map_snd]
      cases inner.lookup ia.1 <;> rfl

theorem sImports_congr (ex ex' : Nat → List (Name × Val)) (specs : List Spec)
    (h : ∀ s ∈ specs, ex s.target = ex' s.target) : sImports ex specs = sImports ex' specs := by
  unfold sImports
  induction specs with
  | nil => rfl
  | cons s specs ih =>
    simp only [List.flatMap_cons]
    rw [importsS_congr ex ex' s (h s (by simp)), ih fun x hx => h x (by simp [hx])]

/-- The fold of `evalRequestS` when every spec is well-formed. -/
theorem sFoldReq (ex : Nat → List (Name × Val)) : ∀ (specs : List Spec) (e0 : Env),
    (∀ s ∈ specs, ∃ l, s.importsS ex = some l) →
    specs.foldl (sBindStep ex) (some e0) = some ((sImports ex specs).reverse ++ e0) := by
  intro specs
  induction specs with
  | nil => intro e0 _; simp [sImports]
  | cons s specs ih =>
    intro e0 h
    obtain ⟨l, hl⟩ := h s (by simp)
    simp only [List.foldl_cons, sBindStep, hl]
    rw [ih _ fun x hx => h x (by simp [hx])]
    simp [sImports, hl, Env.bindAll, List.append_assoc]

/-- The fold of `sModule` when every spec is well-formed. -/
theorem sFoldMod (ex : Nat → List (Name × Val)) : ∀ (specs : List Spec) (e0 : Env) (b0 : Bool),
    (∀ s ∈ specs, ∃ l, s.importsS ex = some l) →
    specs.foldl (sStep ex) (e0, b0) = ((sImports ex specs).reverse ++ e0, b0) := by
  intro specs
  induction specs with
  | nil => intro e0 b0 _; simp [sImports]
  | cons s specs ih =>
    intro e0 b0 h
    obtain ⟨l, hl⟩ := h s (by simp)
    simp only [List.foldl_cons, sStep, hl]
    rw [ih _ _ fun x hx => h x (by simp [hx])]
    simp [sImports, hl, Env.bindAll, List.append_assoc]

theorem foldl_congr_mem {α β : Type} (f f' : β → α → β) : ∀ (l : List α) (b : β),
    (∀ a ∈ l, ∀ b, f b a = f' b a) → l.foldl f b = l.foldl f' b := by
  intro l
  induction l with
  | nil => intro _ _; rfl
  | cons a l ih =>
    intro b h
    simp only [List.foldl_cons]
    rw [h a (by simp) b]
    exact ih _ fun x hx => h x (by simp [hx])

theorem sModule_congr (ms ms' : List SMod) (k : Nat) (m : Module)
    (h : ∀ s ∈ m.reqs, sExports ms s.target = sExports ms' s.target) : sModule ms k m = sModule ms' k m := by
  unfold sModule
  have : m.reqs.foldl (sStep (sExports ms)) ([], true) = m.reqs.foldl (sStep (sExports ms')) ([], true) := by
    apply foldl_congr_mem
    intro s hs b
    simp only [sStep]
    rw [importsS_congr (sExports ms) (sExports ms') s (h s hs)]
  rw [this]

def dSMod : SMod := ⟨[], [], true⟩
def dMod : Module := ⟨[], [], [], []⟩

theorem getD_append_left' {α : Type} (l l' : List α) (i : Nat) (d : α) (h : i < l.length) :
    (l ++ l').getD i d = l.getD i d := by
  simp [List.getD_eq_getElem?_getD, List.getElem?_append_left h]

theorem sBuildFrom_spec (g : Graph) : ∀ (rest : List Module) (ms : List SMod),
    (∀ i, i < rest.length → rest.getD i dMod = g.mod (ms.length + i)) →
    (∀ k, k < ms.length → ms.getD k dSMod = sModule (ms.take k) k (g.mod k)) →
    (sBuildFrom ms rest).length = ms.length + rest.length ∧
    ∀ k, k < (sBuildFrom ms rest).length →
      (sBuildFrom ms rest).getD k dSMod = sModule ((sBuildFrom ms rest).take k) k (g.mod k) := by
  intro rest
  induction rest with
  | nil => intro ms _ h; exact ⟨by simp [sBuildFrom], by simpa [sBuildFrom] using h⟩
  | cons m rest ih =>
    intro ms hrest hinv
    have hm : m = g.mod ms.length := by simpa using hrest 0 (by simp)
    have := ih (ms ++ [sModule ms ms.length m])
      (by
        intro i hi
        have := hrest (i + 1) (by simp; omega)
        simp only [List.length_append, List.length_cons, List.length_nil]
        rw [show ms.length + (0 + 1) + i = ms.length + (i + 1) by omega]
        simpa using this)
      (by
        intro k hk
        simp only [List.length_append, List.length_cons, List.length_nil] at hk
        by_cases hlt : k < ms.length
        · rw [getD_append_left' _ _ _ _ hlt, List.take_append_of_le_length (by omega)]
          exact hinv k hlt
        · have hk' : k = ms.length := by omega
          subst hk'
          rw [List.take_left]
          simp [List.getD_eq_getElem?_getD, hm])
    simp only [sBuildFrom]
    refine ⟨by rw [this.1]; simp; omega, this.2⟩

theorem sBuild_length (g : Graph) : (sBuild g).length = g.length := by
  have := (sBuildFrom_spec g g [] (by intro i hi; simp [Graph.mod, dMod]) (by intro k hk; simp at hk)).1
  simpa [sBuild] using this

theorem sExports_take (ms : List SMod) (k t : Nat) (h : t < k) : sExports (ms.take k) t = sExports ms t := by
  unfold sExports
  simp [List.getD_eq_getElem?_getD, h]

/-- **S satisfies its defining equation at every index** (also beyond the graph, where the module is
empty): the environment of module `k` is built from the exports of the modules it requires. -/
theorem sBuild_getD {g : Graph} (hwf : g.wf = true) (k : Nat) :
    (sBuild g).getD k dSMod = sModule (sBuild g) k (g.mod k) := by
  by_cases hk : k < g.length
  · have h := (sBuildFrom_spec g g [] (by intro i hi; simp [Graph.mod, dMod]) (by intro k hk; simp at hk)).2 k
      (by rw [← sBuild, sBuild_length]; exact hk)
    rw [← sBuild] at h
    rw [h]
    apply sModule_congr
    intro s hs
    apply sExports_take
    exact wf_targets hwf k s.target (List.mem_map.mpr ⟨s, hs, rfl⟩)
  · have hlen := sBuild_length g
    have h1 : (sBuild g).getD k dSMod = dSMod := by
      simp [List.getD_eq_getElem?_getD, List.getElem?_eq_none (by omega : (sBuild g).length ≤ k)]
    have h2 : g.mod k = dMod := by
      simp [Graph.mod, dMod, List.getD_eq_getElem?_getD, List.getElem?_eq_none (by omega : g.length ≤ k)]
    rw [h1, h2]
    simp [sModule, dMod, dSMod, Env.bindAll]

end SteelVerif.C14
