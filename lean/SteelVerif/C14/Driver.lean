/-
C14 driver.  Reads module-graph cases + evaluation requests (the text the Rust harness `c14` reads) and
prints what the model M (`model`), a variant of it (`variant:<flags>`, see `main`) or the specification S (`spec`) says each
request yields (`guard`: whether the case is inside the guard of the refinement theorem): status, the binding of every observed name, every instantiated module's view of its
names, and the per-module instantiation counters.  `elab` echoes the input with the `view` lines of
every module (the names S makes visible inside it) inserted.

Input (one token list per line):
  case <id> | module <k> | def <name> | prov <name> | cprov <name> | req <spec> | view <name>… | end
            | mac <name> | mprov <name> | fsprov <name>     (macros: define-syntax, provide, provide for-syntax)
  request | req <spec> | def <name> | use <name>… | mode ok|reader|macrodef|syntax|freeid|runtime|form:<kw> | obs <name>… | end | endcase
  <spec> ::= <k>[~<spelling>] | p:<prefix>:<spec> | o:<id>[=<to>],…:<spec>
  `dir <sub/dir>` (in a module) and `~<spelling>` only tell the harness where the file is put and how the
  path in the require form is written; a module is identified by its canonical path, i.e. by `k`.
-/
import SteelVerif.C14.Model
import SteelVerif.C14.Contract
import SteelVerif.C14.Macros
namespace SteelVerif.C14

def parseIds (s : String) : List (Name × Option Name) :=
  ((s.splitOn ",").filter (· ≠ "")).map fun f =>
    match f.splitOn "=" with
    | [a, b] => (a.toList, some b.toList)
    | _ => (f.toList, none)

def parseSpecFields : Nat → List String → Option Spec
  | 0, _ => none
  | _ + 1, [n] => ((n.splitOn "~").headD "").toNat?.map Spec.path   -- `k~spelling`: same file, same module
  | fuel + 1, "p" :: pfx :: rest => (parseSpecFields fuel rest).map (Spec.prefixIn pfx.toList)
  | fuel + 1, "o" :: ids :: rest => (parseSpecFields fuel rest).map (fun s => Spec.onlyIn s (parseIds ids))
  | _, _ => none

def parseSpec (s : String) : Option Spec :=
  let fs := s.splitOn ":"
  parseSpecFields (fs.length + 1) fs

structure Case where
  id : String := ""
  mods : List Module := []
  mmods : List MacMod := []     -- the macro part of every module (same index)
  reqs : List Request := []
  kinds : List String := []     -- the `mode` word of every request (how a failing one fails)
  raw : List String := []       -- the input lines of the case, in order
deriving Inhabited

inductive Ctx where
  | none | inModule | inRequest
deriving DecidableEq

structure PState where
  cur : Case := {}
  ctx : Ctx := .none
  m : Module := ⟨[], [], [], []⟩
  mm : MacMod := {}
  r : Request := { specs := [] }
  kind : String := "ok"
  done : List Case := []
  errors : List String := []

def toks (l : String) : List String := (l.trimAscii.toString.splitOn " ").filter (· ≠ "")

/-- `form:<keyword>`: the program consists of a require with a list form the parser does not know
(`rename-in`, `except-in`, a `for-syntax` around a spec): a syntax error, like a macro that does not match. -/
def parseMode (s : String) : Mode :=
  if s.startsWith "form:" then .failCompile
  else match s with
    -- every way of being rejected before anything of the program is evaluated has no effect: the reader rejects
    -- the text; a macro definition of the program is malformed; a macro use does not match
    | "reader" => .failCompile | "macrodef" => .failCompile
    | "syntax" => .failCompile | "freeid" => .failBuild | "runtime" => .failRuntime | _ => .ok

/-- Convention of the generators: a name whose last component (after the last `.` or `-`) starts with `m` is a
macro (defined by `mac`, provided by `mprov` / `fsprov`), observed by expanding `(name 1)`. -/
def isMacName (n : Name) : Bool :=
  ((n.reverse.takeWhile fun c => c ≠ '.' ∧ c ≠ '-').reverse).head? == some 'm'

def feed (p : PState) (l : String) : PState :=
  let l := (l.toList.filter (fun c => c ≠ '\n' ∧ c ≠ '\r')) |> String.ofList
  let p := { p with cur := { p.cur with raw := p.cur.raw ++ [l] } }
  match toks l, p.ctx with
  | ["case", id], _ => { p with cur := { id := id, raw := [l] }, ctx := .none }
  | ["module", _], _ => { p with ctx := .inModule, m := ⟨[], [], [], []⟩, mm := {} }
  | ["mac", n], .inModule => { p with mm := { p.mm with macs := p.mm.macs ++ [n.toList] } }
  | ["mprov", n], .inModule => { p with mm := { p.mm with plainProv := p.mm.plainProv ++ [n.toList] } }
  | ["fsprov", n], .inModule => { p with mm := { p.mm with fsProv := p.mm.fsProv ++ [n.toList] } }
  | ["request"], _ => { p with ctx := .inRequest, r := { specs := [] }, kind := "ok" }
  | ["dir", _], .inModule => p     -- where the file lives: irrelevant to the module's identity
  | ["def", n], .inModule => { p with m := { p.m with defs := p.m.defs ++ [n.toList] } }
  | ["prov", n], .inModule => { p with m := { p.m with provs := p.m.provs ++ [⟨n.toList, false⟩] } }
  | ["cprov", n], .inModule => { p with m := { p.m with provs := p.m.provs ++ [⟨n.toList, true⟩] } }
  | "view" :: ns, .inModule =>
      let names := ns.map String.toList
      { p with m := { p.m with views := p.m.views ++ names.filter (!isMacName ·) },
               mm := { p.mm with views := p.mm.views ++ names.filter isMacName } }
  | ["req", s], .inModule =>
      match parseSpec s with
      | some sp => { p with m := { p.m with reqs := p.m.reqs ++ [sp] } }
      | none => { p with errors := p.errors ++ [s!"bad spec {s}"] }
  | ["end"], .inModule =>
      { p with cur := { p.cur with mods := p.cur.mods ++ [p.m], mmods := p.cur.mmods ++ [p.mm] }, ctx := .none }
  | ["def", n], .inRequest => { p with r := { p.r with defs := p.r.defs ++ [n.toList] } }
  | ["req", s], .inRequest =>
      match parseSpec s with
      | some sp => { p with r := { p.r with specs := p.r.specs ++ [sp] } }
      | none => { p with errors := p.errors ++ [s!"bad spec {s}"] }
  | ["mode", m], .inRequest => { p with r := { p.r with mode := parseMode m }, kind := m }
  | "obs" :: ns, .inRequest => { p with r := { p.r with obs := p.r.obs ++ ns.map String.toList } }
  | "use" :: ns, .inRequest => { p with r := { p.r with uses := p.r.uses ++ ns.map String.toList } }
  | ["end"], .inRequest =>
      { p with cur := { p.cur with reqs := p.cur.reqs ++ [p.r], kinds := p.cur.kinds ++ [p.kind] }, ctx := .none }
  | ["poke"], _ => p
  | ["endcase"], _ => { p with done := p.done ++ [p.cur], cur := {}, ctx := .none }
  | [], _ => p
  | _, _ => if (toks l).head? = some "#" then p else { p with errors := p.errors ++ [s!"bad line {l}"] }

/-! ## printing -/

def showName (n : Name) : String := String.ofList n

def showOrigin : Origin → String
  | .mod k => s!"m{k}"
  | .top i => s!"top{i}"

/-- Convention of the generators: a definition whose name starts with `f` or `g` is a one-argument
function returning its tag, `h2`..`h6` a function of that many parameters taking a callback first,
every other definition is the tag itself. -/
def isFn (n : Name) : Bool := n.head? == some 'f' || n.head? == some 'g' || n.head? == some 'h'

/-- `h2`..`h6`: that many parameters, the first one a callback. -/
def hofArity (n : Name) : Option Nat :=
  match n with
  | 'h' :: d :: _ => if '2' ≤ d ∧ d ≤ '6' then some (d.toNat - '0'.toNat) else none
  | _ => none

/-- `#<n>`: how often the contract predicate `c14-int?` is evaluated during the good call of the harness's
`obs_expr` — by the contract mechanism M (`Contract.callM`, table regenerated from contracts.scm) or by S
(`Contract.callS`: once per crossing of the boundary). -/
def showVal (useM : Bool) (v : Val) : String :=
  let t := s!"{showOrigin v.origin}.{showName v.name}"
  if isFn v.name then
    let n := match hofArity v.name with
      | some k => Contract.predictedChecks useM v.contracted true k
      | none => Contract.predictedChecks useM v.contracted false 1
    s!"fn:{t}:{if v.contracted then "c" else "p"}#{n}"
  else t

def showOVal (useM : Bool) : Option Val → String
  | some v => showVal useM v
  | none => "err:free-id"

def showStatus : Status → String
  | .ok => "ok" | .errSyntax => "err:syntax" | .errFreeId => "err:free-id"
  | .errRuntime => "err:runtime" | .errRequire => "err:require" | .undetermined => "undetermined"

/-- The reader's errors have their own kind on the real engine. -/
def showStatusK (kind : String) (s : Status) : String :=
  if s = .errSyntax ∧ kind = "reader" then "err:read" else showStatus s

def showBindings (useM : Bool) (l : List (Name × Option Val)) : String :=
  " ".intercalate (l.map fun (n, v) => s!"{showName n}={showOVal useM v}")

def lineOf (useM : Bool) (head : String) (l : List (Name × Option Val)) : String :=
  if l.isEmpty then head else head ++ " " ++ showBindings useM l

def insertSorted (k : Nat) : List Nat → List Nat
  | [] => [k]
  | x :: xs => if k < x then k :: x :: xs else if k = x then x :: xs else x :: insertSorted k xs

def sortDedup (l : List Nat) : List Nat := l.foldl (fun acc k => insertSorted k acc) []

def cntLine (n : Nat) (count : Nat → Nat) : String :=
  "cnt " ++ " ".intercalate ((List.range n).map fun k => s!"{k}:{count k}")

def runModel (fixed : Fix) (mfix : MacFix) (c : Case) : List String := Id.run do
  let mg : MacGraph := c.mmods
  let g : Graph := if fixed.compose then valueGraph c.mods mg else c.mods
  let vpart := fun (s : Spec) => if fixed.compose then s.part mg false else s
  let mut st : MState := {}
  let mut menv : List (Name × Val) := []
  let mut mviews : List (Nat × List (Name × Option Val)) := []
  let mut out : List String := [s!"case {c.id}"]
  let mut i := 0
  let mut stop := false
  for r in c.reqs do
    if stop then continue
    let rv : Request := { r with specs := r.specs.map vpart }
    let emitted := (evalRequestI fixed.rollback g st.im rv.specs rv.mode).2.2
    -- The bodies of the emitted modules are part of the program: a form in them that no macro of the module
    -- matched is expanded with the engine's macro environment, to which the program's requires have been added
    -- by then (`compile_main`: `global_macro_map.extend(in_scope_macros)`, then `expand` over all statements).
    let menvProg := (macImports mfix c.mods mg r.specs).foldl (fun e b => minsert e b.1 b.2) menv
    let viewOf := fun (k : Nat) (n : Name) =>
      match macViewM mfix c.mods mg k n with
      | some v => some v
      | none => menvProg.lookup n
    -- a module body that uses a macro which is not in scope calls an undefined function: the program fails when
    -- it is built, like any free identifier
    -- … and a macro of the module that a require removed from its macro map but that the module provides as a
    -- plain identifier is then a provide of a VALUE nobody defines
    let macroFree := emitted.any fun k =>
      ((mg.mod k).views.any fun n => (viewOf k n).isNone) ||
      ((mg.mod k).plainProv.any fun n =>
        (mg.mod k).macs.contains n && !(effMacs mfix.ownFirst c.mods mg k).contains n)
    let r' := if macroFree then { rv with mode := .failBuild } else rv
    let (st', status) := evalRequestM fixed g st r'
    if status = .undetermined then
      out := out ++ ["undetermined"]
      stop := true
      continue
    st := st'
    menv := macStep mfix c.mods mg menv r.specs status
    if status = .ok ∨ status = .errRuntime then
      mviews := (emitted.map fun k => (k, (mg.mod k).views.map fun n => (n, viewOf k n))) ++ mviews
    out := out ++ [s!"req {i} {showStatusK (c.kinds.getD i "ok") status}",
      lineOf true "obs" (r.obs.map fun n => (n, if isMacName n then menv.lookup n else st.tbl.lookup n))]
    for k in sortDedup (st.hashes.map (·.1)) do
      out := out ++ [lineOf true s!"view {k}" (mView st k ++ (mviews.lookup k).getD [])]
    out := out ++ [cntLine g.length st.im.count]
    i := i + 1
  return out ++ ["endcase"]

def runSpec (c : Case) : List String := Id.run do
  let g : Graph := mergeMacros c.mods c.mmods
  let ms := sBuild g
  let mut st : SState := {}
  let mut out : List String := [s!"case {c.id}"]
  let mut i := 0
  for r in c.reqs do
    let (st', status) := evalRequestS g ms st r
    st := st'
    out := out ++ [s!"req {i} {showStatusK (c.kinds.getD i "ok") status}",
      lineOf false "obs" (r.obs.map fun n => (n, st.top.lookup n))]
    for k in sortDedup st.inst do
      out := out ++ [lineOf false s!"view {k}" (sView g ms k)]
    out := out ++ [cntLine g.length (fun k => if k ∈ st.inst then 1 else 0)]
    i := i + 1
  return out ++ ["endcase"]

/-- Echo the case, inserting before each module's `end` the names S makes visible inside it. -/
def elabCase (c : Case) : List String := Id.run do
  let gS := mergeMacros c.mods c.mmods
  let ms := sBuild gS
  let mut out : List String := []
  let mut k := 0
  let mut inMod := false
  for l in c.raw do
    match toks l with
    | ["module", _] => inMod := true; out := out ++ [l]
    | ["request"] => inMod := false; out := out ++ [l]
    | "view" :: _ => pure ()
    | ["end"] =>
      if inMod then
        -- names S makes visible in the module, restricted to those the module body itself defines
        -- under the code's (flattening) reading: a name outside that set would be looked up in the
        -- global namespace of whatever program happens to be running (not a module-system matter)
        let m := c.mods.getD k ⟨[], [], [], []⟩
        let flat := m.defs ++ (m.reqs.map Spec.flatten).flatMap fun r =>
          (r.importsM ((Graph.provNames c.mods r.target).map fun n => (n, ()))).map (·.1)
        let all := ((ms.getD k ⟨[], [], true⟩).env.map (·.1)).eraseDups
        -- values first, then the macros S makes visible in the module (all of them)
        let names := (all.filter fun n => !isMacName n && flat.contains n) ++ all.filter isMacName
        if !names.isEmpty then
          out := out ++ ["view " ++ " ".intercalate (names.map showName)]
        k := k + 1
        inMod := false
      out := out ++ [l]
    | _ => out := out ++ [l]
  return out

/-- `guard`: is the case inside the guard of `whole_request_refinement_partial` (Props §5)?  Prints whether the
graph is (`graphGuard`) and how many leading requests are (`reqGuard`): on those the theorem says M = S, so the
real engine must equal S there, with no finding to appeal to. -/
def guardCase (c : Case) : List String :=
  let g : Graph := c.mods
  -- modules that provide or use macros are outside the theorem (macros are not part of `evalRequestM`)
  let gok := graphGuard false g && c.mmods.all fun d => d.macs.isEmpty && d.views.isEmpty
  let ms := sBuild g
  let lead := (c.reqs.takeWhile (reqGuard false g ms)).length
  [s!"case {c.id}", s!"guard {gok} {if gok then lead else 0} {c.reqs.length}", "endcase"]

partial def readAll (h : IO.FS.Stream) (p : PState) : IO PState := do
  let l ← h.getLine
  if l.isEmpty then return p
  readAll h (feed p l)

end SteelVerif.C14

open SteelVerif.C14 in
def main (args : List String) : IO UInt32 := do
  let stdin ← IO.getStdin
  let p ← readAll stdin {}
  for e in p.errors do
    IO.eprintln s!"c14driver: {e}"
  let mode := args.headD "model"
  for c in p.done do
    let lines :=
      match mode with
      | "elab" => elabCase c
      | "spec" => runSpec c
      | "guard" => guardCase c
      | "model" => runModel {} {} c
      | m =>
        -- `variant:<flags>`: m = modifiers composed (what S asks; open finding K14c),
        -- R = the roll-back defect fixed by d10f8017 re-introduced, C = the unmangled contract
        -- imports fixed by 1587f6f5 re-introduced; macros: g = a module's own macro wins (open finding K14g),
        -- E = modifiers not applied to provided macros (fixed by 0fe3fa8e, K14e) re-introduced, F = macros of a
        -- failed request stay in scope (fixed by 3bef0920, K14f) re-introduced.  `model` takes E / F from what the
        -- translator read in the source (`MacFix` defaults).
        let fl := ((m.splitOn ":").getD 1 "").toList
        runModel { rollback := !fl.contains 'R', contractImports := !fl.contains 'C',
                   compose := fl.contains 'm' }
          -- (every variant starts from the code as the translator read it: a repair that is missing in the
          -- source is missing in all of them, so no open finding can be made to answer for it)
          -- e / f: the repair forced ON whatever the source says (to name a regression of 0fe3fa8e / 3bef0920)
          { compose := fl.contains 'm', modifiers := (({} : MacFix).modifiers && !fl.contains 'E') || fl.contains 'e',
            rollback := (({} : MacFix).rollback && !fl.contains 'F') || fl.contains 'f',
            ownFirst := fl.contains 'g' } c
    for l in lines do
      IO.println l
  return (if p.errors.isEmpty then 0 else 2)
