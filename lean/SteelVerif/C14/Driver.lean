/-
C14 driver.  Reads module-graph cases + evaluation requests (the text the Rust harness `c14` reads) and
prints what the model M (`model`), a variant of it (`variant:<flags>`, see `main`) or the specification S (`spec`) says each
request yields (`guard`: whether the case is inside the guard of the refinement theorem): status, the binding of every observed name, every instantiated module's view of its
names, and the per-module instantiation counters.  `elab` echoes the input with the `view` lines of
every module (the names S makes visible inside it) inserted.

Input (one token list per line):
  case <id> | module <k> | def <name> | prov <name> | cprov <name> | req <spec> | view <name>… | end
  request | req <spec> | def <name> | mode ok|syntax|freeid|runtime | obs <name>… | end | endcase
  <spec> ::= <k>[~<spelling>] | p:<prefix>:<spec> | o:<id>[=<to>],…:<spec>
  `dir <sub/dir>` (in a module) and `~<spelling>` only tell the harness where the file is put and how the
  path in the require form is written; a module is identified by its canonical path, i.e. by `k`.
-/
import SteelVerif.C14.Model
namespace SteelVerif.C14

def parseIds (s : String) : List (Name × Option Name) :=
  ((s.splitOn ",").filter (· ≠ "")).map fun f =>
    match f.splitOn "=" with
    | [a, b] => (a.toList, some b.toList)
    | _ => (f.toList, none)

def parseSpecFields : Nat → List String → Option Spec
  | 0, _ => none
  | _ + 1, [n] => ((n.splitOn "~").headD "").toNat?.map Spec.path   -- `k~spelling`: same file, same module
  | fuel + 1, "p" :: pfx :: rest => (parseSpecFields fuel rest).map (Spec.prefixIn pfx.toList)
  | fuel + 1, "o" :: ids :: rest => (parseSpecFields fuel rest).map (fun s => Spec.onlyIn s (parseIds ids))
  | _, _ => none

def parseSpec (s : String) : Option Spec :=
  let fs := s.splitOn ":"
  parseSpecFields (fs.length + 1) fs

structure Case where
  id : String := ""
  mods : List Module := []
  reqs : List Request := []
  raw : List String := []       -- the input lines of the case, in order
deriving Inhabited

inductive Ctx where
  | none | inModule | inRequest
deriving DecidableEq

structure PState where
  cur : Case := {}
  ctx : Ctx := .none
  m : Module := ⟨[], [], [], []⟩
  r : Request := { specs := [] }
  done : List Case := []
  errors : List String := []

def toks (l : String) : List String := (l.trimAscii.toString.splitOn " ").filter (· ≠ "")

def parseMode : String → Mode
  | "syntax" => .failCompile | "freeid" => .failBuild | "runtime" => .failRuntime | _ => .ok

def feed (p : PState) (l : String) : PState :=
  let l := (l.toList.filter (fun c => c ≠ '\n' ∧ c ≠ '\r')) |> String.ofList
  let p := { p with cur := { p.cur with raw := p.cur.raw ++ [l] } }
  match toks l, p.ctx with
  | ["case", id], _ => { p with cur := { id := id, raw := [l] }, ctx := .none }
  | ["module", _], _ => { p with ctx := .inModule, m := ⟨[], [], [], []⟩ }
  | ["request"], _ => { p with ctx := .inRequest, r := { specs := [] } }
  | ["dir", _], .inModule => p     -- where the file lives: irrelevant to the module's identity
  | ["def", n], .inModule => { p with m := { p.m with defs := p.m.defs ++ [n.toList] } }
  | ["prov", n], .inModule => { p with m := { p.m with provs := p.m.provs ++ [⟨n.toList, false⟩] } }
  | ["cprov", n], .inModule => { p with m := { p.m with provs := p.m.provs ++ [⟨n.toList, true⟩] } }
  | "view" :: ns, .inModule => { p with m := { p.m with views := p.m.views ++ ns.map String.toList } }
  | ["req", s], .inModule =>
      match parseSpec s with
      | some sp => { p with m := { p.m with reqs := p.m.reqs ++ [sp] } }
      | none => { p with errors := p.errors ++ [s!"bad spec {s}"] }
  | ["end"], .inModule => { p with cur := { p.cur with mods := p.cur.mods ++ [p.m] }, ctx := .none }
  | ["def", n], .inRequest => { p with r := { p.r with defs := p.r.defs ++ [n.toList] } }
  | ["req", s], .inRequest =>
      match parseSpec s with
      | some sp => { p with r := { p.r with specs := p.r.specs ++ [sp] } }
      | none => { p with errors := p.errors ++ [s!"bad spec {s}"] }
  | ["mode", m], .inRequest => { p with r := { p.r with mode := parseMode m } }
  | "obs" :: ns, .inRequest => { p with r := { p.r with obs := p.r.obs ++ ns.map String.toList } }
  | ["end"], .inRequest => { p with cur := { p.cur with reqs := p.cur.reqs ++ [p.r] }, ctx := .none }
  | ["poke"], _ => p
  | ["endcase"], _ => { p with done := p.done ++ [p.cur], cur := {}, ctx := .none }
  | [], _ => p
  | _, _ => if (toks l).head? = some "#" then p else { p with errors := p.errors ++ [s!"bad line {l}"] }

/-! ## printing -/

def showName (n : Name) : String := String.ofList n

def showOrigin : Origin → String
  | .mod k => s!"m{k}"
  | .top i => s!"top{i}"

/-- Convention of the generators: a definition whose name starts with `f` or `g` is a one-argument
function returning its tag, `h2`..`h6` a function of that many parameters taking a callback first,
every other definition is the tag itself. -/
def isFn (n : Name) : Bool := n.head? == some 'f' || n.head? == some 'g' || n.head? == some 'h'

def showVal (v : Val) : String :=
  let t := s!"{showOrigin v.origin}.{showName v.name}"
  if isFn v.name then s!"fn:{t}:{if v.contracted then "c" else "p"}" else t

def showOVal : Option Val → String
  | some v => showVal v
  | none => "err:free-id"

def showStatus : Status → String
  | .ok => "ok" | .errSyntax => "err:syntax" | .errFreeId => "err:free-id"
  | .errRuntime => "err:runtime" | .errRequire => "err:require" | .undetermined => "undetermined"

def showBindings (l : List (Name × Option Val)) : String :=
  " ".intercalate (l.map fun (n, v) => s!"{showName n}={showOVal v}")

def lineOf (head : String) (l : List (Name × Option Val)) : String :=
  if l.isEmpty then head else head ++ " " ++ showBindings l

def insertSorted (k : Nat) : List Nat → List Nat
  | [] => [k]
  | x :: xs => if k < x then k :: x :: xs else if k = x then x :: xs else x :: insertSorted k xs

def sortDedup (l : List Nat) : List Nat := l.foldl (fun acc k => insertSorted k acc) []

def cntLine (n : Nat) (count : Nat → Nat) : String :=
  "cnt " ++ " ".intercalate ((List.range n).map fun k => s!"{k}:{count k}")

def runModel (fixed : Fix) (c : Case) : List String := Id.run do
  let g : Graph := c.mods
  let mut st : MState := {}
  let mut out : List String := [s!"case {c.id}"]
  let mut i := 0
  let mut stop := false
  for r in c.reqs do
    if stop then continue
    let (st', status) := evalRequestM fixed g st r
    if status = .undetermined then
      out := out ++ ["undetermined"]
      stop := true
      continue
    st := st'
    out := out ++ [s!"req {i} {showStatus status}",
      lineOf "obs" (r.obs.map fun n => (n, st.tbl.lookup n))]
    for k in sortDedup (st.hashes.map (·.1)) do
      out := out ++ [lineOf s!"view {k}" (mView st k)]
    out := out ++ [cntLine g.length st.im.count]
    i := i + 1
  return out ++ ["endcase"]

def runSpec (c : Case) : List String := Id.run do
  let g : Graph := c.mods
  let ms := sBuild g
  let mut st : SState := {}
  let mut out : List String := [s!"case {c.id}"]
  let mut i := 0
  for r in c.reqs do
    let (st', status) := evalRequestS g ms st r
    st := st'
    out := out ++ [s!"req {i} {showStatus status}",
      lineOf "obs" (r.obs.map fun n => (n, st.top.lookup n))]
    for k in sortDedup st.inst do
      out := out ++ [lineOf s!"view {k}" (sView g ms k)]
    out := out ++ [cntLine g.length (fun k => if k ∈ st.inst then 1 else 0)]
    i := i + 1
  return out ++ ["endcase"]

/-- Echo the case, inserting before each module's `end` the names S makes visible inside it. -/
def elabCase (c : Case) : List String := Id.run do
  let ms := sBuild c.mods
  let mut out : List String := []
  let mut k := 0
  let mut inMod := false
  for l in c.raw do
    match toks l with
    | ["module", _] => inMod := true; out := out ++ [l]
    | ["request"] => inMod := false; out := out ++ [l]
    | "view" :: _ => pure ()
    | ["end"] =>
      if inMod then
        -- names S makes visible in the module, restricted to those the module body itself defines
        -- under the code's (flattening) reading: a name outside that set would be looked up in the
        -- global namespace of whatever program happens to be running (not a module-system matter)
        let m := c.mods.getD k ⟨[], [], [], []⟩
        let flat := m.defs ++ (m.reqs.map Spec.flatten).flatMap fun r =>
          (r.importsM ((Graph.provNames c.mods r.target).map fun n => (n, ()))).map (·.1)
        let names := (((ms.getD k ⟨[], [], true⟩).env.map (·.1)).eraseDups).filter (flat.contains ·)
        if !names.isEmpty then
          out := out ++ ["view " ++ " ".intercalate (names.map showName)]
        k := k + 1
        inMod := false
      out := out ++ [l]
    | _ => out := out ++ [l]
  return out

/-- `guard`: is the case inside the guard of `whole_request_refinement_partial` (Props §5)?  Prints whether the
graph is (`graphGuard`) and how many leading requests are (`reqGuard`): on those the theorem says M = S, so the
real engine must equal S there, with no finding to appeal to. -/
def guardCase (c : Case) : List String :=
  let g : Graph := c.mods
  let gok := graphGuard g
  let ms := sBuild g
  let lead := (c.reqs.takeWhile (reqGuard g ms)).length
  [s!"case {c.id}", s!"guard {gok} {if gok then lead else 0} {c.reqs.length}", "endcase"]

partial def readAll (h : IO.FS.Stream) (p : PState) : IO PState := do
  let l ← h.getLine
  if l.isEmpty then return p
  readAll h (feed p l)

end SteelVerif.C14

open SteelVerif.C14 in
def main (args : List String) : IO UInt32 := do
  let stdin ← IO.getStdin
  let p ← readAll stdin {}
  for e in p.errors do
    IO.eprintln s!"c14driver: {e}"
  let mode := args.headD "model"
  for c in p.done do
    let lines :=
      match mode with
      | "elab" => elabCase c
      | "spec" => runSpec c
      | "guard" => guardCase c
      | "model" => runModel {} c
      | m =>
        -- `variant:<flags>`: m = modifiers composed (what S asks; open finding K14c),
        -- R = the roll-back defect fixed by d10f8017 re-introduced, C = the unmangled contract
        -- imports fixed by 1587f6f5 re-introduced
        let fl := ((m.splitOn ":").getD 1 "").toList
        runModel { rollback := !fl.contains 'R', contractImports := !fl.contains 'C',
                   compose := fl.contains 'm' } c
    for l in lines do
      IO.println l
  return (if p.errors.isEmpty then 0 else 2)
