/-
C14 — unused-import pruning (`compiler/passes/analysis.rs::remove_unused_globals_with_prefix`, called from
`compiler.rs` with `MANGLER_PREFIX`): which top-level defines of a compilation unit are removed, as a function of
the removal sites that `translate/c14_tables.py` reads from the current source (`GenTables.lean`).
-/
import SteelVerif.C14.GenTables
import SteelVerif.C14.Model
namespace SteelVerif.C14

/-- A top-level define of a compilation unit, as far as pruning looks at it. -/
structure TopDefine where
  name : Name
  uses : Nat            -- `usage_count` of the semantic analysis: references to this define in the unit
  importBody : Bool     -- the body is `(%module-get% …)` / `(%proto-hash-get% …)`: what a `require` generates
  inMacro : Bool        -- the template of some macro mentions the name
deriving Repr, DecidableEq

/-- Does removal site `s` fire on `d`?  (A condition the site does not have is no restriction.) -/
def siteRemoves (s : Gen.PruneSite) (pfx : Name) (d : TopDefine) : Bool :=
  (!s.prefixed || pfx.isPrefixOf d.name) && (!s.unused || d.uses == 0) &&
    (!s.importBody || d.importBody) && (!s.macroKeep || !d.inMacro)

/-- `self.exprs.retain_mut(…)`: a define stays unless some site removes it. -/
def prune (sites : List Gen.PruneSite) (pfx : Name) (ds : List TopDefine) : List TopDefine :=
  ds.filter fun d => !(sites.any fun s => siteRemoves s pfx d)

end SteelVerif.C14
