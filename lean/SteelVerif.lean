-- Root of the `SteelVerif` library: every model, lemma and property file.
import SteelVerif.C05.Props
