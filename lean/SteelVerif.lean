-- Root of the `SteelVerif` library: every model, lemma and property file.
import SteelVerif.C01.Props
import SteelVerif.C04.Props
import SteelVerif.C05.Props
import SteelVerif.C06.Props
import SteelVerif.C06.Rollback
import SteelVerif.C09.Props
import SteelVerif.C10.Props
import SteelVerif.C11.Props
import SteelVerif.C11.GenSound
import SteelVerif.C12.Props
import SteelVerif.C14.Props
import SteelVerif.C19.Props
import SteelVerif.C20.Props
