-- Root of the `SteelVerif` library: every model, lemma and property file.
import SteelVerif.C01.Props
import SteelVerif.C05.Props
import SteelVerif.C06.Props
