# Directed cases from the case split of handler_error_goes_to_next_handler, at the SECOND site of the handler search
# in vm.rs (the unwind loop of a nested interpreter instance: callbacks of native higher-order built-ins).
# The handlers here fail only the first times they run, so that a handler search that hands a handler its own
# error back still terminates (with the wrong trace) instead of looping.
# (a) the handler itself raises (no frame above the handler frame), stage = mapping
(define tr '())
(define (note x) (set! tr (cons x tr)) x)
(define budget 2)
(define (again?) (if (> budget 0) (begin (set! budget (- budget 1)) #t) #f))
(define (go)
  (call-with-exception-handler (lambda (e) (note 'top) -1)
    (lambda ()
      (+ 100 (apply + (transduce (list 3 4)
                        (mapping (lambda (x)
                          (call-with-exception-handler
                            (lambda (e) (note 'inner) (if (again?) (car x) (+ x 10)))
                            (lambda () (note x) (vector-ref (vector 1 2) 7)))))
                        (into-list)))))))
(go)
(go)
(reverse tr)
;;;===
# (b) the handler raises from a procedure it calls (frames above the handler frame), reducer = into-for-each,
#     two handler frames inside the callback: the error of the inner handler belongs to the middle one
(define tr '())
(define (note x) (set! tr (cons x tr)) x)
(define budget 3)
(define (again?) (if (> budget 0) (begin (set! budget (- budget 1)) #t) #f))
(define (deep x) (+ 1 (if (again?) (error "from a call inside the handler" x) x)))
(define (go)
  (with-handler (lambda (e) (note 'top) -1)
    (begin
      (transduce (list 1 2 3)
        (into-for-each (lambda (x)
          (call-with-exception-handler
            (lambda (e) (note 'middle) x)
            (lambda ()
              (+ 5 (call-with-exception-handler
                     (lambda (e) (note 'inner) (deep x))
                     (lambda () (note x) (error "boom" x)))))))))
      7)))
(go)
(reverse tr)
;;;===
# (c) reducer = into-reducer, filtering stage in front; the handler of the reducer callback re-raises once, the
#     handler around the whole transduce returns
(define tr '())
(define (note x) (set! tr (cons x tr)) x)
(define budget 1)
(define (again?) (if (> budget 0) (begin (set! budget (- budget 1)) #t) #f))
(define (go)
  (+ 1 (call-with-exception-handler (lambda (e) (note 'top) 1000)
         (lambda ()
           (transduce (list 1 2 3 4)
             (filtering (lambda (x) (note (list 'f x)) (< x 4)))
             (into-reducer (lambda (acc x)
                             (+ acc (call-with-exception-handler
                                      (lambda (e) (note 'h) (if (again?) (raise-error e) 50))
                                      (lambda () (if (= x 2) (error "two") x)))))
                           0))))))
(go)
(go)
(reverse tr)
