# Histories: pieces separated by `;;;---` are separate evaluations on ONE engine (REPL-like).  A piece that ends with an
# uncaught error yields `!err`; the session goes on.  A continuation has the extent of its top-level form.
# 1. a form stores its continuation and dies with an uncaught error; later evaluations invoke it twice
(define tr '())
(define (note x) (set! tr (cons x tr)) x)
(define k #f)
(define fuses 1)
(define (fuse!) (if (> fuses 0) (begin (set! fuses (- fuses 1)) (error "boom")) 0))
;;;---
(+ 1 (call/cc (lambda (c) (set! k c) 1)) (fuse!))
(note 'not-reached)
;;;---
(note 'session-goes-on)
(k 41)
(note 'after-first)
;;;---
(+ 100 (k 1))
(reverse tr)
;;;===
# 2. the dying form sits in two winds (their after thunks run when it dies); the later invocations re-enter them,
#    once plainly and once from inside another wind
(define tr '())
(define (note x) (set! tr (cons x tr)) x)
(define k #f)
(define fuses 1)
(define (fuse!) (if (> fuses 0) (begin (set! fuses (- fuses 1)) (error "boom")) 0))
;;;---
(dynamic-wind (lambda () (note 'in1)) (lambda () (dynamic-wind (lambda () (note 'in2)) (lambda () (+ (call/cc (lambda (c) (set! k c) 1)) (fuse!))) (lambda () (note 'out2)))) (lambda () (note 'out1)))
;;;---
(k 5)
;;;---
(dynamic-wind (lambda () (note 'in3)) (lambda () (+ 1 (k 6))) (lambda () (note 'out3)))
;;;---
(reverse tr)
;;;===
# 3. dying inside a procedure call, under a handler that raises again; invoked later from a handler body and a call
(define tr '())
(define (note x) (set! tr (cons x tr)) x)
(define k #f)
(define fuses 1)
(define (fuse!) (if (> fuses 0) (begin (set! fuses (- fuses 1)) (error "boom")) 0))
(define (twice x) (* 2 x))
;;;---
(twice (call-with-exception-handler (lambda (e) (note 'h) (error "again")) (lambda () (+ (call/cc (lambda (c) (set! k c) 1)) (fuse!)))))
;;;---
(call-with-exception-handler (lambda (e) (note 'h2) (k 10)) (lambda () (car 5)))
;;;---
(twice (k 3))
(reverse tr)
;;;===
# 4. no continuation crosses an evaluation: uncaught errors inside winds, then fresh captures in later evaluations
(define tr '())
(define (note x) (set! tr (cons x tr)) x)
(define k #f)
;;;---
(dynamic-wind (lambda () (note 'in1)) (lambda () (dynamic-wind (lambda () (note 'in2)) (lambda () (call/cc (lambda (c) (set! k c) 1)) (car 5)) (lambda () (note 'out2)))) (lambda () (note 'out1)))
;;;---
(begin (set! k #f) 0)
(+ 1 (call/cc (lambda (c) (dynamic-wind (lambda () (note 'in3)) (lambda () (c 7)) (lambda () (note 'out3))))))
;;;---
(with-handler (lambda (e) (note 'handled) 0) (dynamic-wind (lambda () (note 'in4)) (lambda () (error "x")) (lambda () (note 'out4))))
(error "uncaught")
;;;---
(define r (call/cc (lambda (c) (set! k c) 0)))
(if (< r 2) (k (+ r 1)) r)
(reverse tr)
;;;===
# 5. stored, the form dies, never invoked; a continuation of a form that finished is invoked by two later evaluations
(define tr '())
(define (note x) (set! tr (cons x tr)) x)
(define k #f)
(define j #f)
;;;---
(note (+ 1 (call/cc (lambda (c) (set! j c) 1))))
;;;---
(+ (call/cc (lambda (c) (set! k c) 1)) (car 5))
;;;---
(j 10)
;;;---
(let ((x (j 20))) (note 'not-reached) x)
(reverse tr)
;;;===
# 6. the error is raised INSIDE the receiver of call/cc: the continuation's frame is on the stack when the form dies
#    (its mark is still open); the later evaluations resume (+ 1 []) twice
(define k #f)
(define trace '())
;;;---
(+ 1 (call/cc (lambda (c) (set! k c) (error "boom"))))
;;;---
(set! trace (cons (k 41) trace))
;;;---
(set! trace (cons (k 99) trace))
;;;---
(list 'resumed-twice (reverse trace))
;;;===
# 7. the same under two winds and inside a procedure called by the receiver; invoked from inside a wind and a handler
(define tr '())
(define (note x) (set! tr (cons x tr)) x)
(define k #f)
(define (boom x) (car x))
;;;---
(dynamic-wind (lambda () (note 'in1)) (lambda () (dynamic-wind (lambda () (note 'in2)) (lambda () (+ 1 (call/cc (lambda (c) (set! k c) (note 'captured) (boom 5))))) (lambda () (note 'out2)))) (lambda () (note 'out1)))
;;;---
(dynamic-wind (lambda () (note 'in3)) (lambda () (+ 10 (k 1))) (lambda () (note 'out3)))
;;;---
(call-with-exception-handler (lambda (e) (k 2)) (lambda () (boom 6)))
;;;---
(reverse tr)
