;; expect-last: 77
;; C04 K04a: a box reachable only through an installed exception handler is reclaimed and reused.
;; `call-with-exception-handler` keeps the handler in StackFrame.attachments.handler only; the roots of a
;; collection (VmCore::make_box / gc_collect / ...) are the operand stack, the frames' *functions*,
;; globals and TLS, so the handler closure's captures are not marked.
;; Expected (specification): 77.   Observed before the fix: overwritten
(define (garbage n) (if (= n 0) 0 (begin (box 'overwritten) (garbage (- n 1)))))
(define (mk) (let ((hb (box 77))) (lambda (e) (unbox hb))))
(define (body) (#%gc-collect) (garbage 30000) (error "x"))
(call-with-exception-handler (mk) (lambda () (body)))
