;; expect-last: 42
;; C04 K04b: a box reachable only from thread-local storage is handed out again after the global-slot
;; recycler ran (GlobalSlotRecycler::recycle resets ALL mark bits, marks from the global variables only and
;; recounts: every slot reachable only from TLS / rooted host values / other threads looks free).
;; 105 redefinitions in separate evaluations cross the recycling threshold (100).
;; Expected last value: 42.   Observed before the fix: overwritten
(define t (make-tls (box 42)))
(define (garbage n) (if (= n 0) 0 (begin (box 'overwritten) (garbage (- n 1)))))
;;;---
(define junk 1)
;;;---
(define junk 2)
;;;---
(define junk 3)
;;;---
(define junk 4)
;;;---
(define junk 5)
;;;---
(define junk 6)
;;;---
(define junk 7)
;;;---
(define junk 8)
;;;---
(define junk 9)
;;;---
(define junk 10)
;;;---
(define junk 11)
;;;---
(define junk 12)
;;;---
(define junk 13)
;;;---
(define junk 14)
;;;---
(define junk 15)
;;;---
(define junk 16)
;;;---
(define junk 17)
;;;---
(define junk 18)
;;;---
(define junk 19)
;;;---
(define junk 20)
;;;---
(define junk 21)
;;;---
(define junk 22)
;;;---
(define junk 23)
;;;---
(define junk 24)
;;;---
(define junk 25)
;;;---
(define junk 26)
;;;---
(define junk 27)
;;;---
(define junk 28)
;;;---
(define junk 29)
;;;---
(define junk 30)
;;;---
(define junk 31)
;;;---
(define junk 32)
;;;---
(define junk 33)
;;;---
(define junk 34)
;;;---
(define junk 35)
;;;---
(define junk 36)
;;;---
(define junk 37)
;;;---
(define junk 38)
;;;---
(define junk 39)
;;;---
(define junk 40)
;;;---
(define junk 41)
;;;---
(define junk 42)
;;;---
(define junk 43)
;;;---
(define junk 44)
;;;---
(define junk 45)
;;;---
(define junk 46)
;;;---
(define junk 47)
;;;---
(define junk 48)
;;;---
(define junk 49)
;;;---
(define junk 50)
;;;---
(define junk 51)
;;;---
(define junk 52)
;;;---
(define junk 53)
;;;---
(define junk 54)
;;;---
(define junk 55)
;;;---
(define junk 56)
;;;---
(define junk 57)
;;;---
(define junk 58)
;;;---
(define junk 59)
;;;---
(define junk 60)
;;;---
(define junk 61)
;;;---
(define junk 62)
;;;---
(define junk 63)
;;;---
(define junk 64)
;;;---
(define junk 65)
;;;---
(define junk 66)
;;;---
(define junk 67)
;;;---
(define junk 68)
;;;---
(define junk 69)
;;;---
(define junk 70)
;;;---
(define junk 71)
;;;---
(define junk 72)
;;;---
(define junk 73)
;;;---
(define junk 74)
;;;---
(define junk 75)
;;;---
(define junk 76)
;;;---
(define junk 77)
;;;---
(define junk 78)
;;;---
(define junk 79)
;;;---
(define junk 80)
;;;---
(define junk 81)
;;;---
(define junk 82)
;;;---
(define junk 83)
;;;---
(define junk 84)
;;;---
(define junk 85)
;;;---
(define junk 86)
;;;---
(define junk 87)
;;;---
(define junk 88)
;;;---
(define junk 89)
;;;---
(define junk 90)
;;;---
(define junk 91)
;;;---
(define junk 92)
;;;---
(define junk 93)
;;;---
(define junk 94)
;;;---
(define junk 95)
;;;---
(define junk 96)
;;;---
(define junk 97)
;;;---
(define junk 98)
;;;---
(define junk 99)
;;;---
(define junk 100)
;;;---
(define junk 101)
;;;---
(define junk 102)
;;;---
(define junk 103)
;;;---
(define junk 104)
;;;---
(define junk 105)
;;;---
(garbage 1000)
(unbox (get-tls t))
