# K01h (fixed): a condition that constant evaluation reduces to the quoted boolean '#f was pruned as if true
(list (if (or #f #f) 1 2) (let ((a #f)) (if (or a a) 1 2)) (let ((a #f) (b #f)) (if (or a b) 1 2)) (if (let ((z #f)) (if z z #f)) 1 2))
(list (if '#f 1 2) (if (quote #false) 1 2) (if (let ((z #f)) z) 1 2) (if ((lambda (z) z) #f) 1 2) (cond ((or #false #false) 1) (else 2)))
(define (f) (if (or #false #false) 1 2))
(f)
(define g1 1)
(define (k10) (cond ((negative? 2) 10) ((or #false #false) (cond (0 g1) (else 5))) (else 0)))
(begin (set! g1 (k10)) g1)
