# K01b (fixed a3ad6196): same-unit calls were inlined without an arity check
(define (ff x) x) (ff 1 2)
;;;===
(display "before") (define (hh x y) (list x y)) (hh 1)
;;;===
(define (two a b) a) (define (w) (with-handler (lambda (e) 42) (+ 1 (two 1)))) (w)
