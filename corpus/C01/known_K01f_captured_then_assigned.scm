# finding: K01f
# a parameter captured by a lambda and assigned afterwards: the call of the lambda returns the variable's box
(define saved #f)
(define (f x) (set! saved (lambda () x)) (set! x 10) (saved))
(f 1)
