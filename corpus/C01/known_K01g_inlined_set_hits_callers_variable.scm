# finding: K01g
# after inlining g into f2, RemoveLetsBoundToOtherLocalVars rewrites the callee's set! of its own parameter onto
# the caller's variable
(define (g p) (set! p (+ p 1)) p)
(define (f2 x) (g x) x)
(map f2 (list 1 2))
