# order of evaluation, set! result, rest arguments, shadowing, internal defines, dead errors
((begin (display "f") car) (begin (display "a") (list 1)))
;;;===
(define z 1) (set! z 2) z (define (f . xs) xs) (f 1 2) (f)
;;;===
(define (g x) (define (h y) (+ x y)) (let ((x 10)) (h x))) (g 1) (if #false (car '()) 5) (if (< 1 2) 7 (error "never"))
;;;===
(define (mk) (let ((n 0)) (lambda () (set! n (+ n 1)) n))) (define c1 (mk)) (define c2 (mk)) (c1) (c1) (c2) (list (c1) (c2))
