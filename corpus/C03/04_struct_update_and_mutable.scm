;; C03 directed cases: #%struct-update (Gc::get_mut fast path without surface syntax) and the mutable containers.
;; --- with the struct types the `struct` form creates the primitive raises before it looks at the count
(define p (rec 1 2))
(define q p)
(define r (with-handler (lambda (e) 'error) (#%struct-update p 'a 10)))
(P "r" (if (symbol? r) 0 r)) (P "p" p) (P "q" q)
;;= r 0
;;= p [1 2]
;;= q [1 2]
;;;===
;; --- mutable vectors are mutable by design: an alias SEES vector-set! / vector-push! (not covered by C03's statement);
;; the immutable vector they were built from does not
(define iv (immutable-vector 1 2))
(define mv (vector 1 2))
(define alias mv)
(vector-set! mv 0 9)
(vector-push! mv 3)
(P "mv" mv) (P "alias" alias) (P "iv" iv)
;;= mv #m(9 2 3)
;;= alias #m(9 2 3)
;;= iv #(1 2)
;;;===
;; --- the mutating primitives refuse an immutable vector (no in-place write of an immutable value)
(define iv (immutable-vector 1 2))
(define keep iv)
(define r1 (with-handler (lambda (e) 'error) (vector-set! iv 0 9)))
(define r2 (with-handler (lambda (e) 'error) (vector-push! iv 3)))
(displayln r1) (displayln r2) (P "iv" iv) (P "keep" keep)
;;= error
;;= error
;;= iv #(1 2)
;;= keep #(1 2)
;;;===
;; --- transducers into collections do not consume their source
(define l (list 3 1 2))
(define v (immutable-vector 3 1 2))
(P "a" (transduce l (mapping (lambda (x) (+ x 1))) (into-list)))
(P "b" (transduce v (mapping (lambda (x) (+ x 1))) (into-vector)))
(P "c" (transduce l (into-hashset)))
(P "d" (transduce l (extending l) (into-list)))
(P "e" (sort l <))
(P "l" l) (P "v" v)
;;= a (4 2 3)
;;= b #(4 2 3)
;;= c #{1 2 3}
;;= d (3 1 2 3 1 2)
;;= e (1 2 3)
;;= l (3 1 2)
;;= v #(3 1 2)
