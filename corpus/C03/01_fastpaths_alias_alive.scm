;; C03 directed cases: every in-place fast path of /repo with an alias of the argument alive.
;; Format: programs separated by `;;;===`; the prelude of gen/alias03.py (show, P, rec, idf, mk-thunk) is prepended;
;; expected output = the lines `;;= ...`.   In every case `a` must print the same before and after.
;; --- hash-insert / hash-remove / hash-union / hash-clear: global alias, argument still used afterwards
(define a (hash 1 10 2 20))
(define b a)
(P "r1" (hash-insert a 3 30))
(P "r2" (hash-remove a 1))
(P "r3" (hash-union a (hash 5 50 1 11)))
(P "r4" (hash-union (hash 5 50 1 11) a))
(P "r5" (hash-clear a))
(P "a" a) (P "b" b)
;;= r1 {1:10 2:20 3:30}
;;= r2 {2:20}
;;= r3 {1:10 2:20 5:50}
;;= r4 {1:11 2:20 5:50}
;;= r5 {}
;;= a {1:10 2:20}
;;= b {1:10 2:20}
;;;===
;; --- the same inside a function: the local is at its LAST use in each call (moved), the alias lives in a global
(define g #f)
(define (f1) (let ((a (hash 1 10 2 20))) (set! g a) (hash-insert a 3 30)))
(define (f2) (let ((a (hash 1 10 2 20))) (set! g a) (hash-remove a 1)))
(define (f3) (let ((a (hash 1 10 2 20))) (set! g a) (hash-union a (hash 5 50))))
(define (f4) (let ((a (hash 1 10 2 20))) (set! g a) (hash-union (hash 5 50) a)))
(define (f5) (let ((a (hash 1 10 2 20))) (set! g a) (hash-clear a)))
(P "r1" (f1)) (P "g" g)
(P "r2" (f2)) (P "g" g)
(P "r3" (f3)) (P "g" g)
(P "r4" (f4)) (P "g" g)
(P "r5" (f5)) (P "g" g)
;;= r1 {1:10 2:20 3:30}
;;= g {1:10 2:20}
;;= r2 {2:20}
;;= g {1:10 2:20}
;;= r3 {1:10 2:20 5:50}
;;= g {1:10 2:20}
;;= r4 {1:10 2:20 5:50}
;;= g {1:10 2:20}
;;= r5 {}
;;= g {1:10 2:20}
;;;===
;; --- alias held by a closure capture / a container slot / a struct field, argument at last use
(define (f)
  (let* ((a (hash 1 10))
         (clo (lambda () a))
         (box (list a 7))
         (st (rec a 0))
         (r (hash-insert a 2 20)))
    (P "r" r) (P "clo" (clo)) (P "box" box) (P "st" st)))
(f)
;;= r {1:10 2:20}
;;= clo {1:10}
;;= box ({1:10} 7)
;;= st [{1:10} 0]
;;;===
;; --- hashset-insert / hashset-clear
(define (f)
  (let* ((a (hashset 1 2))
         (clo (lambda () a))
         (r1 (hashset-insert a 3))
         (r2 (hashset-clear a)))
    (P "r1" r1) (P "r2" r2) (P "clo" (clo))))
(f)
(define s (hashset 1 2))
(define t s)
(P "r" (hashset-insert s 9)) (P "s" s) (P "t" t)
;;= r1 #{1 2 3}
;;= r2 #{}
;;= clo #{1 2}
;;= r #{1 2 9}
;;= s #{1 2}
;;= t #{1 2}
;;;===
;; --- immutable vectors: push / push-front / set / rest / take / drop
(define (f)
  (let* ((a (immutable-vector 1 2 3))
         (clo (lambda () a))
         (r1 (immutable-vector-push a 4))
         (r2 (vector-push-front a 0))
         (r3 (immutable-vector-set a 1 9))
         (r4 (immutable-vector-rest a))
         (r5 (immutable-vector-take a 2))
         (r6 (immutable-vector-drop a 2)))
    (P "r1" r1) (P "r2" r2) (P "r3" r3) (P "r4" r4) (P "r5" r5) (P "r6" r6) (P "clo" (clo))))
(f)
;;= r1 #(1 2 3 4)
;;= r2 #(0 1 2 3)
;;= r3 #(1 9 3)
;;= r4 #(2 3)
;;= r5 #(1 2)
;;= r6 #(3)
;;= clo #(1 2 3)
;;;===
;; --- each vector primitive with the local at its last use and the alias in a global
(define g #f)
(define (mk) (let ((a (immutable-vector 1 2 3))) (set! g a) a))
(P "r1" (immutable-vector-push (mk) 4)) (P "g" g)
(P "r2" (vector-push-front (mk) 0)) (P "g" g)
(P "r3" (immutable-vector-set (mk) 1 9)) (P "g" g)
(P "r4" (immutable-vector-rest (mk))) (P "g" g)
(P "r5" (immutable-vector-take (mk) 2)) (P "g" g)
(P "r6" (immutable-vector-drop (mk) 2)) (P "g" g)
;;= r1 #(1 2 3 4)
;;= g #(1 2 3)
;;= r2 #(0 1 2 3)
;;= g #(1 2 3)
;;= r3 #(1 9 3)
;;= g #(1 2 3)
;;= r4 #(2 3)
;;= g #(1 2 3)
;;= r5 #(1 2)
;;= g #(1 2 3)
;;= r6 #(3)
;;= g #(1 2 3)
;;;===
;; --- string-push (Gc::make_mut)
(define (f)
  (let* ((a (string-append "ab" "c"))
         (clo (lambda () a))
         (r1 (string-push a "d"))
         (r2 (string-push a #\e)))
    (P "r1" r1) (P "r2" r2) (P "clo" (clo))))
(f)
(define g #f)
(define (mk) (let ((a (string-append "x" "y"))) (set! g a) a))
(P "r" (string-push (mk) "z")) (P "g" g)
;;= r1 "abcd"
;;= r2 "abce"
;;= clo "abc"
;;= r "xyz"
;;= g "xy"
;;;===
;; --- a string literal is shared with the constant pool: pushing onto it in a loop must not change the literal
(define (f) (let ((s "lit")) (string-push s "!")))
(P "r1" (f)) (P "r2" (f)) (P "r3" (f))
;;= r1 "lit!"
;;= r2 "lit!"
;;= r3 "lit!"
;;;===
;; --- accumulate in place (count 1 after the first copy): the starting value is unaffected
(define start (hash 0 0))
(define (loop i acc) (if (< i 5) (loop (+ i 1) (hash-insert acc i (* i i))) acc))
(P "r" (loop 1 start)) (P "start" start)
(define vstart (immutable-vector 0))
(define (vloop i acc) (if (< i 4) (vloop (+ i 1) (immutable-vector-push acc i)) acc))
(P "v" (vloop 1 vstart)) (P "vstart" vstart)
;;= r {0:0 1:1 2:4 3:9 4:16}
;;= start {0:0}
;;= v #(0 1 2 3)
;;= vstart #(0)
