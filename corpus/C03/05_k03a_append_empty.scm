;; finding K03a (open): (append '() xs) returns '() when xs was itself produced by appending a short list in front of a
;; list of at least 8 elements: the result of a functional update is not the update applied to a copy.  xs itself is intact.
;;! known=K03a
(define xs (append (list 1) (list 1 2 3 4 5 6 7 8)))
(P "r" (append (list) xs))
(P "xs" xs)
;;= r (1 1 2 3 4 5 6 7 8)
;;= xs (1 1 2 3 4 5 6 7 8)
