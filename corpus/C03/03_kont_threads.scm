;; C03 directed cases: continuation frames and a second thread as holders.
;; --- a continuation captured before an update at a last use is re-entered: the captured local is intact
(define k #f)
(define (f)
  (let ((h (hash 1 10)))
    (let ((r (call/cc (lambda (c) (set! k c) 0))))
      (let ((h2 (hash-insert h 2 r)))
        (P "h2" h2)
        (if (< r 2) (k (+ r 1)) 'done)))))
(f)
;;= h2 {1:10 2:0}
;;= h2 {1:10 2:1}
;;= h2 {1:10 2:2}
;;;===
(define k #f)
(define (f)
  (let ((v (immutable-vector 1)) (l (list 1)) (s (string-append "a" "")))
    (let ((r (call/cc (lambda (c) (set! k c) 0))))
      (let ((v2 (immutable-vector-push v r)) (l2 (cons r l)) (s2 (string-push s "b")))
        (P "v2" v2) (P "l2" l2) (P "s2" s2)
        (if (< r 1) (k (+ r 1)) 'done)))))
(f)
;;= v2 #(1 0)
;;= l2 (0 1)
;;= s2 "ab"
;;= v2 #(1 1)
;;= l2 (1 1)
;;= s2 "ab"
;;;===
;; --- a value shared with a second thread: both sides update it, neither sees the other's update
(define (f)
  (let* ((h (hash 1 10))
         (v (immutable-vector 1 2))
         (t (spawn-native-thread (lambda () (list (show (hash-insert h 2 20)) (show (immutable-vector-push v 3)) (show h) (show v)))))
         (h2 (hash-insert h 3 30))
         (v2 (immutable-vector-push v 4)))
    (P "h2" h2) (P "v2" v2)
    (for-each (lambda (l) (display l) (newline)) (thread-join! t))
    (P "h" h) (P "v" v)))
(f)
;;= h2 {1:10 3:30}
;;= v2 #(1 2 4)
;;= {1:10 2:20}
;;= #(1 2 3)
;;= {1:10}
;;= #(1 2)
;;= h {1:10}
;;= v #(1 2)
;;;===
;; --- a value sent through a channel and updated on the receiving side at its last use
(define (f)
  (let* ((c (channels/new))
         (h (hash 1 10))
         (t (spawn-native-thread (lambda () (let ((x (channel/recv (channels-receiver c)))) (show (hash-insert x 2 20)))))))
    (channel/send (channels-sender c) h)
    (let ((r (thread-join! t)))
      (display r) (newline)
      (P "h" h))))
(f)
;;= {1:10 2:20}
;;= h {1:10}
;;;===
;; --- a value created by a thread, returned, and updated by the receiver (count 1, owner thread gone): in place is fine
(define (f)
  (let* ((t (spawn-native-thread (lambda () (hash 1 10))))
         (h (thread-join! t))
         (keep h)
         (r (hash-insert h 2 20)))
    (P "r" r) (P "keep" keep)))
(f)
;;= r {1:10 2:20}
;;= keep {1:10}
