;; expect-last: (1 2)
;; finding: K19c
;; C19 K19c (class weak_box_target_still_reachable): the private box of a weak box is never marked, so
;; every full collection clears every weak box, also when the target is still strongly reachable.
;; Expected: (1 2).   Observed: #false
(define v (list 1 2))
(define w (make-weak-box v))
(#%gc-collect)
(weak-box-value w)
