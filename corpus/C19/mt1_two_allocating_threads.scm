;; expect-last: (30000 30000 #true #true)
;; regression witness of the defect fixed in /repo b0ffd538: slots marked while enumerating the other
;; threads' stacks were not counted as reached; alloc_count over-counted the free slots and
;; FreeList::allocate panicked (`.position(..).unwrap()` on None) with two allocating threads.
(define (work keep n)
  (if (= n 0) 0 (begin (vector-set! keep (modulo n 30000) (box n)) (work keep (- n 1)))))
(define (job) (let ((keep (make-vector 30000 #f))) (work keep 300000) (vector-length keep)))
(define th (spawn-native-thread job))
(define r (job))
(define r2 (thread-join! th))
(let ((s (#%verif-heap-stats))) (list r r2 (= (list-ref s 1) (list-ref s 2)) (= (list-ref s 5) (list-ref s 6))))
