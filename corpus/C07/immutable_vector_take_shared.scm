#!c07 the shared-vector path of immutable-vector-take does not check the count
(define v (immutable-vector 1 2 3))
(immutable-vector-take v 255)
