#!c07 fixed ceea32ab: parse_real split at a character index
(string->number "é/2")
