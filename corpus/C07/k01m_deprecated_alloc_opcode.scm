(define (f3 p5) (set! p5 100) p5)
(define (mk10 p11) (lambda (p12) (- (f3 p11) p12)))
(define k (car (map mk10 (list 3))))
(k 4)
