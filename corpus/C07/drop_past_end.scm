#!c07 debug assertion ctx.is_native (vm/jit.rs call_function_tail_deopt) after an error inside a jit compiled loop: abort
(drop (list 1 2 3) 4)
