#!c07 fixed f0377ee5: multiply_two had no (Rational, BigRational) arm
(* 1/2 (/ (expt 10 30) 3))
