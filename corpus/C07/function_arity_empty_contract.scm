#!c07 found by the review of the panic-site table
(struct FunctionContract ())
(define (f x) x)
(attach-contract-struct! f (FunctionContract))
(function-arity f)
