#!c07 K07a: the unwind loop leaves through stop! and keeps a frame and operands
(define (h x) (list x (call-with-exception-handler list (lambda () (error "x")))))
(define (h2 x) (list x x (h x)))
(list 1 2 3 (h2 5))
