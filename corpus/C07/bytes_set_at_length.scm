#!c07 fixed f95cc7cd
(define b (bytes 1 2))
(bytes-set! b 2 1)
