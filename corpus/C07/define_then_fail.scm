(define c07-d1 10)
(define (c07-f1 x) (* x c07-d1))
(c07-f1 (car '()))
