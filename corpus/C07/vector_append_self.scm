#!c07 appending a mutable vector to itself never terminates
(define v (vector 1 2 3))
(vector-append! v v)
