#!c07 fixed 03bbf0cc: arity error in a call made from jit compiled code aborted the process
(define (two a b) a)
(with-handler (lambda (e) 42) (+ 1 (two 1)))
