(define (f x) (with-handler (lambda (e) (with-handler (lambda (e2) (list 'inner e2)) (vector-ref (vector) x))) (car x)))
(list (f 1) (f 2))
(car (f 3) 1 2)
