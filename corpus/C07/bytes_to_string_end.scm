#!c07 found by the review of the panic-site table
(bytes->string/utf8 (bytes 65 66) 0 10)
