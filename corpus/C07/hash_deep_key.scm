#!c07 D7: hashing a deeply nested key recurses natively
(define (mk n acc) (if (= n 0) acc (mk (- n 1) (list acc))))
(hash (mk 200000 '()) 1)
