(provide inc dbl)
(define (inc x) (+ x 1))
(define (dbl x) (* 2 x))
