(define (f4) 0 (define cnt6 -2) 0 (define z7 (+ cnt6 (if (< 1 2) -1 (error "never")))) (set! cnt6 0) 0 0)
(displayln (apply f4 '()))
