(provide f bump!)
(define (f) 1)
(define (bump!) (set! f (lambda () 2)))
