(define (f15 a16 a17) (let loop ((i18 3) (acc19 3)) (if (<= i18 0) acc19 (loop 0 (if (< 1 2) a16 (error "never"))))))
(define (w21 a22) (f15 2 a22))
(displayln (cond ((= 0 1) 2) ((let ((a #true) (b #false)) (and a b)) 0) (else (apply w21 (list 0)))))
