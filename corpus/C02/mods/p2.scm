(require "p1.scm")
(provide quad inc-twice)
(define (quad x) (dbl (dbl x)))
(define (inc-twice x) (inc (inc x)))
