(require "m1.scm")
(provide g)
(define (g) (+ 10 (f)))
