(define g1 (list))
(define (f3 . rs) 0 0)
(define (f7 a8 a9 a10) (apply f3 (list (if (< 1 2) (let ((x11 g1)) x11) 0) (let ((v12 (make-vector 4 10))) 0 (vector-ref v12 0)))))
(displayln (apply f7 (list g1 10 g1)))
