(define g1 0)
(define (f2 a3 a4 a5) (if (<= a3 0) a4 (f2 0 (+ a4 (if (< 1 2) a3 (error "never"))) a5)))
(define (w6 a7 a8) (f2 4 a7 a8))
(displayln (let ((box (apply w6 (list g1 g1)))) 0 0))
