(provide a0 a1 bump!)
(define (a0) 7)
(define (a1) (a0))
(define (bump!) (set! a0 (lambda () 118)))
