(define (f7 a8 a9) (+ a9 (if (>= a8 a8) (cond ((> a9 a9) 2) (#true a8) (else g1)) 0)))
(define (w11 a12) (f7 5 a12))
(displayln (with-handler (lambda (e) (apply w11 (list -1))) (car ' ())))
