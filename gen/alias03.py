"""Generator, pure oracle and Steel renderer of the alias-heavy programs of C03.

An abstract program is a block of statements over named holders:

  ('def', x, op, atoms, via)    x := op(atoms)          via in VIAS: how the call is written in Steel
  ('set', x, op, atoms)         (set! x (op atoms))     x was introduced by ('def', ...) and is a boxed variable from then on
  ('gset', g, atom)             (set! g atom)           g is a global declared in front of `main`
  ('clo', f, x)                 f := (lambda () x)      a closure capture holding x; the atom ('c', f) reads it back
  ('box', b, x)                 b := (box x)            a mutable cell holding x; the atom ('b', b) reads it back
  ('print', tag, atom)
  ('kont', r, k, n)             r := (call/cc ...) ; the rest of the block runs for r = 0..n (re-entered through k)
  ('spawn', t, chans, block)    a second/third thread running `block`; it sees every immutable local of the spawner
  ('send', c, atom)             main -> thread, through channel c
  ('recv', y, c)                (in a thread block) y := next value of channel c
  ('join', t)                   prints the lines the thread collected
  ('loop', y, op, x, n)         y := op applied n times to x, the i-th time with key/element i (named let, accumulator)

atoms: ('h', name) | ('c', closure) | ('b', box) | ('i', int) | ('s', text)

Values of the pure oracle S (python side; the Lean driver `c03driver` is the reference implementation of S,
this evaluator exists to generate only valid operations and is compared with the driver on every program):
  int | ('s', text) | ('l', items) | ('p', a, b) | ('v', items) | ('m', ((k, v), ...) sorted) | ('t', sorted ints)
  | ('r', a, b) | ('u',)
"""
import random


class Invalid(Exception):
    pass


# ---------------------------------------------------------------------------------------------
# pure values
# ---------------------------------------------------------------------------------------------
def kind(v):
    return "i" if isinstance(v, int) else v[0]


def size(v):
    """number of nodes of the value as a tree (shared parts counted every time they occur)"""
    k = kind(v)
    if k in ("i", "s", "u"):
        return 1
    if k in ("l", "v"):
        return 1 + sum(size(x) for x in v[1])
    if k == "m":
        return 1 + sum(1 + size(b) for _a, b in v[1])
    if k == "t":
        return 1 + len(v[1])
    return 1 + size(v[1]) + size(v[2])


MAX_SIZE = 48


def show(v):
    k = kind(v)
    if k == "i":
        return str(v)
    if k == "s":
        return '"%s"' % v[1]
    if k == "u":
        return "#v"
    if k == "l":
        return "(" + " ".join(show(x) for x in v[1]) + ")"
    if k == "p":
        return "(" + show(v[1]) + " . " + show(v[2]) + ")"
    if k == "v":
        return "#(" + " ".join(show(x) for x in v[1]) + ")"
    if k == "m":
        return "{" + " ".join("%d:%s" % (a, show(b)) for a, b in v[1]) + "}"
    if k == "t":
        return "#{" + " ".join(str(x) for x in v[1]) + "}"
    if k == "r":
        return "[" + show(v[1]) + " " + show(v[2]) + "]"
    raise Invalid("show " + repr(v))


def need(c):
    if not c:
        raise Invalid()


def L(v):
    need(kind(v) == "l")
    return v[1]


def V(v):
    need(kind(v) == "v")
    return v[1]


def M(v):
    need(kind(v) == "m")
    return dict(v[1])


def T(v):
    need(kind(v) == "t")
    return v[1]


def S(v):
    need(kind(v) == "s")
    return v[1]


def I(v):
    need(kind(v) == "i")
    return v


def mk_m(d):
    return ("m", tuple(sorted(d.items())))


def mk_t(xs):
    return ("t", tuple(sorted(set(xs))))


def all_int(xs):
    return all(isinstance(x, int) for x in xs)


def op_cons(a, b):
    if kind(b) == "l":
        return ("l", (a,) + b[1])
    return ("p", a, b)


def op_car(a):
    if kind(a) == "p":
        return a[1]
    need(len(L(a)) > 0)
    return a[1][0]


def op_cdr(a):
    if kind(a) == "p":
        return a[2]
    need(len(L(a)) > 0)
    return ("l", a[1][1:])


def op_rest(a):
    need(len(L(a)) > 0)
    return ("l", a[1][1:])


def idx(xs, i, strict=True):
    need(isinstance(i, int) and 0 <= i and (i < len(xs) if strict else i <= len(xs)))
    return i


def op_hunion(a, b):
    d = dict(M(b))
    d.update(M(a))      # values of the left map win
    return mk_m(d)


def op_hrem(a, k):
    d = M(a)
    d.pop(I(k), None)
    return mk_m(d)


def op_vset(a, i, x):
    xs = list(V(a))
    xs[idx(xs, I(i))] = x
    return ("v", tuple(xs))


def op_hins(a, k, x):
    d = M(a)
    d[I(k)] = x
    return mk_m(d)


def op_href(a, k):
    d = M(a)
    need(I(k) in d)
    return d[k]


def op_sort(a):
    need(all_int(L(a)))
    return ("l", tuple(sorted(a[1])))


def op_trset(a):
    xs = a[1] if kind(a) in ("l", "v") else None
    need(xs is not None and all_int(xs))
    return mk_t(xs)


def op_seq(a):
    need(kind(a) in ("l", "v"))
    return a[1]


# name -> (steel head / template, arity, python semantics, first argument consumed by an in-place fast path?)
# template: a string with {0} {1} ... for the arguments, or a plain primitive name.
OPS = {
    # constructors
    "list": ("list", None, lambda *a: ("l", tuple(a))),
    "vec": ("immutable-vector", None, lambda *a: ("v", tuple(a))),
    "hash": ("hash", None, lambda *a: (need(len(a) % 2 == 0 and all_int(a[0::2])), mk_m(dict(zip(a[0::2], a[1::2]))))[1]),
    "hashset": ("hashset", None, lambda *a: (need(all_int(a)), mk_t(a))[1]),
    "rec": ("rec", 2, lambda a, b: ("r", a, b)),
    "id": ("idf", 1, lambda a: a),
    # lists and pairs
    "cons": ("cons", 2, op_cons),
    "car": ("car", 1, op_car),
    "cdr": ("cdr", 1, op_cdr),
    "rest": ("rest", 1, op_rest),
    "append": ("append", 2, lambda a, b: ("l", L(a) + L(b))),
    "append3": ("append", 3, lambda a, b, c: ("l", L(a) + L(b) + L(c))),
    "reverse": ("reverse", 1, lambda a: ("l", tuple(reversed(L(a))))),
    "push-back": ("push-back", 2, lambda a, x: ("l", L(a) + (x,))),
    "list-tail": ("list-tail", 2, lambda a, n: ("l", L(a)[idx(L(a), I(n), False):])),
    "take": ("take", 2, lambda a, n: ("l", L(a)[:idx(L(a), I(n), False)])),
    "list-ref": ("list-ref", 2, lambda a, n: L(a)[idx(L(a), I(n))]),
    "last": ("last", 1, lambda a: (need(len(L(a)) > 0), a[1][-1])[1]),
    "length": ("length", 1, lambda a: len(L(a))),
    "sort": ("(sort {0} <)", 1, op_sort),
    "map-id": ("(map (lambda (e) e) {0})", 1, lambda a: ("l", L(a))),
    "list->vec": ("list->vector", 1, lambda a: ("v", L(a))),
    # immutable vectors
    "vpush": ("immutable-vector-push", 2, lambda a, x: ("v", V(a) + (x,))),
    "vpushf": ("vector-push-front", 2, lambda a, x: ("v", (x,) + V(a))),
    "vset": ("immutable-vector-set", 3, op_vset),
    "vrest": ("immutable-vector-rest", 1, lambda a: (need(len(V(a)) > 0), ("v", a[1][1:]))[1]),
    "vtake": ("immutable-vector-take", 2, lambda a, n: ("v", V(a)[:idx(V(a), I(n), False)])),
    "vdrop": ("immutable-vector-drop", 2, lambda a, n: ("v", V(a)[idx(V(a), I(n), False):])),
    "vappend": ("immutable-vector-append", 2, lambda a, b: ("v", V(a) + V(b))),
    "vref": ("vector-ref", 2, lambda a, n: V(a)[idx(V(a), I(n))]),
    "vec->list": ("immutable-vector->list", 1, lambda a: ("l", V(a))),
    # hash maps
    "hins": ("hash-insert", 3, op_hins),
    "hrem": ("hash-remove", 2, op_hrem),
    "hunion": ("hash-union", 2, op_hunion),
    "hclear": ("hash-clear", 1, lambda a: (M(a), mk_m({}))[1]),
    "href": ("hash-ref", 2, op_href),
    "hlen": ("hash-length", 1, lambda a: len(M(a))),
    "hkeys": ("(sort (hash-keys->list {0}) <)", 1, lambda a: ("l", tuple(sorted(M(a).keys())))),
    # hash sets
    "sins": ("hashset-insert", 2, lambda a, k: mk_t(T(a) + (I(k),))),
    "sclear": ("hashset-clear", 1, lambda a: (T(a), mk_t(()))[1]),
    "sunion": ("hashset-union", 2, lambda a, b: mk_t(T(a) + T(b))),
    "set->list": ("(sort (hashset->list {0}) <)", 1, lambda a: ("l", T(a))),
    # strings
    "spush": ("string-push", 2, lambda a, b: ("s", S(a) + S(b))),
    "sappend": ("string-append", 2, lambda a, b: ("s", S(a) + S(b))),
    # structs
    "rec-a": ("rec-a", 1, lambda a: (need(kind(a) == "r"), a[1])[1]),
    "rec-b": ("rec-b", 1, lambda a: (need(kind(a) == "r"), a[2])[1]),
    # transducers into collections
    "tr-list": ("(transduce {0} (mapping (lambda (e) e)) (into-list))", 1, lambda a: ("l", op_seq(a))),
    "tr-vec": ("(transduce {0} (mapping (lambda (e) e)) (into-vector))", 1, lambda a: ("v", op_seq(a))),
    "tr-set": ("(transduce {0} (mapping (lambda (e) e)) (into-hashset))", 1, op_trset),
    "tr-ext": ("(transduce {0} (extending {1}) (into-list))", 2, lambda a, b: ("l", L(a) + L(b))),
}

# primitive (Steel name) that each abstract operation exercises; used for the coverage obligation of
# translate/c03_inplace.py (every in-place fast path of /repo must be exercised by some operation here)
STEEL_PRIMS = {
    "cons": ["cons"], "cdr": ["cdr"], "rest": ["rest"], "append": ["append"], "append3": ["append"],
    "reverse": ["reverse"], "push-back": ["push-back"], "vpush": ["immutable-vector-push"],
    "vpushf": ["vector-push-front"], "vset": ["immutable-vector-set"], "vrest": ["immutable-vector-rest"],
    "vtake": ["immutable-vector-take"], "vdrop": ["immutable-vector-drop"], "hins": ["hash-insert"],
    "hrem": ["hash-remove"], "hunion": ["hash-union"], "hclear": ["hash-clear"], "sins": ["hashset-insert"],
    "sclear": ["hashset-clear"], "spush": ["string-push"], "list": ["list"], "take": ["take"],
    "list-tail": ["list-tail"], "sort": ["sort"],
}

# operations whose FIRST argument is rebuilt (candidates for the in-place path); second argument for some
UPDATES = ["cons", "cdr", "rest", "append", "append3", "reverse", "push-back", "list-tail", "take", "sort", "map-id",
           "vpush", "vpushf", "vset", "vrest", "vtake", "vdrop", "vappend", "hins", "hrem", "hunion", "hclear",
           "sins", "sclear", "sunion", "spush", "sappend", "tr-list", "tr-vec", "tr-ext", "list->vec", "vec->list"]
# loopable: op(acc, i ...) keeps the kind of acc
LOOPS = {"hins": lambda acc, i: op_hins(acc, i, i), "sins": lambda acc, i: OPS["sins"][2](acc, i),
         "vpush": lambda acc, i: OPS["vpush"][2](acc, i), "cons": lambda acc, i: op_cons(i, acc),
         "push-back": lambda acc, i: OPS["push-back"][2](acc, i), "spush": lambda acc, i: ("s", S(acc) + "z"),
         "hrem": lambda acc, i: op_hrem(acc, i), "vpushf": lambda acc, i: OPS["vpushf"][2](acc, i)}
LOOP_STEEL = {"hins": "(hash-insert acc i i)", "sins": "(hashset-insert acc i)", "vpush": "(immutable-vector-push acc i)",
              "cons": "(cons i acc)", "push-back": "(push-back acc i)", "spush": "(string-push acc \"z\")",
              "hrem": "(hash-remove acc i)", "vpushf": "(vector-push-front acc i)"}
LOOP_KIND = {"hins": "m", "sins": "t", "vpush": "v", "cons": "l", "push-back": "l", "spush": "s", "hrem": "m", "vpushf": "v"}

VIAS = ["direct", "direct", "direct", "helper", "let", "lambda", "apply", "thunk"]


# ---------------------------------------------------------------------------------------------
# oracle (python side)
# ---------------------------------------------------------------------------------------------
class Eval:
    def __init__(self):
        self.env = {}
        self.clo = {}
        self.out = []
        self.chan = {}
        self.threads = {}

    def atom(self, a, env):
        t, x = a
        if t == "h":
            if x not in env:
                raise Invalid("unbound " + x)
            return env[x]
        if t == "c" or t == "b":
            return self.clo[x]
        if t == "i":
            return x
        return ("s", x)

    def apply(self, op, atoms, env):
        vals = [self.atom(a, env) for a in atoms]
        ar = OPS[op][1]
        if ar is not None and ar != len(vals):
            raise Invalid("arity")
        return OPS[op][2](*vals)

    def block(self, stmts, env, out):
        i = 0
        while i < len(stmts):
            st = stmts[i]
            k = st[0]
            if k == "def" or k == "set":
                env[st[1]] = self.apply(st[2], st[3], env)
                need(size(env[st[1]]) <= 4 * MAX_SIZE)
            elif k == "gset":
                env[st[1]] = self.atom(st[2], env)
            elif k == "clo" or k == "box":
                self.clo[st[1]] = env[st[2]]
            elif k == "print":
                out.append(st[1] + " " + show(self.atom(st[2], env)))
            elif k == "loop":
                acc = env[st[3]]
                need(kind(acc) == LOOP_KIND[st[2]])
                for j in range(st[4]):
                    acc = LOOPS[st[2]](acc, j)
                env[st[1]] = acc
            elif k == "kont":
                rest = stmts[i + 1:]
                for r in range(st[3] + 1):
                    env[st[1]] = r
                    self.block(rest, env, out)
                return
            elif k == "spawn":
                self.threads[st[1]] = (dict(env), st[3])
                for c in st[2]:
                    self.chan[c] = []
            elif k == "send":
                self.chan[st[1]].append(self.atom(st[2], env))
            elif k == "recv":
                need(len(self.chan[st[2]]) > 0)
                env[st[1]] = self.chan[st[2]].pop(0)
            elif k == "join":
                tenv, blk = self.threads.pop(st[1])
                tout = []
                self.block(blk, tenv, tout)
                out.extend(tout)
            else:
                raise Invalid("stmt " + k)
            i += 1

    def run(self, prog):
        self.block(prog["main"], self.env, self.out)
        return self.out


# ---------------------------------------------------------------------------------------------
# generator
# ---------------------------------------------------------------------------------------------
SEED_VALUES = [
    ("list", [("i", 1), ("i", 2), ("i", 3)]), ("list", []), ("list", [("i", 5)]),
    ("list", [("i", 4), ("i", 1), ("i", 3), ("i", 2), ("i", 0)]),
    ("list", [("i", 1), ("i", 2), ("i", 3), ("i", 4), ("i", 5), ("i", 6), ("i", 7), ("i", 8), ("i", 9)]),
    ("vec", [("i", 1), ("i", 2), ("i", 3)]), ("vec", []), ("vec", [("i", 7), ("i", 8)]),
    ("hash", [("i", 1), ("i", 10), ("i", 2), ("i", 20)]), ("hash", []), ("hash", [("i", 0), ("s", "a")]),
    ("hashset", [("i", 1), ("i", 2), ("i", 3)]), ("hashset", []),
    ("cons", [("i", 1), ("i", 2)]), ("rec", [("i", 1), ("i", 2)]),
    ("id", [("s", "ab")]), ("id", [("s", "")]),
]


class Gen:
    def __init__(self, rng, nops, layout, nthreads=0, kont=False, in_thread=False, prefix=""):
        self.r = rng
        self.nops = nops
        self.layout = layout
        self.kont = kont and layout == "lets"   # internal defines + call/cc: see note in render_block
        self.nthreads = nthreads
        self.in_thread = in_thread
        self.prefix = prefix
        self.ev = Eval()
        self.env = self.ev.env          # generation-time values (first pass)
        self.names = {}                 # name -> 'var' | 'glob' | 'clo' | 'mut'
        self.retired = set()
        self.pinned = set()
        self.captured = set()           # names a closure or a thread closes over: never assigned afterwards
        self.stmts = []
        self.globals = []
        self.chans = []
        self.n = 0
        self.tag = 0
        self.kont_seen = False
        self.after_kont = set()
        self.live_threads = {}          # t -> pending sends [(c, name)]
        self.ops_used = {}
        self.vias_used = {}
        self.allow_k03a = False

    def fresh(self, p):
        self.n += 1
        return "%s%s%d" % (self.prefix, p, self.n)

    # --- values -------------------------------------------------------------------------------
    def val_of(self, name):
        if self.names[name] in ("clo", "box"):
            return self.ev.clo[name]
        return self.env[name]

    def atom_of(self, name):
        cls = self.names[name]
        return ("c", name) if cls == "clo" else (("b", name) if cls == "box" else ("h", name))

    def live(self, kinds=None, compound=False):
        out = []
        for nm, cls in self.names.items():
            if nm in self.retired:
                continue
            v = self.val_of(nm)
            if kinds is not None and kind(v) not in kinds:
                continue
            if compound and kind(v) in ("i",):
                continue
            out.append(nm)
        return out

    def small(self):
        return ("i", self.r.randint(0, 5))

    def any_atom(self, depth_ok=True):
        """an element / value argument: literal or (often) another live compound value => nesting"""
        r = self.r.random()
        lv = self.live()
        if lv and r < 0.45:
            return self.atom_of(self.r.choice(lv))
        if r < 0.55:
            return ("s", self.r.choice(["a", "b", "xy"]))
        return self.small()

    def emit(self, st):
        self.stmts.append(st)

    def do_print(self, name):
        self.tag += 1
        self.emit(("print", "%sp%d:%s" % (self.prefix, self.tag, name), self.atom_of(name)))

    def checkpoint(self, k=None):
        lv = self.live()
        if k is not None and len(lv) > k:
            lv = self.r.sample(lv, k)
        for nm in lv:
            self.do_print(nm)

    # --- statements ---------------------------------------------------------------------------
    def new_value(self):
        op, atoms = self.r.choice(SEED_VALUES)
        atoms = list(atoms)
        if op in ("list", "vec") and self.live() and self.r.random() < 0.4:
            atoms.append(self.atom_of(self.r.choice(self.live())))
        if op == "hash" and self.live() and self.r.random() < 0.4:
            atoms += [self.small(), self.atom_of(self.r.choice(self.live()))]
        self.define(op, atoms, "direct")

    def define(self, op, atoms, via):
        x = self.fresh("x")
        try:
            v = self.ev.apply(op, atoms, self.env)
        except Invalid:
            return None
        if size(v) > MAX_SIZE:
            return None
        self.env[x] = v
        self.names[x] = "var"
        if self.kont_seen:
            self.after_kont.add(x)
        self.emit(("def", x, op, atoms, via))
        self.ops_used[op] = self.ops_used.get(op, 0) + 1
        self.vias_used[via] = self.vias_used.get(via, 0) + 1
        return x

    def args_for(self, op, first):
        """arguments of an update operation whose first argument is the live holder `first`"""
        v = self.val_of(first)
        a0 = self.atom_of(first)
        k = kind(v)
        n = len(v[1]) if k in ("l", "v", "m", "t") else 0
        r = self.r

        def other(kinds):
            c = self.live(kinds)
            return self.atom_of(r.choice(c)) if c else None
        if op in ("cdr", "rest", "reverse", "sort", "map-id", "vrest", "hclear", "sclear", "tr-list", "tr-vec",
                  "list->vec", "vec->list", "car", "last", "length", "hlen", "hkeys", "set->list", "rec-a", "rec-b", "tr-set"):
            return [a0]
        if op == "cons":
            return [self.any_atom(), a0]
        if op in ("push-back", "vpush", "vpushf"):
            return [a0, self.any_atom()]
        if op in ("append", "vappend", "hunion", "sunion", "tr-ext"):
            o = other({"append": "l", "vappend": "v", "hunion": "m", "sunion": "t", "tr-ext": "l"}[op])
            if o is None:
                return None
            res = [a0, o] if r.random() < 0.6 else [o, a0]
            return self.k03a_filter(op, res)
        if op == "append3":
            o1, o2 = other("l"), other("l")
            return self.k03a_filter(op, [o1, a0, o2])
        if op in ("list-tail", "take", "vtake", "vdrop"):
            return [a0, ("i", r.randint(0, n))]
        if op in ("list-ref", "vref"):
            return [a0, ("i", r.randint(0, max(0, n - 1)))] if n else None
        if op == "vset":
            return [a0, ("i", r.randint(0, max(0, n - 1))), self.any_atom()] if n else None
        if op == "hins":
            return [a0, self.small(), self.any_atom()]
        if op in ("hrem", "sins"):
            return [a0, self.small()]
        if op == "href":
            return [a0, ("i", r.choice([kk for kk, _ in v[1]]))] if n else None
        if op in ("spush", "sappend"):
            o = other("s")
            return [a0, o if (o and r.random() < 0.5) else ("s", r.choice(["q", "rs", ""]))]
        return None

    def k03a_filter(self, op, atoms):
        """class of finding K03a: (append '() xs ...) with an empty first operand loses the other operands when xs was
        itself produced by an append.  Generated only when allow_k03a is set (the check runs that class separately)."""
        if op in ("append", "append3", "tr-ext") and not self.allow_k03a and all(a is not None for a in atoms):
            v = self.ev.atom(atoms[0], self.env)
            if kind(v) == "l" and len(v[1]) == 0:
                return None
        return atoms

    OPS_BY_KIND = {
        "l": ["cons", "cdr", "rest", "append", "append3", "reverse", "push-back", "list-tail", "take", "sort", "map-id",
              "tr-list", "tr-vec", "tr-ext", "list->vec", "car", "list-ref", "last", "tr-set", "cons", "append", "cdr"],
        "p": ["car", "cdr", "cons"],
        "v": ["vpush", "vpushf", "vset", "vrest", "vtake", "vdrop", "vappend", "vref", "vec->list", "tr-list", "tr-vec", "vpush", "vset"],
        "m": ["hins", "hrem", "hunion", "hclear", "href", "hkeys", "hins", "hins", "hrem"],
        "t": ["sins", "sclear", "sunion", "set->list", "sins"],
        "s": ["spush", "sappend", "spush"],
        "r": ["rec-a", "rec-b"],
    }

    def step_op(self):
        lv = self.live(compound=True)
        if not lv:
            return self.new_value()
        first = self.r.choice(lv)
        k = kind(self.val_of(first))
        op = self.r.choice(self.OPS_BY_KIND[k])
        atoms = self.args_for(op, first)
        if atoms is None or any(a is None for a in atoms):
            return None
        via = self.r.choice(VIAS)
        if OPS[op][0].startswith("(") and via in ("apply",):
            via = "direct"
        x = self.define(op, atoms, via)
        if x is None:
            return None
        # toggle: does the holder that was just operated on have a later use?
        if self.names[first] == "var" and first not in self.pinned and self.r.random() < 0.5:
            self.retired.add(first)
        return x

    def step_chain(self):
        """(op2 (op1 x ...) ...): the inner result is a temporary on the stack that nothing else refers to, the case in
        which the real primitives do update in place.  The inner definition is marked `inline`: it is rendered at its
        use instead of being bound to a variable (for S and for the driver it is an ordinary definition)."""
        n0 = len(self.stmts)
        x = self.step_op()
        if x is None or len(self.stmts) != n0 + 1 or self.stmts[n0][0] != "def" or self.stmts[n0][1] != x:
            return
        k = kind(self.val_of(x))
        cands = [o for o in self.OPS_BY_KIND.get(k, []) if o in UPDATES]
        if not cands:
            return
        op = self.r.choice(cands)
        atoms = self.args_for(op, x)
        if atoms is None or any(a is None for a in atoms):
            return
        y = self.define(op, atoms, self.r.choice(["direct", "direct", "helper", "let", "lambda"]))
        if y is None:
            return
        st = self.stmts[n0]
        self.stmts[n0] = (st[0], st[1], st[2], st[3], "inline")
        self.retired.add(x)
        self.ops_used["nested-call"] = self.ops_used.get("nested-call", 0) + 1

    def step_keeper(self):
        lv = [n for n in self.live(compound=True) if self.names[n] in ("var", "mut")]
        if not lv:
            return
        x = self.r.choice(lv)
        c = self.r.random()
        if c < 0.3 and not self.in_thread:
            g = self.fresh("g")
            self.globals.append(g)
            self.names[g] = "glob"
            self.env[g] = self.env[x]
            self.emit(("gset", g, ("h", x)))
        elif c < 0.6 and self.names[x] == "var":
            self.captured.add(x)
            f = self.fresh("f")
            self.names[f] = "clo"
            self.ev.clo[f] = self.env[x]
            self.emit(("clo", f, x))
        elif c < 0.7 and self.names[x] == "var":
            self.captured.add(x)
            b = self.fresh("b")
            self.names[b] = "box"
            self.ev.clo[b] = self.env[x]
            self.emit(("box", b, x))
        elif c < 0.8:
            self.define("list", [("h", x), self.any_atom()], "direct")
        elif c < 0.9:
            self.define("hash", [self.small(), ("h", x)], "direct")
        else:
            self.define("id", [("h", x)], self.r.choice(["direct", "helper", "let"]))

    def step_set(self):
        """(set! x (op x ...)): accumulate in a boxed variable (never one that a closure or a thread captured)"""
        lv = [n for n in self.live(compound=True) if self.names[n] in ("var", "mut") and n not in self.captured
              and n not in self.pinned and (not self.in_thread or n.startswith(self.prefix))]
        if not lv:
            return
        x = self.r.choice(lv)
        k = kind(self.val_of(x))
        cands = [o for o in self.OPS_BY_KIND.get(k, []) if o in UPDATES]
        if not cands:
            return
        op = self.r.choice(cands)
        atoms = self.args_for(op, x)
        if atoms is None or any(a is None for a in atoms):
            return
        try:
            v = self.ev.apply(op, atoms, self.env)
        except Invalid:
            return
        if size(v) > MAX_SIZE:
            return
        self.env[x] = v
        self.names[x] = "mut"
        self.emit(("set", x, op, atoms))
        self.ops_used[op] = self.ops_used.get(op, 0) + 1
        self.ops_used["set!"] = self.ops_used.get("set!", 0) + 1

    def step_loop(self):
        lv = [n for n in self.live(("m", "t", "v", "l", "s")) if self.names[n] not in ("clo", "box")]
        if not lv:
            return
        x = self.r.choice(lv)
        k = kind(self.val_of(x))
        op = self.r.choice([o for o, kk in LOOP_KIND.items() if kk == k])
        n = self.r.randint(1, 6)
        y = self.fresh("x")
        acc = self.val_of(x)
        for j in range(n):
            acc = LOOPS[op](acc, j)
        if size(acc) > MAX_SIZE:
            return
        self.env[y] = acc
        self.names[y] = "var"
        if self.kont_seen:
            self.after_kont.add(y)
        self.emit(("loop", y, op, x, n))
        self.ops_used["loop-" + op] = self.ops_used.get("loop-" + op, 0) + 1
        if self.names[x] == "var" and x not in self.pinned and self.r.random() < 0.5:
            self.retired.add(x)

    def step_kont(self):
        r_ = self.fresh("x")
        k = self.fresh("k")
        n = self.r.randint(1, 2)
        self.globals.append(k)
        self.env[r_] = 0
        self.names[r_] = "var"
        self.kont_seen = True
        self.after_kont.add(r_)
        # everything alive is printed on every pass: a value that existed before the capture must not have changed
        self.emit(("kont", r_, k, n))
        # nothing defined before the capture may be retired by a MOVE that the re-entry would observe:
        # that is exactly what is tested, so keep them all alive and print them in every pass.
        self.checkpoint()

    def step_spawn(self):
        t = self.fresh("t")
        nrecv = self.r.randint(0, 2)
        chans, sends = [], []
        sub = Gen(self.r, self.r.randint(2, max(3, self.nops // 3)), self.layout, in_thread=True, prefix=t + "_")
        # the thread sees the immutable locals of the spawner
        for nm in self.live():
            if self.names[nm] == "var":
                self.captured.add(nm)
                sub.names[nm] = "var"
                sub.env[nm] = self.env[nm]
                sub.pinned.add(nm)
        outer = set(sub.names)
        for _ in range(nrecv):
            cands = [n for n in self.live(compound=True) if self.names[n] == "var"]
            if not cands:
                break
            c = self.fresh("c")
            src = self.r.choice(cands)
            chans.append(c)
            sends.append((c, src))
            self.pinned.add(src)
            y = sub.fresh("y")
            sub.names[y] = "var"
            sub.env[y] = self.env[src]
            sub.emit(("recv", y, c))
        sub.body()
        sub.checkpoint()
        self.emit(("spawn", t, chans, sub.stmts))
        self.live_threads[t] = sends
        for o, c in sub.ops_used.items():
            self.ops_used[o] = self.ops_used.get(o, 0) + c
        self.ops_used["thread"] = self.ops_used.get("thread", 0) + 1

    def flush_thread(self, t, join=True):
        for (c, src) in self.live_threads[t]:
            self.emit(("send", c, ("h", src)))
            self.pinned.discard(src)
        self.live_threads[t] = []
        if join:
            self.emit(("join", t))
            del self.live_threads[t]

    def body(self):
        r = self.r
        if not self.in_thread or not self.live(compound=True):
            self.new_value()
        spawned = 0
        kont_at = r.randint(2, max(2, self.nops - 3)) if (self.kont and not self.in_thread) else -1
        i = 0
        while i < self.nops:
            i += 1
            if i == kont_at and not self.live_threads:
                self.step_kont()
                continue
            c = r.random()
            if c < 0.18:
                self.step_chain()
            elif c < 0.50:
                self.step_op()
            elif c < 0.62:
                self.step_keeper()
            elif c < 0.70:
                self.new_value()
            elif c < 0.78:
                self.step_loop()
            elif c < 0.84 and self.layout != "top":
                self.step_set()
            elif c < 0.92 and not self.in_thread and spawned < self.nthreads and not self.kont_seen and i != kont_at:
                self.step_spawn()
                spawned += 1
            elif self.live_threads and r.random() < 0.6:
                t = r.choice(sorted(self.live_threads))
                if self.live_threads[t] and r.random() < 0.5:
                    c_, src = self.live_threads[t].pop(0)
                    self.emit(("send", c_, ("h", src)))
                    self.pinned.discard(src)
                else:
                    self.flush_thread(t)
            else:
                self.step_op()
            if r.random() < 0.35:
                self.checkpoint(4)
        for t in sorted(self.live_threads):
            self.flush_thread(t)

    def program(self):
        self.body()
        self.checkpoint()
        return {"main": self.stmts, "globals": self.globals, "layout": self.layout,
                "ops": self.ops_used, "vias": self.vias_used}


def gen_program(rng, nops, nthreads=0, kont=None, layout=None):
    """a valid program (its python evaluation succeeds) and its expected output lines"""
    for _ in range(50):
        lay = layout or rng.choice(["defines", "defines", "lets", "lets", "top"])
        k = (rng.random() < 0.5) if kont is None else kont
        g = Gen(rng, nops, lay, nthreads=nthreads if lay != "top" or True else 0, kont=k)
        try:
            p = g.program()
            out = Eval().run(p)
        except Invalid:
            continue
        p["expect"] = out
        return p
    raise RuntimeError("generator produced no valid program")


# ---------------------------------------------------------------------------------------------
# Steel rendering
# ---------------------------------------------------------------------------------------------
PRELUDE = r"""
(struct rec (a b))
(define (join-strs xs)
  (if (null? xs) "" (foldl (lambda (s acc) (string-append acc " " s)) (car xs) (cdr xs))))
(define (show x)
  (cond
    [(int? x) (number->string x)]
    [(string? x) (string-append "\"" x "\"")]
    [(void? x) "#v"]
    [(immutable-vector? x) (string-append "#(" (join-strs (map show (immutable-vector->list x))) ")")]
    [(mutable-vector? x) (string-append "#m(" (join-strs (map show (vector->list x))) ")")]
    [(null? x) "()"]
    [(list? x) (string-append "(" (join-strs (map show x)) ")")]
    [(pair? x) (string-append "(" (show (car x)) " . " (show (cdr x)) ")")]
    [(hash? x)
     (string-append "{" (join-strs (map (lambda (k) (string-append (show k) ":" (show (hash-ref x k))))
                                        (sort (hash-keys->list x) <))) "}")]
    [(set? x) (string-append "#{" (join-strs (map show (sort (hashset->list x) <))) "}")]
    [(rec? x) (string-append "[" (show (rec-a x)) " " (show (rec-b x)) "]")]
    [else "?"]))
(define (P tag x) (display tag) (display " ") (display (show x)) (newline))
(define (PT out tag x) (set-box! out (cons (string-append tag " " (show x)) (unbox out))))
(define (idf x) x)
(define (mk-thunk v) (lambda () v))
"""


def helper_name(op):
    return "w-" + op.replace(">", "to")


def helpers(used=None):
    out = []
    for op, (tmpl, ar, _f) in sorted(OPS.items()):
        if ar is None or (used is not None and op not in used):
            continue
        ps = ["a%d" % i for i in range(ar)]
        out.append("(define (%s %s) %s)" % (helper_name(op), " ".join(ps), call_text(op, ps)))
    return "\n".join(out)


def call_text(op, args):
    tmpl = OPS[op][0]
    if tmpl.startswith("("):
        return tmpl.format(*args)
    return "(%s%s)" % (tmpl, "".join(" " + a for a in args))


_INLINE = {}


def atom_text(a):
    t, x = a
    if t == "h":
        return _INLINE.get(x, x)
    if t == "c":
        return "(%s)" % x
    if t == "b":
        return "(unbox %s)" % x
    if t == "i":
        return str(x)
    return '"%s"' % x


def expr_text(op, atoms, via):
    args = [atom_text(a) for a in atoms]
    ar = OPS[op][1]
    if via == "helper" and ar is not None:
        return "(%s%s)" % (helper_name(op), "".join(" " + a for a in args))
    if via == "let" and atoms and atoms[0][0] in ("h", "c", "b"):
        return "(let ((tmp %s)) %s)" % (args[0], call_text(op, ["tmp"] + args[1:]))
    if via == "lambda" and atoms and atoms[0][0] in ("h", "c", "b"):
        return "((lambda (tmp) %s) %s)" % (call_text(op, ["tmp"] + args[1:]), args[0])
    if via == "apply" and not OPS[op][0].startswith("("):
        return "(apply %s (list%s))" % (OPS[op][0], "".join(" " + a for a in args))
    if via == "thunk":
        return "((lambda () %s))" % call_text(op, args)
    return call_text(op, args)


def render_block(stmts, mode, printer, indent, tail=""):
    """mode: 'defines' | 'lets' | 'top'.  Returns text.  `tail` = expression appended at the end of the block."""
    pad = "  " * indent
    if not stmts:
        return pad + (tail or "#t") + "\n"
    st, rest = stmts[0], stmts[1:]
    k = st[0]

    def cont(extra_tail=None):
        return render_block(rest, mode, printer, indent, tail if extra_tail is None else extra_tail)
    if k == "def" and st[4] == "inline":
        _INLINE[st[1]] = expr_text(st[2], st[3], "direct")
        return cont()
    if k in ("def", "loop", "recv", "clo", "box", "kont"):
        if k == "def":
            name, e = st[1], expr_text(st[2], st[3], st[4])
        elif k == "loop":
            name = st[1]
            e = "(let loop ((i 0) (acc %s)) (if (< i %d) (loop (+ i 1) %s) acc))" % (atom_text(("h", st[3])), st[4], LOOP_STEEL[st[2]])
        elif k == "recv":
            name, e = st[1], "(channel/recv (channels-receiver %s))" % st[2]
        elif k == "box":
            name, e = st[1], "(box %s)" % st[2]
        elif k == "clo":
            # in a body of internal defines a lambda-valued define that refers to another define makes steel evaluate
            # every right-hand side first (a C01 defect reported separately): capture through a helper's parameter there
            name, e = st[1], ("(lambda () %s)" % st[2]) if mode == "lets" else ("(mk-thunk %s)" % st[2])
        else:
            name, e = st[1], "(call/cc (lambda (k) (set! %s k) 0))" % st[2]
        again = ""
        if k == "kont":
            again = "(when (< %s %d) (%s (+ %s 1)))" % (st[1], st[3], st[2], st[1])
        if mode == "lets":
            if again:
                inner = render_block(rest, mode, printer, indent + 1, again)
                if tail:
                    return pad + "(let ((%s %s))\n%s%s)\n%s%s\n" % (name, e, inner, pad, pad, tail)
                return pad + "(let ((%s %s))\n%s%s)\n" % (name, e, inner, pad)
            inner = render_block(rest, mode, printer, indent + 1, tail)
            return pad + "(let ((%s %s))\n%s%s)\n" % (name, e, inner, pad)
        if again:
            body = render_block(rest, mode, printer, indent, again)
            return pad + "(define %s %s)\n%s%s" % (name, e, body, (pad + tail + "\n") if tail else "")
        return pad + "(define %s %s)\n" % (name, e) + cont()
    if k == "set":
        return pad + "(set! %s %s)\n" % (st[1], expr_text(st[2], st[3], "direct")) + cont()
    if k == "gset":
        return pad + "(set! %s %s)\n" % (st[1], atom_text(st[2])) + cont()
    if k == "print":
        return pad + printer(st[1], atom_text(st[2])) + "\n" + cont()
    if k == "send":
        return pad + "(channel/send (channels-sender %s) %s)\n" % (st[1], atom_text(st[2])) + cont()
    if k == "join":
        return pad + "(for-each (lambda (l) (display l) (newline)) (thread-join! %s))\n" % st[1] + cont()
    if k == "spawn":
        tp = lambda tag, a: '(PT out "%s" %s)' % (tag, a)   # noqa: E731
        body = render_block(st[3], "defines" if mode == "top" else mode, tp, indent + 3, "(reverse (unbox out))")
        chans = "".join(pad + "(define %s (channels/new))\n" % c for c in st[2]) if mode != "lets" else ""
        th = "(spawn-native-thread (lambda ()\n%s    (let ((out (box '())))\n%s%s    )))" % (pad, body, pad)
        if mode == "lets":
            binds = "".join("(%s (channels/new)) " % c for c in st[2])
            inner = render_block(rest, mode, printer, indent + 1, tail)
            return pad + "(let* (%s(%s %s))\n%s%s)\n" % (binds, st[1], th, inner, pad)
        return chans + pad + "(define %s %s)\n" % (st[1], th) + cont()
    raise ValueError(k)


def helper_ops(block, acc):
    for st in block:
        if st[0] == "def" and st[4] == "helper":
            acc.add(st[2])
        if st[0] == "spawn":
            helper_ops(st[3], acc)
    return acc


def render(prog):
    _INLINE.clear()
    mode = prog["layout"]
    mp = lambda tag, a: '(P "%s" %s)' % (tag, a)   # noqa: E731
    out = [PRELUDE, helpers(helper_ops(prog["main"], set()))]
    for g in prog["globals"]:
        out.append("(define %s #f)" % g)
    if mode == "top":
        out.append(render_block(prog["main"], "top", mp, 0))
    else:
        out.append("(define (main)\n" + render_block(prog["main"], mode, mp, 1, "#t") + ")\n(main)")
    return "\n".join(out) + "\n"


# ---------------------------------------------------------------------------------------------
# serialisation for the Lean driver (c03driver): one statement per line
# ---------------------------------------------------------------------------------------------
def atom_ser(a):
    t, x = a
    if t == "h":
        return x
    if t == "c":
        return "%" + x
    if t == "b":
        return "&" + x
    if t == "i":
        return str(x)
    return '"%s"' % x


def ser_block(stmts, out):
    for st in stmts:
        k = st[0]
        if k == "def":
            out.append("def %s %s%s" % (st[1], st[2], "".join(" " + atom_ser(a) for a in st[3])))
        elif k == "set":
            out.append("set %s %s%s" % (st[1], st[2], "".join(" " + atom_ser(a) for a in st[3])))
        elif k == "gset":
            out.append("gset %s %s" % (st[1], atom_ser(st[2])))
        elif k == "clo":
            out.append("clo %s %s" % (st[1], st[2]))
        elif k == "box":
            out.append("box %s %s" % (st[1], st[2]))
        elif k == "print":
            out.append("print %s %s" % (st[1], atom_ser(st[2])))
        elif k == "kont":
            out.append("kont %s %d" % (st[1], st[3]))
        elif k == "loop":
            out.append("loop %s %s %s %d" % (st[1], st[2], st[3], st[4]))
        elif k == "send":
            out.append("send %s %s" % (st[1], atom_ser(st[2])))
        elif k == "recv":
            out.append("recv %s %s" % (st[1], st[2]))
        elif k == "join":
            out.append("join %s" % st[1])
        elif k == "spawn":
            out.append("spawn %s%s" % (st[1], "".join(" " + c for c in st[2])))
            ser_block(st[3], out)
            out.append("endspawn")
        else:
            raise ValueError(k)


def serialise(prog):
    out = ["prog"]
    ser_block(prog["main"], out)
    out.append("endprog")
    return "\n".join(out)


def parse(text):
    """inverse of serialise (used by replay and the corpus): returns {'main': block}"""
    def atom(tok):
        if tok.startswith("%"):
            return ("c", tok[1:])
        if tok.startswith("&"):
            return ("b", tok[1:])
        if tok.startswith('"'):
            return ("s", tok[1:-1])
        if tok.lstrip("-").isdigit():
            return ("i", int(tok))
        return ("h", tok)
    stack = [[]]
    heads = []
    for line in text.splitlines():
        t = line.split()
        if not t or t[0] in ("prog",) or line.startswith("#"):
            continue
        k = t[0]
        cur = stack[-1]
        if k == "endprog":
            break
        if k == "def":
            cur.append(("def", t[1], t[2], [atom(x) for x in t[3:]], "direct"))
        elif k == "set":
            cur.append(("set", t[1], t[2], [atom(x) for x in t[3:]]))
        elif k == "gset":
            cur.append(("gset", t[1], atom(t[2])))
        elif k == "clo":
            cur.append(("clo", t[1], t[2]))
        elif k == "box":
            cur.append(("box", t[1], t[2]))
        elif k == "print":
            cur.append(("print", t[1], atom(t[2])))
        elif k == "kont":
            cur.append(("kont", t[1], "k_" + t[1], int(t[2])))
        elif k == "loop":
            cur.append(("loop", t[1], t[2], t[3], int(t[4])))
        elif k == "send":
            cur.append(("send", t[1], atom(t[2])))
        elif k == "recv":
            cur.append(("recv", t[1], t[2]))
        elif k == "join":
            cur.append(("join", t[1]))
        elif k == "spawn":
            heads.append((t[1], t[2:]))
            stack.append([])
        elif k == "endspawn":
            blk = stack.pop()
            name, chans = heads.pop()
            stack[-1].append(("spawn", name, chans, blk))
    return {"main": stack[0]}


def globals_of(block, acc=None):
    acc = [] if acc is None else acc
    for st in block:
        if st[0] == "gset" and st[1] not in acc:
            acc.append(st[1])
        if st[0] == "kont" and st[2] not in acc:
            acc.append(st[2])
        if st[0] == "spawn":
            globals_of(st[3], acc)
    return acc


if __name__ == "__main__":
    import sys
    rng = random.Random(int(sys.argv[1]) if len(sys.argv) > 1 else 1)
    p = gen_program(rng, int(sys.argv[2]) if len(sys.argv) > 2 else 12, nthreads=int(sys.argv[3]) if len(sys.argv) > 3 else 1)
    print(render(p))
    print(";; --- abstract")
    print("\n".join(";; " + l for l in serialise(p).splitlines()))
    print(";; --- expect")
    print("\n".join(";; " + l for l in p["expect"]))
