"""Generators of piecewise evaluation histories for C02 (all randomness from the `random.Random` passed in).

gen_history(rng, npieces, stream)  -> dict(pieces=[steel source], spec=[source for the reference semantics],
                                           k02a=[bool per piece], features=set)
    Whole-language histories: integer globals, global procedures (plain, self-recursive with a decreasing
    counter, higher-order, closures with private state, setters), redefinitions, `set!` of variables and of
    procedures that earlier-compiled procedures call, run-time errors (handled and unhandled), compile-time
    errors, arity errors.  Termination: a procedure named f<i> only calls f<j> with j < i (whatever their
    versions), self-recursion only through a first parameter that call sites fill with a small literal.

    Steel gives every top-level `define` a fresh global cell: procedures compiled earlier keep calling the
    cell they were compiled against, `set!` overwrites a cell for everybody.  The reference semantics
    (Base/Eval.lean) resolves globals by name at run time, so its source text carries the cell explicitly:
    the k-th definition of `f3` is written `f3_k`, and a reference is resolved when its piece is compiled.

    stream 'main' stays outside the class of finding K02a; stream 'k02a' goes into it on purpose.
    k02a[i] == True: at piece i the history is inside the class (a global that was defined and used in one
    unit, not assigned there, has been assigned by a later unit).

gen_model_history(rng)  -> (driver_text for `c02driver hist`, [steel source per piece], n_evals)
    Histories of the lowered-core fragment (SteelVerif/C02/Model.lean part (c)): first-order integer
    procedures, `define` = new cell, `set!` of a procedure, observed calls.
"""

NFN = 6
NVAR = 4


class H:
    def __init__(self, rng, stream):
        self.rng = rng
        self.stream = stream
        self.ver = {}        # name -> current version (int)
        self.kind = {}       # name -> 'var' | 'fn' | 'hof' | 'counter' | 'setter'
        self.arity = {}      # fn name -> number of parameters after the counter parameter `n`
        self.features = set()
        # K02a bookkeeping: cell (name, version) -> dict(piece=defining piece, used=bool, assigned_in_unit=bool)
        self.cell = {}
        self.tainted = False
        self.piece_no = 0
        self.piece_defs = set()
        self.piece_uses = set()
        self.piece_sets = set()

    # ---- expressions are trees: ('g', name) is a reference to a global ------------------------------
    def ref(self, name):
        self.piece_uses.add(name)
        return ("g", name)

    def lit(self):
        return str(self.rng.choice([0, 1, 2, 3, 5, 7, 10, -1, -4]))

    def names(self, kind, below=None):
        out = [n for n, k in self.kind.items() if k == kind]
        if below is not None:
            out = [n for n in out if int(n[1:]) < below]
        return sorted(out)

    def int_expr(self, d, locs, below):
        """An integer expression; `below`: only procedures f<j> with j < below may be called."""
        r = self.rng
        opts = ["lit", "lit"]
        if locs:
            opts += ["loc"] * 3
        if self.names("var"):
            opts += ["var"] * 2
        if d > 0:
            opts += ["arith"] * 3 + ["if", "let"]
            if self.names("fn", below):
                opts += ["call"] * 4
            if self.names("hof"):
                opts += ["hof"]
            opts += ["lam", "map", "handler"]
            if self.names("counter"):
                opts += ["counter"]
        k = r.choice(opts)
        if k == "lit":
            return self.lit()
        if k == "loc":
            return r.choice(locs)
        if k == "var":
            return self.ref(r.choice(self.names("var")))
        if k == "arith":
            op = r.choice(["+", "-", "*", "+", "max", "min"])
            return ("(", op, self.int_expr(d - 1, locs, below), self.int_expr(d - 1, locs, below), ")")
        if k == "if":
            c = ("(", r.choice(["<", "<=", "=", ">"]), self.int_expr(d - 1, locs, below), self.int_expr(d - 1, locs, below), ")")
            return ("(", "if", c, self.int_expr(d - 1, locs, below), self.int_expr(d - 1, locs, below), ")")
        if k == "let":
            x = "x%d" % r.randint(0, 3)
            return ("(", "let", ("(", ("(", x, self.int_expr(d - 1, locs, below), ")"), ")"),
                    self.int_expr(d - 1, locs + [x], below), ")")
        if k == "call":
            return self.call(r.choice(self.names("fn", below)), d, locs, below)
        if k == "hof":
            self.features.add("higher-order")
            h = r.choice(self.names("hof"))
            cands = [f for f in self.names("fn", below) if self.arity[f] == 0]
            if cands and r.random() < 0.7:
                g = self.ref(r.choice(cands))      # a global procedure passed as a value: (f n) with n small
                return ("(", self.ref(h), g, str(r.randint(0, 3)), ")")
            return ("(", self.ref(h), ("(", "lambda", ("(", "q", ")"), ("(", "+", "q", self.lit(), ")"), ")"), self.lit(), ")")
        if k == "lam":
            self.features.add("closure")
            p = "p%d" % r.randint(0, 2)
            return ("(", ("(", "lambda", ("(", p, ")"), self.int_expr(d - 1, locs + [p], below), ")"),
                    self.int_expr(d - 1, locs, below), ")")
        if k == "map":
            self.features.add("map/foldl")
            m = "m%d" % r.randint(0, 2)
            return ("(", "foldl", ("(", "lambda", ("(", "a8", "b8", ")"), ("(", "+", "a8", "b8", ")"), ")"), "0",
                    ("(", "map", ("(", "lambda", ("(", m, ")"), self.int_expr(d - 1, locs + [m], below), ")"),
                     ("(", "list", self.lit(), self.lit(), self.int_expr(d - 1, locs, below), ")"), ")"), ")")
        if k == "handler":
            self.features.add("handled-error")
            bad = r.choice(["(car '())", "(error \"boom\" 1)", "(+ 1 'a)", "(vector-ref (vector 1 2) 5)"])
            return ("(", "with-handler", ("(", "lambda", ("(", "e9", ")"), self.int_expr(d - 1, locs, below), ")"),
                    ("(", "+", "1", bad, ")"), ")")
        if k == "counter":
            self.features.add("closure-state")
            return ("(", self.ref(r.choice(self.names("counter"))), ")")
        return self.lit()

    def call(self, f, d, locs, below, n=None):
        r = self.rng
        n = str(r.randint(0, 4)) if n is None else n
        args = [self.int_expr(max(0, d - 1), locs, below) for _ in range(self.arity[f])]
        return ("(", self.ref(f), n) + tuple(args) + (")",)

    # ---- definitions ------------------------------------------------------------------------------
    def fn_body(self, name, ar, d):
        r = self.rng
        idx = int(name[1:])
        ps = ["a", "b", "c"][:ar]
        locs = ["n"] + ps
        shape = r.choice(["plain", "plain", "rec", "tailrec", "closure"])
        if shape == "rec":
            self.features.add("recursion")
            self.piece_uses.add(name)
            step = self.int_expr(d - 1, locs, idx)
            return ("(", "if", ("(", "<=", "n", "0", ")"), self.int_expr(d - 1, ps, idx),
                    ("(", "+", step, ("(", ("g", name), ("(", "-", "n", "1", ")")) + tuple(ps) + (")",), ")"), ")")
        if shape == "tailrec" and ar >= 1:
            self.features.add("tail-recursion")
            self.piece_uses.add(name)
            return ("(", "if", ("(", "<=", "n", "0", ")"), ps[0],
                    ("(", ("g", name), ("(", "-", "n", "1", ")"), ("(", "+", ps[0], self.int_expr(d - 1, locs, idx), ")"))
                    + tuple(ps[1:]) + (")",), ")")
        if shape == "closure":
            self.features.add("closure")
            return ("(", "let", ("(", ("(", "k7", ("(", "lambda", ("(", "z", ")"), ("(", "+", "z", self.int_expr(d - 1, locs, idx), ")"), ")"), ")"), ")"),
                    ("(", "k7", self.int_expr(d - 1, locs, idx), ")"), ")")
        return self.int_expr(d, locs, idx)

    def lambda_of(self, name, ar, d):
        ps = ["a", "b", "c"][:ar]
        return ("(", "lambda", ("(", "n") + tuple(ps) + (")",), self.fn_body(name, ar, d), ")")

    def define(self, name, kind):
        """Book-keeping of a `(define name …)` in the current piece."""
        self.piece_defs.add(name)

    # ---- pieces -----------------------------------------------------------------------------------
    def start_piece(self):
        self.piece_defs, self.piece_uses, self.piece_sets = set(), set(), set()

    def end_piece(self, forms):
        """forms: list of (tree, defined_name or None, set_name or None).  Returns (real, spec, in_class)."""
        # versions: references textually before a same-piece definition do not occur (generator discipline), so
        # resolving every form with the versions in force when it is reached is what the compiler does.
        real, spec = [], []
        newcells = []
        for tree, dname, sname in forms:
            if dname is not None:
                self.ver[dname] = self.ver.get(dname, 0) + 1
                newcells.append(dname)
            real.append(render(tree, None))
            spec.append(render(tree, self.ver))
        # K02a class
        for sname in self.piece_sets:
            c = self.cell.get((sname, self.ver.get(sname, 0)))
            if c is not None and c["piece"] < self.piece_no and c["used"] and not c["assigned_in_unit"]:
                self.tainted = True
        for name in newcells:
            self.cell[(name, self.ver[name])] = {
                "piece": self.piece_no, "used": name in self.piece_uses, "assigned_in_unit": name in self.piece_sets}
        # a use in the same piece of a cell defined in an earlier piece does not matter (not inlinable)
        self.piece_no += 1
        return "\n".join(real), "\n".join(spec), self.tainted

    def safe_to_set(self, name):
        """May stream 'main' assign `name` now without entering the class?"""
        c = self.cell.get((name, self.ver.get(name, 0)))
        if c is None:
            return False
        if name in self.piece_defs:
            return True                      # assigned in its own unit: never inlined
        return (not c["used"]) or c["assigned_in_unit"]


def render(t, ver):
    if isinstance(t, str):
        return t
    if t and t[0] == "g":
        return t[1] if ver is None else "%s_%d" % (t[1], ver.get(t[1], 0))
    out = []
    for x in t:
        out.append(render(x, ver))
    s = " ".join(out)
    return s.replace("( ", "(").replace(" )", ")")


def gen_history(rng, npieces=12, stream="main"):
    h = H(rng, stream)
    pieces, spec, cls = [], [], []
    d = 2

    def emit(forms):
        a, b, c = h.end_piece(forms)
        pieces.append(a); spec.append(b); cls.append(c)

    def def_var(name):
        # the right-hand side never mentions the variable being (re)defined
        h.kind.pop(name, None)
        rhs = h.int_expr(1, [], NFN)
        h.kind[name] = "var"
        return (("(", "define", ("g", name), rhs, ")"), name, None)

    def def_fn(name):
        ar = h.arity.get(name, rng.randint(0, 2))
        h.arity[name] = ar
        idx = int(name[1:])
        # the kind is fixed per name so that call sites stay well-formed across versions
        if h.kind.get(name) is None:
            h.kind[name] = "fn"
        ps = ["a", "b", "c"][:ar]
        body = h.fn_body(name, ar, d)
        return (("(", "define", ("(", ("g", name), "n") + tuple(ps) + (")",), body, ")"), name, None)

    def observe():
        forms = []
        for f in h.names("fn"):
            if rng.random() < 0.8:
                forms.append((h.call(f, 1, [], 0), None, None))
        for v in h.names("var"):
            if rng.random() < 0.6:
                forms.append((h.ref(v), None, None))
        for c in h.names("counter"):
            if rng.random() < 0.5:
                forms.append((("(", h.ref(c), ")"), None, None))
        if len(forms) > 1 and rng.random() < 0.5:
            forms = [(("(", "list") + tuple(f[0] for f in forms) + (")",), None, None)]
        if rng.random() < 0.3:
            forms.append((("(", "displayln", h.int_expr(2, [], NFN), ")"), None, None))
        return forms or [("0", None, None)]

    # a first piece so that there is something to call
    h.start_piece()
    first = [def_var("v0"), def_fn("f0")]
    if rng.random() < 0.6:
        first.append(def_fn("f1"))
    emit(first)

    for i in range(npieces):
        h.start_piece()
        r = rng.random()
        forms = []
        if r < 0.16:
            forms.append(def_var("v%d" % rng.randrange(NVAR)))
            if rng.random() < 0.4:
                forms += observe()
        elif r < 0.40:
            n = "f%d" % rng.randrange(NFN)
            if h.kind.get(n, "fn") == "fn":
                forms.append(def_fn(n))
                h.define(n, "fn")
                if rng.random() < 0.5:
                    # a caller in the same unit (candidate for inlining)
                    m = "f%d" % rng.randrange(int(n[1:]) + 1, NFN + 1) if int(n[1:]) < NFN else None
                    if m and m != "f%d" % NFN and h.kind.get(m, "fn") == "fn":
                        forms.append(def_fn(m))
                        h.define(m, "fn")
                if rng.random() < 0.5:
                    forms += observe()
        elif r < 0.50 and h.names("fn"):
            # set! of a procedure
            cands = h.names("fn")
            if stream == "main":
                cands = [f for f in cands if h.safe_to_set(f)]
            if cands:
                f = rng.choice(cands)
                h.features.add("set!-procedure")
                h.piece_sets.add(f)
                forms.append((("(", "set!", ("g", f), h.lambda_of(f, h.arity[f], d), ")"), None, f))
                forms.append(("0", None, None))
        elif r < 0.56 and h.names("var"):
            cands = h.names("var")
            if stream == "main":
                cands = [v for v in cands if h.safe_to_set(v)]
            if cands:
                v = rng.choice(cands)
                h.features.add("set!-variable")
                h.piece_sets.add(v)
                forms.append((("(", "set!", ("g", v), h.int_expr(1, [], NFN), ")"), None, v))
                forms.append((("g", v), None, None))
        elif r < 0.62:
            # define + use + set! in ONE unit (set_bang guard of the inliner), then a later piece assigns again
            n = "f%d" % rng.randrange(NFN)
            if h.kind.get(n, "fn") == "fn":
                h.features.add("set!-in-defining-unit")
                forms.append(def_fn(n))
                h.define(n, "fn")
                forms.append((h.call(n, 1, [], 0), None, None))
                h.piece_sets.add(n)
                forms.append((("(", "set!", ("g", n), h.lambda_of(n, h.arity[n], d), ")"), None, n))
                forms.append((h.call(n, 1, [], 0), None, None))
        elif r < 0.68:
            # a higher-order procedure: (h g x) = (g (g' x)) style, g called with a counter argument
            n = "h%d" % rng.randrange(2)
            h.kind[n] = "hof"
            h.features.add("higher-order")
            forms.append((("(", "define", ("(", ("g", n), "g", "x", ")"), ("(", "+", ("(", "g", "x", ")"), ("(", "g", "0", ")"), ")"), ")"), n, None))
        elif r < 0.74:
            n = "c%d" % rng.randrange(2)
            h.kind[n] = "counter"
            h.features.add("closure-state")
            forms.append((("(", "define", ("g", n), ("(", "let", ("(", ("(", "cnt", h.lit(), ")"), ")"),
                                                      ("(", "lambda", ("(", ")"), ("(", "set!", "cnt", ("(", "+", "cnt", "1", ")"), ")"), "cnt", ")"), ")"), ")"), n, None))
        elif r < 0.79 and h.names("var"):
            # a setter procedure and its use
            v = rng.choice(h.names("var"))
            if stream != "main" or h.safe_to_set(v):
                n = "s%d" % rng.randrange(2)
                h.kind[n] = "setter"
                h.features.add("setter")
                forms.append((("(", "define", ("(", ("g", n), "x", ")"), ("(", "set!", ("g", v), "x", ")"), "0", ")"), n, None))
                h.piece_sets.add(v)
                # calling the setter assigns v from now on (any later piece): treat v as assigned whenever called
                forms.append((("(", ("g", n), h.lit(), ")"), None, v))
                forms.append((("g", v), None, None))
        elif r < 0.84:
            # run-time error in the middle of a piece (nothing is defined after the failing form)
            h.features.add("runtime-error")
            forms += observe()[:2]
            forms.append((rng.choice(["(error \"boom\")", "(car '())", "(+ 1 'a)", "(vector-ref (vector) 0)"]), None, None))
        elif r < 0.87:
            h.features.add("compile-error")
            forms.append(("(undefined-zz-fn 1)", None, None))
        elif r < 0.91 and h.names("fn"):
            h.features.add("arity-error")
            f = rng.choice(h.names("fn"))
            extra = rng.choice([-1, 1, 2])
            n_args = max(0, 1 + h.arity[f] + extra)
            if n_args == 1 + h.arity[f]:
                n_args += 1
            call = ("(", h.ref(f)) + tuple(h.lit() for _ in range(n_args)) + (")",)
            if rng.random() < 0.5:
                forms.append((("(", "with-handler", ("(", "lambda", ("(", "e9", ")"), "42", ")"), ("(", "+", "1", call, ")"), ")"), None, None))
            else:
                forms.append((call, None, None))
        elif r < 0.94 and h.names("fn"):
            # alias: a procedure value stored in another global
            f = rng.choice(h.names("fn"))
            idx = int(f[1:])
            m = [g for g in ["f%d" % j for j in range(idx + 1, NFN)] if h.kind.get(g, "fn") == "fn" and g not in h.kind]
            if m:
                g = m[0]
                h.kind[g] = "fn"
                h.arity[g] = h.arity[f]
                h.features.add("alias")
                forms.append((("(", "define", ("g", g), h.ref(f), ")"), g, None))
        else:
            forms += observe()
        if not forms:
            forms = observe()
        emit(forms)
        if i % 3 == 2:
            h.start_piece()
            emit(observe())
    h.start_piece()
    emit(observe())
    return {"pieces": pieces, "spec": spec, "k02a": cls, "features": set(h.features)}


# ------------------------------------------------------------------------------------------------------
# Model histories (the lowered-core fragment)

def _frag_expr(rng, d, h, nvars, callable_cells, arity):
    """Returns (ir, steel).  h = frame height; variables x0..x{nvars-1} occupy slots 0..nvars-1."""
    opts = ["lit"]
    if nvars:
        opts += ["var", "var"]
    if d > 0:
        opts += ["prim", "prim", "if", "let"]
        if callable_cells:
            opts += ["call"] * 4
    k = rng.choice(opts)
    if k == "lit":
        n = rng.choice([0, 1, 2, 3, 5, 7, -1])
        return "(c %d)" % n, str(n)
    if k == "var":
        i = rng.randrange(nvars)
        return "(l %d)" % i, "x%d" % i
    if k == "prim":
        op, sop = rng.choice([("add", "+"), ("sub", "-"), ("mul", "*")])
        a = _frag_expr(rng, d - 1, h, nvars, callable_cells, arity)
        b = _frag_expr(rng, d - 1, h + 1, nvars, callable_cells, arity)
        return "(p %s %s %s)" % (op, a[0], b[0]), "(%s %s %s)" % (sop, a[1], b[1])
    if k == "if":
        a = _frag_expr(rng, d - 1, h, nvars, callable_cells, arity)
        b = _frag_expr(rng, d - 1, h + 1, nvars, callable_cells, arity)
        t = _frag_expr(rng, d - 1, h, nvars, callable_cells, arity)
        e = _frag_expr(rng, d - 1, h, nvars, callable_cells, arity)
        return "(if (p lt %s %s) %s %s)" % (a[0], b[0], t[0], e[0]), "(if (< %s %s) %s %s)" % (a[1], b[1], t[1], e[1])
    if k == "let":
        # only when the new slot is the next variable index (no temporaries in between)
        if h != nvars:
            return _frag_expr(rng, d - 1, h, nvars, callable_cells, arity)
        e = _frag_expr(rng, d - 1, h, nvars, callable_cells, arity)
        b = _frag_expr(rng, d - 1, h + 1, nvars + 1, callable_cells, arity)
        return "(let %s %s)" % (e[0], b[0]), "(let ((x%d %s)) %s)" % (nvars, e[1], b[1])
    cell, name = rng.choice(callable_cells)
    args = [_frag_expr(rng, d - 1, h + j, nvars, callable_cells, arity) for j in range(arity[cell])]
    return ("(call %d%s)" % (cell, "".join(" " + a[0] for a in args)),
            "(%s%s)" % (name, "".join(" " + a[1] for a in args)))


def gen_model_history(rng, npieces=5):
    """Names g0..g4; a definition of g<i> may call the current cells of g<j>, j < i (and, guarded by a
    decreasing first argument, itself).  Within one piece a name is defined at most once and never mentioned
    before its definition (Steel enters every `define` of a unit into the symbol table before the unit is
    compiled, so an earlier mention would already mean the new, still undefined cell).
    Returns (driver text, steel pieces, spec pieces, number of evals); the spec pieces carry the cell in the
    name (`g3_7` = cell 7)."""
    cur = {}          # name -> cell
    arity = {}        # cell -> arity
    ncells = 0
    lines, steel, spec, nevals = [], [], [], 0

    def versioned(text, table):
        # names are g<digit>; replace whole identifiers only
        import re
        return re.sub(r"\bg([0-4])\b", lambda m: "g%s_%d" % (m.group(1), table["g" + m.group(1)]) if ("g" + m.group(1)) in table else m.group(0), text)

    for p in range(npieces + 1):
        last = p == npieces
        lines.append("piece")
        src, ssrc = [], []
        mentioned, defined = set(), set()
        nforms = rng.randint(1, 4)
        plan = []
        if last:
            plan = ["obs:" + n for n in sorted(cur)]
        for k in range(len(plan) if last else nforms):
            r = rng.random()
            if last:
                kind = "eval"
                name = plan[k][4:]
            elif r < 0.45 or not cur:
                kind = "def"
            elif r < 0.62:
                kind = "set"
            else:
                kind = "eval"
            if kind == "def":
                i = rng.randrange(5)
                name = "g%d" % i
                if name in mentioned or name in defined:
                    continue
                ar = arity[cur[name]] if name in cur else rng.randint(0, 2)
                cell = ncells
                callees = [(c, n) for n, c in cur.items() if int(n[1:]) < i]
                arity[cell] = ar
                if ar >= 1 and rng.random() < 0.35:
                    base = _frag_expr(rng, 1, ar, ar, callees, arity)
                    step = _frag_expr(rng, 1, ar, ar, callees, arity)
                    rest = "".join(" (l %d)" % j for j in range(1, ar))
                    rsrc = "".join(" x%d" % j for j in range(1, ar))
                    ir = "(if (p le (l 0) (c 0)) %s (p add %s (call %d (p sub (l 0) (c 1))%s)))" % (base[0], step[0], cell, rest)
                    st = "(if (<= x0 0) %s (+ %s (%s (- x0 1)%s)))" % (base[1], step[1], name, rsrc)
                else:
                    ir, st = _frag_expr(rng, 2, ar, ar, callees, arity)
                for c, n in callees:
                    if ("(%s " % n) in st or ("(%s)" % n) in st:
                        mentioned.add(n)
                lines.append("def %d %s" % (ar, ir))
                text = "(define (%s%s) %s)" % (name, "".join(" x%d" % j for j in range(ar)), st)
                cur[name] = cell
                ncells += 1
                defined.add(name)
                src.append(text)
                ssrc.append(versioned(text, cur))
            elif kind == "set":
                name = rng.choice(sorted(cur))
                cell = cur[name]
                i = int(name[1:])
                ar = arity[cell]
                callees = [(c, n) for n, c in cur.items() if int(n[1:]) < i]
                ir, st = _frag_expr(rng, 2, ar, ar, callees, arity)
                for c, n in callees:
                    if ("(%s " % n) in st or ("(%s)" % n) in st:
                        mentioned.add(n)
                mentioned.add(name)
                lines.append("set %d %d %s" % (cell, ar, ir))
                text = "(set! %s (lambda (%s) %s))" % (name, " ".join("x%d" % j for j in range(ar)), st)
                src.append(text)
                ssrc.append(versioned(text, cur))
            else:
                if not last:
                    name = rng.choice(sorted(cur))
                cell = cur[name]
                mentioned.add(name)
                args = [str(rng.randint(0, 4)) for _ in range(arity[cell])]
                lines.append("eval (call %d%s)" % (cell, "".join(" (c %s)" % a for a in args)))
                text = "(%s%s)" % (name, "".join(" " + a for a in args))
                src.append(text)
                ssrc.append(versioned(text, cur))
                nevals += 1
        if not src:
            lines.pop()          # empty piece: drop the `piece` marker
            continue
        steel.append("\n".join(src))
        spec.append("\n".join(ssrc))
    lines.append("end")
    return "\n".join(lines), steel, spec, nevals


# ------------------------------------------------------------------------------------------------------
# Directed patterns for the finding classes

def gen_k02a_pattern(rng):
    """A history that is certainly inside the class of K02a: a chain / a recursion defined in one unit, the
    innermost procedure assigned by a later unit.  Returns dict like gen_history."""
    k = rng.choice(["chain", "rec", "alias"])
    a, b, c = rng.randint(1, 9), rng.randint(10, 19), rng.randint(20, 90)
    if k == "chain":
        p0 = "(define (h0 x) (+ x %d))\n(define (g0 x) (+ %d (h0 x)))\n(define (f0 x) (* 2 (g0 x)))" % (a, b)
        p1 = "(set! h0 (lambda (x) (- x %d)))\n0" % c
        p2 = "(list (f0 1) (g0 1) (h0 1))"
        s0 = "(define (h0_1 x) (+ x %d))\n(define (g0_1 x) (+ %d (h0_1 x)))\n(define (f0_1 x) (* 2 (g0_1 x)))" % (a, b)
        s1 = "(set! h0_1 (lambda (x) (- x %d)))\n0" % c
        s2 = "(list (f0_1 1) (g0_1 1) (h0_1 1))"
    elif k == "rec":
        p0 = "(define (r0 n acc) (if (<= n 0) acc (r0 (- n 1) (+ acc %d))))\n(define (w0 n) (r0 n 0))" % a
        p1 = "(set! r0 (lambda (n acc) %d))\n0" % c
        p2 = "(list (w0 %d) (r0 3 0))" % rng.randint(2, 12)
        s0 = p0.replace("r0", "r0_1").replace("w0", "w0_1")
        s1 = p1.replace("r0", "r0_1")
        s2 = p2.replace("r0", "r0_1").replace("w0", "w0_1")
    else:
        p0 = "(define (f0 n) (if (<= n 0) 0 (+ 1 (f0 (- n 1)))))\n(define g0 f0)"
        p1 = "(set! f0 (lambda (n) %d))\n0" % c
        p2 = "(list (g0 %d) (f0 2))" % rng.randint(3, 12)
        s0 = p0.replace("f0", "f0_1").replace("g0", "g0_1")
        s1 = p1.replace("f0", "f0_1")
        s2 = p2.replace("f0", "f0_1").replace("g0", "g0_1")
    return {"pieces": [p0, p1, p2], "spec": [s0, s1, s2], "k02a": [False, True, True], "features": {"k02a-" + k}}


def gen_k02b_pattern(rng):
    """A unit that defines a procedure and calls it with the wrong number of operands (class of K02b)."""
    n = rng.randint(1, 3)
    ps = ["a", "b", "c"][:n]
    k = rng.choice([m for m in range(0, 5) if m != n])
    body = rng.choice([ps[0], "(+ %s)" % " ".join(ps), "(list %s)" % " ".join(ps)])
    call = "(p0 %s)" % " ".join(str(rng.randint(0, 9)) for _ in range(k))
    shape = rng.choice(["top", "fn", "handled"])
    if shape == "top":
        src = "(define (p0 %s) %s)\n%s" % (" ".join(ps), body, call)
    elif shape == "fn":
        src = "(define (p0 %s) %s)\n(define (w0 x) (list x %s))\n(w0 1)" % (" ".join(ps), body, call)
    else:
        src = "(define (p0 %s) %s)\n(define (w0 x) (with-handler (lambda (e) 42) (list x %s)))\n(w0 1)" % (" ".join(ps), body, call)
    return {"pieces": [src], "spec": [src], "k02a": [False], "features": {"k02b-" + shape}}


# ------------------------------------------------------------------------------------------------------
# Programs over user modules (STEEL_MODULE_INLINE): m1 provides small procedures, m2 requires m1 and provides
# procedures that call them, the main program requires both.

def _mod_expr(rng, d, vars_, fns):
    opts = ["lit", "var", "var"]
    if d > 0:
        opts += ["arith", "arith", "if"]
        if fns:
            opts += ["call", "call"]
    k = rng.choice(opts)
    if k == "lit" or (k == "var" and not vars_):
        return str(rng.choice([0, 1, 2, 3, 5, 7, -1]))
    if k == "var":
        return rng.choice(vars_)
    if k == "arith":
        return "(%s %s %s)" % (rng.choice(["+", "-", "*"]), _mod_expr(rng, d - 1, vars_, fns), _mod_expr(rng, d - 1, vars_, fns))
    if k == "if":
        return "(if (< %s %s) %s %s)" % (_mod_expr(rng, d - 1, vars_, fns), _mod_expr(rng, d - 1, vars_, fns),
                                         _mod_expr(rng, d - 1, vars_, fns), _mod_expr(rng, d - 1, vars_, fns))
    f, ar = rng.choice(fns)
    return "(%s%s)" % (f, "".join(" " + _mod_expr(rng, d - 1, vars_, fns) for _ in range(ar)))


def gen_module_program(rng, moddir, stream="main"):
    """Returns dict(pieces, k02c).  stream 'k02c': the exporting module assigns one of its exports through a
    provided procedure that the main program calls (class of K02c)."""
    import hashlib
    import os
    os.makedirs(moddir, exist_ok=True)
    n1 = rng.randint(1, 3)
    m1_fns = []
    m1_src = []
    for i in range(n1):
        ar = rng.randint(0, 2)
        ps = ["x", "y"][:ar]
        m1_src.append("(define (a%d%s) %s)" % (i, "".join(" " + p for p in ps), _mod_expr(rng, 2, ps, list(m1_fns))))
        m1_fns.append(("a%d" % i, ar))
    provides1 = [f for f, _ in m1_fns]
    k02c = stream == "k02c"
    if k02c:
        tgt, ar = rng.choice(m1_fns)
        ps = ["x", "y"][:ar]
        m1_src.append("(define (bump!) (set! %s (lambda (%s) %d)))" % (tgt, " ".join(ps), rng.randint(100, 200)))
        provides1.append("bump!")
    text1 = "(provide %s)\n%s\n" % (" ".join(provides1), "\n".join(m1_src))
    name1 = "gen-%s.scm" % hashlib.sha1(text1.encode()).hexdigest()[:12]
    with open(os.path.join(moddir, name1), "w") as f:
        f.write(text1)
    m2_fns, m2_src = [], []
    for i in range(rng.randint(1, 3)):
        ar = rng.randint(0, 2)
        ps = ["x", "y"][:ar]
        m2_src.append("(define (b%d%s) %s)" % (i, "".join(" " + p for p in ps), _mod_expr(rng, 2, ps, m1_fns + m2_fns)))
        m2_fns.append(("b%d" % i, ar))
    text2 = "(require \"%s\")\n(provide %s)\n%s\n" % (name1, " ".join(f for f, _ in m2_fns), "\n".join(m2_src))
    name2 = "gen-%s.scm" % hashlib.sha1(text2.encode()).hexdigest()[:12]
    with open(os.path.join(moddir, name2), "w") as f:
        f.write(text2)
    allf = m1_fns + m2_fns
    main = ["(require \"%s\")" % os.path.join(moddir, name2), "(require \"%s\")" % os.path.join(moddir, name1)]
    mine = []
    for i in range(rng.randint(1, 3)):
        ar = rng.randint(0, 2)
        ps = ["x", "y"][:ar]
        main.append("(define (c%d%s) %s)" % (i, "".join(" " + p for p in ps), _mod_expr(rng, 2, ps, allf + mine)))
        mine.append(("c%d" % i, ar))
    obs = lambda: "(list %s)" % " ".join(_mod_expr(rng, 1, [], [fa]) if False else "(%s%s)" % (f, "".join(" %d" % rng.randint(0, 5) for _ in range(ar)))
                                         for f, ar in allf + mine)
    # more than 10 top-level expressions: the threshold of the cross-module branch of inline_function_calls
    for _ in range(rng.randint(4, 9)):
        main.append(_mod_expr(rng, 2, [], allf + mine))
    main.append(obs())
    pieces = ["\n".join(main)]
    if k02c:
        if rng.random() < 0.5:
            pieces[0] += "\n(bump!)\n" + obs()
        else:
            pieces.append("(bump!)\n" + obs())
    else:
        pieces.append(obs() + "\n" + _mod_expr(rng, 2, [], allf + mine))
    return {"pieces": pieces, "k02c": k02c, "sources": text1 + "\n" + text2}


# ------------------------------------------------------------------------------------------------------
# Operand-type coverage of the native tier: small procedures that apply one primitive to their parameters,
# called with values of every kind (right and wrong), each call under a handler; loops that cross the fixnum
# boundary.  No reference semantics for these (bignums, floats, rationals): real vs real only.

JIT_VALUES = [
    "0", "1", "-1", "2", "7", "-13", "100", "4611686018427387903", "4611686018427387904", "-4611686018427387904",
    "9223372036854775807", "-9223372036854775808", "9223372036854775808", "100000000000000000000", "-100000000000000000000",
    "0.5", "-0.0", "0.0", "2.0", "1e308", "-1.5e10", "1/3", "-7/2", "(/ 1.0 0.0)",
    "#t", "#f", "\"abc\"", "\"\"", "#\\a", "'sym", "'()", "(list 1 2 3)", "(list 1)", "(cons 1 2)", "(vector 1 2 3)", "(vector)",
    "(void)", "car", "(lambda (x) x)", "(hash 'a 1)", "(box 1)",
]
JIT_BINOPS = ["+", "-", "*", "/", "=", "<", ">", "<=", ">=", "quotient", "remainder", "modulo", "min", "max", "cons", "list",
              "equal?", "eq?", "eqv?", "vector-ref", "list-ref", "append", "string-append"]
JIT_UNOPS = ["car", "cdr", "null?", "not", "length", "abs", "add1", "sub1", "zero?", "positive?", "negative?", "even?", "odd?",
             "vector-length", "string-length", "exact->inexact", "number?", "integer?", "list?", "pair?", "first", "rest", "cadr",
             "unbox", "-", "+", "*", "/", "square", "floor", "round", "exact"]
JIT_TERNOPS = ["+", "-", "*", "<", "=", "<=", "list", "if", "vector", "max"]
# library procedures written in Scheme (prelude / modules): their bodies use the specialised op codes
JIT_LIB_UN = ["sub1", "add1", "zero?", "even?", "odd?", "positive?", "negative?", "abs", "cadr", "caddr", "first", "second", "last",
              "flatten", "sum", "length", "reverse", "(lambda (l) (map sub1 l))", "(lambda (l) (map add1 l))",
              "(lambda (l) (filter even? l))", "(lambda (l) (foldl + 0 l))", "(lambda (l) (reduce + 0 l))", "(lambda (l) (map car l))"]
JIT_LIB_BIN = ["max", "min", "assoc", "member", "list-tail", "drop", "take", "append", "(lambda (a b) (map + a b))",
               "(lambda (a b) (assq a b))", "(lambda (a b) (foldl - a b))"]
JIT_LISTS = ["(list 1 2 3)", "(list 1 \"a\" 3)", "(list)", "(list 1.5 2)", "(list (list 1 2) (list 3 4))", "(list 'a 1)", "5", "\"abc\"",
             "(list (cons 1 2) (cons 3 4))", "(list 4611686018427387904 4611686018427387904)", "(vector 1 2)", "(list 1 (list 2 \"x\"))"]


def gen_jitops_program(rng):
    forms = []
    obs = []
    nfn = rng.randint(2, 4)
    for i in range(nfn):
        kind = rng.choice(["bin", "bin", "bin", "un", "tern", "imm", "loop", "cmpif", "lib1", "lib1", "lib2"])
        if kind == "lib1":
            op = rng.choice(JIT_LIB_UN)
            forms.append("(define (t%d a) (with-handler (lambda (e) 'err) (%s a)))" % (i, op))
            pool = JIT_LISTS if ("l)" in op or op in ("cadr", "caddr", "first", "second", "last", "flatten", "sum", "length", "reverse")) else JIT_VALUES
            for _ in range(rng.randint(4, 8)):
                obs.append("(t%d %s)" % (i, rng.choice(pool)))
        elif kind == "lib2":
            op = rng.choice(JIT_LIB_BIN)
            forms.append("(define (t%d a b) (with-handler (lambda (e) 'err) (%s a b)))" % (i, op))
            for _ in range(rng.randint(4, 8)):
                obs.append("(t%d %s %s)" % (i, rng.choice(JIT_VALUES + JIT_LISTS), rng.choice(JIT_LISTS + JIT_VALUES)))
        elif kind == "bin":
            op = rng.choice(JIT_BINOPS)
            forms.append("(define (t%d a b) (with-handler (lambda (e) 'err) (%s a b)))" % (i, op))
            for _ in range(rng.randint(4, 9)):
                obs.append("(t%d %s %s)" % (i, rng.choice(JIT_VALUES), rng.choice(JIT_VALUES)))
        elif kind == "un":
            op = rng.choice(JIT_UNOPS)
            forms.append("(define (t%d a) (with-handler (lambda (e) 'err) (%s a)))" % (i, op))
            for _ in range(rng.randint(4, 9)):
                obs.append("(t%d %s)" % (i, rng.choice(JIT_VALUES)))
        elif kind == "tern":
            op = rng.choice(JIT_TERNOPS)
            forms.append("(define (t%d a b c) (with-handler (lambda (e) 'err) (%s a b c)))" % (i, op))
            for _ in range(rng.randint(4, 8)):
                obs.append("(t%d %s %s %s)" % (i, rng.choice(JIT_VALUES), rng.choice(JIT_VALUES), rng.choice(JIT_VALUES)))
        elif kind == "imm":
            # an immediate operand: ADDIMMEDIATE / SUBIMMEDIATE / LTEIMMEDIATE style op codes
            op = rng.choice(["+", "-", "<=", "<", "=", "*", ">", ">="])
            k = rng.choice(["1", "2", "0", "10", "-1", "4611686018427387904"])
            if rng.random() < 0.5:
                forms.append("(define (t%d a) (with-handler (lambda (e) 'err) (%s a %s)))" % (i, op, k))
            else:
                forms.append("(define (t%d a) (with-handler (lambda (e) 'err) (%s %s a)))" % (i, op, k))
            for _ in range(rng.randint(4, 9)):
                obs.append("(t%d %s)" % (i, rng.choice(JIT_VALUES)))
        elif kind == "cmpif":
            op = rng.choice(["<", "<=", "=", ">", ">=", "null?", "not", "equal?"])
            if op in ("null?", "not"):
                forms.append("(define (t%d a b) (with-handler (lambda (e) 'err) (if (%s a) 'yes 'no)))" % (i, op))
            else:
                forms.append("(define (t%d a b) (with-handler (lambda (e) 'err) (if (%s a b) 'yes 'no)))" % (i, op))
            for _ in range(rng.randint(4, 9)):
                obs.append("(t%d %s %s)" % (i, rng.choice(JIT_VALUES), rng.choice(JIT_VALUES)))
        else:
            # a self tail loop whose accumulator leaves the fixnum range (or changes kind)
            op = rng.choice(["(* acc 2)", "(+ acc acc)", "(* acc acc)", "(+ acc 4611686018427387903)", "(- acc 4611686018427387904)",
                             "(* acc 1.5)", "(/ acc 3)", "(cons i acc)", "(+ acc 1/3)", "(- acc)"])
            forms.append("(define (t%d i acc) (if (<= i 0) acc (t%d (- i 1) %s)))" % (i, i, op))
            for _ in range(rng.randint(2, 4)):
                obs.append("(with-handler (lambda (e) 'err) (t%d %d %s))" % (i, rng.randint(0, 70) if "acc acc)" not in op or op == "(+ acc acc)" else rng.randint(0, 8),
                                                                        rng.choice(["1", "3", "-1", "0", "2.0", "1/2", "'()", "7"])))
    rng.shuffle(obs)
    k = max(1, len(obs) // 2)
    # every observation is a top-level form of its own: the values are compared position by position
    return {"pieces": ["\n".join(forms) + "\n" + "\n".join(obs[:k]), "\n".join(obs[k:])]}


# ------------------------------------------------------------------------------------------------------
# Procedures with 5-9 parameters (parameters beyond the fourth take the generic READLOCAL / MOVEREADLOCAL paths of
# the code generators), every parameter used several times in ONE expression - first as a plain operand, later,
# for the last time, as argument of an inner call -, really called (through apply / map / as first-class values).

_MP_KINDS = {
    "list": (["(list 10 20)", "(list 1 2 3)", "'(x y z)", "(list 5)", "(list (list 1) 2)"],
             ["(reverse %s)", "(length %s)", "(car %s)", "(cdr %s)", "(append %s %s)", "(list %s)", "(cons 0 %s)", "(map (lambda (q) q) %s)"]),
    "int": (["1", "7", "-3", "100", "4611686018427387904"],
            ["(+ %s 1)", "(* %s 2)", "(list %s)", "(- %s)", "(number->string %s)", "(max %s 0)", "(vector %s)"]),
    "str": (["\"ab\"", "\"\"", "\"Hello\"", "\"x y\""],
            ["(string-upcase %s)", "(string-length %s)", "(string-append %s \"!\")", "(list %s)", "(string->symbol %s)"]),
}
_MP_OUTER = ["list", "vector", "cons*", "list"]


def gen_manyparams_program(rng):
    forms = ["(define (call f . args) (apply f args))"]
    obs = []
    for i in range(rng.randint(2, 4)):
        n = rng.randint(5, 9)
        kinds = [rng.choice(["list", "int", "str"]) for _ in range(n)]
        ps = ["p%d" % k for k in range(n)]
        # the expression: for some parameters `p` then (later) `(inner p)`; later parameters preferred
        chosen = sorted(set(rng.sample(range(n), rng.randint(2, min(4, n))) + [n - 1, rng.randint(4, n - 1)]))
        operands, tail = [], []
        for k in chosen:
            inner = rng.choice(_MP_KINDS[kinds[k]][1])
            inner = inner % ((ps[k],) * inner.count("%s"))
            shape = rng.choice(["plain-then-inner", "plain-then-inner", "plain-plain-inner", "inner-only"])
            if shape == "plain-then-inner":
                operands += [ps[k], inner]
            elif shape == "plain-plain-inner":
                operands += [ps[k], ps[k], inner]
            else:
                operands += [inner]
        if rng.random() < 0.4:
            # nested: the last use sits two calls deep
            k = chosen[-1]
            operands = [ps[k], "(list (list %s))" % rng.choice(_MP_KINDS[kinds[k]][1]).replace("%s", ps[k])] + operands[:4]
        body = "(%s %s)" % (rng.choice(["list", "vector", "list"]), " ".join(operands))
        forms.append("(define (m%d %s) %s)" % (i, " ".join(ps), body))
        for _ in range(rng.randint(1, 3)):
            args = [rng.choice(_MP_KINDS[kinds[k]][0]) for k in range(n)]
            # a computed operator with 9 or more operands is finding K02l (no native call helper): keep the
            # first-class-value form to procedures with at most 8 parameters
            # (K02m likewise: a `(list ...)` of 9 or more operands as operand of apply)
            how = rng.choice(["call", "apply", "map", "value"] if n <= 8 else ["call", "map"])
            if how == "call":
                obs.append("(call m%d %s)" % (i, " ".join(args)))
            elif how == "apply":
                obs.append("(apply m%d (list %s))" % (i, " ".join(args)))
            elif how == "map":
                obs.append("(map m%d %s)" % (i, " ".join("(list %s %s)" % (a, a) for a in args)))
            else:
                obs.append("((car (list m%d)) %s)" % (i, " ".join(args)))
    return {"pieces": ["\n".join(forms), "\n".join("(with-handler (lambda (e) 'err) %s)" % o for o in obs)],
            "module": "\n".join(forms) + "\n" + "\n".join("(displayln (with-handler (lambda (e) 'err) %s))" % o for o in obs) + "\n"}


# ------------------------------------------------------------------------------------------------------
# The same compiled procedure handed out more than once: serialised / deserialised several times, given to several
# native threads (deterministic: every thread is joined before its result is used).

def gen_sendtwice_program(rng):
    forms, obs = [], []
    for i in range(rng.randint(1, 3)):
        # only the constants 0, 1, 2 (immediate op codes): serialising a procedure that refers to the constant
        # table fails in every configuration
        k = rng.randint(1, 2)
        body = rng.choice(["(+ x %d)", "(* x %d)", "(list x %d)", "(if (< x %d) (- x) x)", "(list x x %d)", "(- x %d)"]) % k
        forms.append("(define (s%d x) %s)" % (i, body))
        times = rng.randint(2, 3)
        how = rng.choice(["serialize", "serialize", "thread", "mixed"])
        for t in range(times):
            if how == "serialize" or (how == "mixed" and t % 2 == 0):
                forms.append("(define s%d-copy%d (deserialize-value (serialize-value s%d)))" % (i, t, i))
                obs.append("(s%d-copy%d %d)" % (i, t, 10 * (t + 1)))
            else:
                forms.append("(define s%d-th%d (spawn-native-thread (lambda () (s%d %d))))" % (i, t, i, 10 * (t + 1)))
                obs.append("(thread-join! s%d-th%d)" % (i, t))
        obs.append("(s%d 30)" % i)
    # at top level `serialize-value` of a procedure fails in every configuration (no module context), so the
    # top-level variant keeps only the thread forms; the module variant has both
    tl_forms = [f for f in forms if "serialize-value" not in f]
    tl_obs = [o for o in obs if "-copy" not in o]
    text = "\n".join(tl_forms) + "\n" + "\n".join(tl_obs)
    return {"pieces": [text],
            "module": "\n".join(forms) + "\n" + "\n".join("(displayln %s)" % o for o in obs) + "\n"}


# ------------------------------------------------------------------------------------------------------
# Module-level recursive procedures with dead branches under constant tests in operand position, wrappers,
# and calls nested two or three deep (arguments that are themselves calls), also inside the handler lambda of
# a with-handler after an error, with negative arguments (the family of finding K02n).

def gen_nested_module_calls(rng):
    lines = ["(define g1 %d)" % rng.choice([0, 1, -2])]
    base = rng.choice(["(min 0 (if (< 1 2) 0 (error \"never\")))", "(max 0 (if (< 1 2) (if (< 1 2) 0 (car '())) 3))",
                       "(min 0 (if (< 1 2) (if (< 1 2) 0 (car '())) (error \"never\")))", "(if (< 1 2) 0 (car '()))",
                       "(+ 0 (if #false (car '()) 0))", "(abs (if (> 2 1) 0 (error \"never\")))"])
    step = rng.choice(["(* (begin (display a) a) (- a c))", "(* a (- a c))", "(- a c)", "(+ b (* a c))", "(max a c)"])
    lines.append("(define (r a b c) (if (<= a 0) %s (+ %s (r (- a 1) b c))))" % (base, step))
    lines.append("(define (w x y) (r %d x y))" % rng.randint(1, 3))
    obs = []
    for _ in range(rng.randint(3, 6)):
        v = lambda: str(rng.choice([0, 1, 2, -1, -3, 5]))
        inner = rng.choice(["(w %s %s)" % (v(), v()), "(apply w (list g1 %s))" % v(), "(r 1 %s %s)" % (v(), v())])
        mid = "(w %s %s)" % (v(), inner)
        outer = rng.choice(["(w %s %s)" % (v(), mid), mid, "(list %s %s)" % (mid, inner)])
        obs.append(rng.choice(["(with-handler (lambda (e) %s) (car '()))", "%s",
                               "(with-handler (lambda (e) 'err) %s)"]) % outer)
    return {"module": "\n".join(lines) + "\n" + "\n".join("(displayln %s)" % o for o in obs) + "\n"}


# ---------------------------------------------------------------------------------------------------------
# Self tail calls (and ordinary applications) whose operands are conditionals / and / or / not / cond over the
# OTHER parameters, after operands that are still pending: what the native tier's late materialisation of
# operands (the shadow stack of jit2/cgen.rs) has to get right at a join.  The model (lean C02/JitShadow.lean)
# says where to look: a branch that spills or materialises pending operands while the other does not, a moving
# read of a parameter that an earlier operand still refers to, a set! of such a parameter.  Branch expressions
# are drawn independently from {constant, parameter, inline arithmetic, call of a user procedure}, so all four
# spill combinations of a two-way branch occur; tests are constants, parameters and comparisons.

def gen_tailcall_operand_conditionals(rng):
    np_ = rng.randint(2, 4)
    ps = ["p%d" % k for k in range(np_)]
    bound = rng.randint(3, 6)

    def atom():
        return rng.choice(ps + ["i", str(rng.randint(-3, 9)), "#t", "#f"][: len(ps) + 2]) if rng.random() < 0.8 else rng.choice(["#t", "#f"])

    def num(d=0):
        r = rng.random()
        if d > 1 or r < 0.35:
            return rng.choice(ps + ["i", str(rng.randint(-3, 9))])
        if r < 0.6:
            return "(%s %s %s)" % (rng.choice(["+", "-", "*"]), num(d + 1), rng.choice(["1", "2", "0", rng.choice(ps)]))
        if r < 0.8:
            return "(h %s)" % num(d + 1)                       # a call: spills what is pending
        return "(remainder %s 7)" % num(d + 1)

    def test(d=0):
        r = rng.random()
        if r < 0.15:
            return rng.choice(["#t", "#f", "(< 1 2)", "(> 1 2)"])
        if r < 0.6 or d > 1:
            return "(%s %s %s)" % (rng.choice(["<", "=", ">", "<="]), rng.choice(ps + ["i"]), rng.choice(["0", "1", "2", "3", rng.choice(ps)]))
        if r < 0.75:
            return "(not %s)" % test(d + 1)
        if r < 0.9:
            return "(%s %s %s)" % (rng.choice(["and", "or"]), test(d + 1), test(d + 1))
        return "(ok? %s)" % num(1)                            # a call in the test

    def branchy(d=0):
        r = rng.random()
        if r < 0.45:
            return "(if %s %s %s)" % (test(), side(d), side(d))
        if r < 0.6:
            return "(cond (%s %s) (%s %s) (else %s))" % (test(), side(d), test(), side(d), side(d))
        if r < 0.75:
            return "(if (and %s (not %s)) %s %s)" % (test(), test(), side(d), side(d))
        if r < 0.85:
            return "(if (%s %s %s) 1 0)" % (rng.choice(["and", "or"]), test(), test())
        if r < 0.93:
            return "(when %s %s)" % (test(), side(d)) if rng.random() < 0.3 else "(if (not %s) %s %s)" % (test(), side(d), side(d))
        return "(let ((t %s)) (if %s t %s))" % (num(1), test(), side(d))

    def side(d):
        r = rng.random()
        if d < 1 and r < 0.15:
            return branchy(d + 1)
        if r < 0.45:
            return rng.choice(ps + ["i", str(rng.randint(-3, 9))])         # nothing spilled, maybe a moving read
        if r < 0.7:
            return num(1)
        if r < 0.9:
            return "(h %s)" % rng.choice(ps + ["i", "1"])
        return "(begin (set! %s %s) %s)" % (rng.choice(ps), num(1), rng.choice(ps))

    def operand(k):
        r = rng.random()
        if k == 0 or r < 0.35:
            return rng.choice([ps[k % np_], num(), num()])
        return branchy()

    ops = [operand(k) for k in range(np_)]
    if not any(o.startswith("(if") or o.startswith("(cond") or o.startswith("(when") or o.startswith("(let") for o in ops):
        ops[-1] = branchy()
    lines = ["(define (h x) x)", "(define (ok? x) (< x 4))"]
    shape = rng.random()
    if shape < 0.6:
        # the self tail call
        lines.append("(define (lp i %s) (if (>= i %d) (list %s) (lp (+ i 1) %s)))" % (" ".join(ps), bound, " ".join(ps), " ".join(ops)))
        entry = "lp"
    elif shape < 0.8:
        # a named let inside a wrapper
        lines.append("(define (lp i0 %s) (let loop ((i i0) %s) (if (>= i %d) (list %s) (loop (+ i 1) %s))))" % (
            " ".join("q%d" % k for k in range(np_)), " ".join("(%s q%d)" % (p, k) for k, p in enumerate(ps)), bound, " ".join(ps), " ".join(ops)))
        entry = "lp"
    else:
        # an ordinary application (no loop): the operands of list / of a user procedure
        lines.append("(define (g . xs) xs)")
        lines.append("(define (lp i %s) (%s %s))" % (" ".join(ps), rng.choice(["list", "g", "+" if rng.random() < 0.3 else "list"]), " ".join(ops)))
        entry = "lp"
    calls = []
    for _ in range(rng.randint(3, 5)):
        calls.append("(%s 0 %s)" % (entry, " ".join(str(rng.choice([0, 1, 2, 5, -1, 36, 37])) for _ in ps)))
    obs = ["(with-handler (lambda (e) 'err) %s)" % c for c in calls]
    defs = "\n".join(lines)
    return {"pieces": [defs, "(list %s)" % " ".join(obs)],
            "module": defs + "\n" + "\n".join("(displayln %s)" % o for o in obs) + "\n",
            "features": ["tailcall-operand-conditionals"]}


# ---------------------------------------------------------------------------------------------------------
# Globals that HOLD A BUILT-IN (not a lambda), called from procedures compiled while they hold it, assigned later
# (another built-in, a lambda, back again), the callers invoked first-class (map, apply, taken out of a list, from
# a caller too large to inline) before and after every assignment.  "Later pieces assign globals that earlier
# compiled procedures call" for the one kind of global the procedure histories above never make: native code
# must look the slot up at call time whatever it held when the caller was compiled.

BUILTIN_ALIASES = {
    # arity 1 on a list argument
    1: ["car", "cdr", "length", "reverse", "list", "null?", "last", "(lambda (l) (cons 'lam l))", "cadr", "vector"],
    # arity 2 on two integers
    2: ["+", "-", "*", "list", "cons", "max", "min", "vector", "(lambda (a b) (list 'lam b a))", "quotient"],
}


def gen_builtin_alias_history(rng):
    na = rng.randint(1, 2)
    aliases = []
    for k in range(na):
        ar = rng.choice([1, 1, 2])
        aliases.append(("a%d" % k, ar))
    defs = []
    for name, ar in aliases:
        defs.append("(define %s %s)" % (name, rng.choice([b for b in BUILTIN_ALIASES[ar] if not b.startswith("(")])))
    users = []
    for j in range(rng.randint(1, 3)):
        name, ar = rng.choice(aliases)
        call = "(%s x)" % name if ar == 1 else "(%s (car x) (cadr x))" % name
        shape = rng.random()
        if shape < 0.55:
            body = "(list 'r%d %s)" % (j, call)                      # non-tail call of the global
        elif shape < 0.7:
            body = call                                               # tail call
        elif shape < 0.85:
            body = "(let ((v %s)) (cons v (list %s)))" % (call, call)
        else:
            body = "(if (null? x) 'none (cons 'c %s))" % call
        users.append(("u%d" % j, "(define (u%d x) %s)" % (j, body)))
    defs += [u[1] for u in users]
    defs.append("(define data (list (list 1 2 3) (list 4 5 6)))")
    defs.append("(define (call f . args) (apply f args))")
    # a caller that is too large to be inlined and calls the users directly
    defs.append("(define (big x) (let* ((p (list %s)) (q (map (lambda (y) y) p)) (n (length q))) (if (> n 0) (list n q (reverse q) (length (append q q))) (list 0 q q 0))))"
                % " ".join("(%s x)" % u[0] for u in users))

    def observe():
        out = []
        for u, _ in users:
            k = rng.random()
            if k < 0.4:
                out.append("(map %s data)" % u)
            elif k < 0.6:
                out.append("(call %s (car data))" % u)
            elif k < 0.8:
                out.append("((car (list %s)) (cadr data))" % u)
            else:
                out.append("(%s (car data))" % u)
        if rng.random() < 0.6:
            out.append("(big (car data))")
        return "(list %s)" % " ".join(out)

    single_unit = rng.random() < 0.35
    pieces = ["\n".join(defs), observe()]
    for _ in range(rng.randint(2, 4)):
        name, ar = rng.choice(aliases)
        how = rng.random()
        new = rng.choice(BUILTIN_ALIASES[ar])
        if how < 0.8:
            pieces.append("(set! %s %s)" % (name, new))
        else:
            pieces.append("(define %s %s)" % (name, new))
        pieces.append(observe())
    if single_unit:
        pieces = ["\n".join(pieces)]
    return {"pieces": pieces, "features": ["builtin-alias-assigned-later"],
            "module": "\n".join("(displayln %s)" % p if p.startswith("(list ") else p for piece in pieces for p in piece.split("\n")) + "\n"}


# ---------------------------------------------------------------------------------------------------------
# Non-local control inside SMALL procedures that an inliner may copy into their caller: `return!` (leaves the
# procedure it is written in - copied into a caller it would leave the caller), an escape through call/cc, an
# error raised in the callee under a handler installed by the caller.  The caller does something with the result
# (so "left the callee" and "left the caller" differ), callee and caller are in one unit (the inliners' scope), the
# inputs take the early exit and the normal path.  `tail_only`: every `return!` is in tail position of the callee
# (finding K02p: a `return!` before the end of a natively compiled procedure does not return).

def gen_nonlocal_control_callee(rng, tail_only=True):
    """tail_only (finding K02p not listed): `return!` only as a whole branch in tail position of the callee with a
    call in the other branch, and not at all in the module text (there the other branch is an inline op code)."""
    lines, mlines, callers = [], [], []
    for j in range(rng.randint(2, 3)):
        kind = rng.choice(["return", "return", "callcc", "error"])
        test = rng.choice(["(< n 0)", "(> n 5)", "(= n 3)", "(odd? n)"])
        norm = rng.choice(["(quotient n 2)", "(+ n 1)", "(* n n)", "(list n)"])
        flag = "'exit%d" % j
        cc = "(call/cc (lambda (k) (if %s (k %s) %s)))" % (test, flag, norm)
        if kind == "return":
            if tail_only or rng.random() < 0.4:
                body = "(if %s (return! %s) %s)" % (test, flag, norm)
            else:
                body = rng.choice(["(when %s (return! %s)) %s", "(begin (if %s (return! %s) 0) %s)",
                                   "(let ((t 1)) (when %s (return! %s)) (list t %s))"]) % (test, flag, norm)
            mbody = cc if tail_only else body
        elif kind == "callcc":
            body = mbody = cc
        else:
            body = mbody = "(if %s (error \"early\" n) %s)" % (test, norm)
        lines.append("(define (e%d n) %s)" % (j, body))
        mlines.append("(define (e%d n) %s)" % (j, mbody))
        use = rng.choice(["(list 'result (e%d n))", "(cons (e%d n) 'after)", "(let ((v (e%d n))) (list v v))",
                          "(begin (display \"<\") (let ((v (e%d n))) (display \">\") v))"]) % j
        if kind == "error":
            use = "(with-handler (lambda (err) (list 'handled %d)) %s)" % (j, use)
        for ls in (lines, mlines):
            ls.append("(define (w%d n) %s)" % (j, use))
        callers.append("w%d" % j)
        if rng.random() < 0.4:
            # a second level: the caller is small too
            for ls in (lines, mlines):
                ls.append("(define (x%d n) (list 'outer (w%d n)))" % (j, j))
            callers.append("x%d" % j)
    ins = "(list %s)" % " ".join(str(rng.choice([10, -3, 7, 3, 6, 0, -1, 9])) for _ in range(rng.randint(3, 5)))
    obs = []
    for c in callers:
        obs.append(rng.choice(["(map %s %s)", "(with-handler (lambda (err) 'top-handler) (map %s %s))"]) % (c, ins))
        if rng.random() < 0.5:
            obs.append("(%s %d)" % (c, rng.choice([-3, 7, 3])))
    defs = "\n".join(lines)
    # one unit (callee, caller and call in the same compilation unit) and the two-piece form
    if rng.random() < 0.5:
        pieces = [defs + "\n(list %s)" % " ".join(obs)]
    else:
        pieces = [defs, "(list %s)" % " ".join(obs)]
    return {"pieces": pieces, "features": ["nonlocal-control-in-small-callee"],
            "module": "\n".join(mlines) + "\n" + "\n".join("(displayln %s)" % o for o in obs) + "\n"}


# ---------------------------------------------------------------------------------------------------------
# n-ary arithmetic (3-6 operands) on INEXACT operands of mixed magnitude in positions the native tier reaches
# (capture-free module-level procedures called through apply / map): floating-point addition and multiplication
# are not associative, so the ORDER in which a helper folds its operands is observable ((+ 1e16 1.0 1.0 1.0) is
# 1e16 from left to right and 1.0000000000000002e16 pairwise).  The printed form of a flonum is the shortest
# string that reads back as the same double, so comparing the outputs of the configurations compares bit patterns
# (signed zero and NaN payloads excepted).

FLOAT_MIX = ["1e16", "1.0", "-1e16", "1e-8", "0.1", "0.2", "0.3", "3", "1e308", "-1e308", "1e-300", "0.5", "2.5e15", "7",
             "9007199254740992.0", "-1.0", "1e100", "1/3", "4611686018427387904", "1.5", "1e15"]


def gen_float_nary_program(rng):
    lines, obs = [], []
    nproc = rng.randint(3, 5)
    for j in range(nproc):
        # every program has a plain 3- and a plain 4-operand sum (the arities with helpers of their own)
        n = 3 if j == 0 else 4 if j == 1 else rng.choice([3, 4, 5, 6])
        ps = ["a%d" % k for k in range(n)]
        op = "+" if j < 2 else rng.choice(["+", "+", "*", "-"])
        shape = 0.0 if j < 2 else rng.random()
        if shape < 0.6:
            body = "(%s %s)" % (op, " ".join(ps))
        elif shape < 0.8:
            body = "(list (%s %s) (%s %s))" % (op, " ".join(ps), op, " ".join(reversed(ps)))
        else:
            body = "(%s (%s %s) %s)" % (rng.choice(["+", "*"]), op, " ".join(ps[:-1]), ps[-1])
        lines.append("(define (t%d %s) %s)" % (j, " ".join(ps), body))
        rows = []
        for _ in range(rng.randint(3, 5)):
            big = rng.choice(["1e16", "-1e16", "9007199254740992.0", "1e308", "2.5e15", "1e15"])
            if rng.random() < 0.5:
                # one operand that absorbs each of the others taken alone but not their sum, at any position
                u = rng.choice(["1.0", "-1.0", "0.5", "1", "1e292" if big == "1e308" else "1.0"])
                row = [u] * n
                row[rng.choice([0, 0, n - 1, rng.randrange(n)])] = big
            else:
                row = [rng.choice(FLOAT_MIX) for _ in range(n)]
                row[rng.randrange(n)] = big
                if rng.random() < 0.5:
                    row[rng.randrange(n)] = rng.choice(["1.0", "-1.0", "0.5", "1e-8"])
            rows.append("(list %s)" % " ".join(row))
        lines.append("(define rows%d (list %s))" % (j, " ".join(rows)))
        obs.append("(map (lambda (row) (apply t%d row)) rows%d)" % (j, j))
        if rng.random() < 0.5:
            obs.append("(with-handler (lambda (e) 'err) (t%d %s))" % (j, " ".join(rng.choice(FLOAT_MIX) for _ in range(n))))
    defs = "\n".join(lines)
    return {"pieces": [defs, "(list %s)" % " ".join(obs)], "features": ["float-nary-mixed-magnitude"],
            "module": defs + "\n" + "\n".join("(displayln %s)" % o for o in obs) + "\n"}
