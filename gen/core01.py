"""C01 — generator of programs INSIDE the lowered core of lean/SteelVerif/C01/Core.lean.

Every program is emitted twice: as Steel source (a list of compilation units, each a list of top-level forms) and as
the lowered `Core` term of every top-level form (text syntax of `C01BC.parseCore`).  The lowering is done HERE, by an
independent scope resolution that follows what the real pipeline was observed to do (it is not verified; a wrong guess
shows up as a listing difference or as a five-way disagreement, never silently):

* locals by stack offset; the offsets count the operands of pending calls and the initialisers of pending lets;
* a lambda captures the free variables of its body (transitively), ordered by declaration; each capture is copied
  from the enclosing frame's stack or from the enclosing closure's captures;
* a variable that is captured AND assigned lives in a box: a let variable is initialised with `(#%box init)`, a
  parameter is re-bound by a let around the body; reads unbox, `set!` is `#%set-box!`;
* the last read (in emission order) of a local that no lambda captures is a MOVE;
* a call whose operator is a global name is `callG`; a tail call of the function's own top-level name is `selfTail`.

gen_core_program(rng) -> dict(units=[[src,…],…], cores=[[core,…],…], feats=set())
"""
import itertools

PRIMS = {"+": 0, "-": 1, "*": 2, "<": 3, "<=": 4, "=": 5}
ARITH = ["+", "-", "*"]
CMP = ["<", "<=", "="]


class Var:
    _ids = itertools.count()

    def __init__(self, name, ty, kind):
        self.id = next(Var._ids)
        self.name, self.ty, self.kind = name, ty, kind   # kind: param | let | global | prim
        self.captured = False
        self.assigned = False
        self.noset = False                               # the counter of a loop template is never assigned
        self.slot = None                                 # globals: slot number
        self.owner = None                                # function (Lam node id) that declares a local

    @property
    def boxed(self):
        return self.kind in ("param", "let") and self.captured and self.assigned


INT, BOOL = "int", "bool"


def fn(args, ret=INT, rest=False):
    return ("fn", tuple(args), ret, rest)


def is_maker(v):
    return isinstance(v.ty, tuple) and v.ty[0] == "fn" and isinstance(v.ty[2], tuple) and v.ty[2][0] == "fn"


# ---------------------------------------------------------------------------------------------------------------
# AST: ('int',n) ('bool',b) ('var',v) ('if',c,t,e) ('let',[(v,init)],body) ('begin',[e]) ('set',v,e)
#      ('lam',params,rest,body) ('call',f,args)

class G:
    def __init__(self, rng):
        self.rng = rng
        self.n = itertools.count(1)
        self.globals = []          # Var (kind global), defined so far
        self.feats = set()
        self.next_slot = 10

    def fresh(self, base, ty, kind):
        return Var("%s%d" % (base, next(self.n)), ty, kind)

    # -- expressions ------------------------------------------------------------------------------------------
    def vars_of(self, env, ty):
        return [v for v in env if v.ty == ty] + [v for v in self.globals if v.ty == ty]

    def fun_vars(self, env, ret=INT):
        return [v for v in list(env) + self.globals
                if isinstance(v.ty, tuple) and v.ty[0] == "fn" and v.ty[2] == ret and not v.ty[3]
                and not v.name.startswith(("loop", "rec"))]

    def gen_int(self, env, d, nonconst=False):
        r = self.rng
        ints = self.vars_of(env, INT)
        if d <= 0 or r.random() < 0.22:
            if ints and (nonconst or r.random() < 0.7):
                return ("var", r.choice(ints))
            if nonconst and not ints:
                fs = self.fun_vars(env)
                if fs:
                    return self.gen_call(env, r.choice(fs), 0)
            return ("int", r.choice([0, 1, 2, 3, 5, 7, 10, -1, -4, 12, 100]))
        k = r.random()
        if k < 0.34:
            a = self.gen_int(env, d - 1, nonconst)
            b = self.gen_int(env, d - 1)
            if r.random() < 0.5:
                a, b = b, a
            return ("call", ("var", PRIMV[r.choice(ARITH)]), [a, b])
        if k < 0.50:
            return ("if", self.gen_bool(env, d - 1), self.gen_int(env, d - 1, nonconst), self.gen_int(env, d - 1, nonconst))
        if k < 0.66:
            return self.gen_let(env, d, INT)
        if k < 0.80:
            fs = self.fun_vars(env)
            if fs:
                return self.gen_call(env, r.choice(fs), d - 1)
            return self.gen_int(env, d - 1, nonconst)
        if k < 0.88:
            # computed callee: a call of a maker, or an if between functions
            mk = [v for v in list(env) + self.globals
                  if is_maker(v)]
            if mk:
                m = r.choice(mk)
                self.feats.add("computed-callee")
                inner = ("call", ("var", m), [self.gen_int(env, d - 2) for _ in m.ty[1]])
                return ("call", inner, [self.gen_int(env, d - 2) for _ in m.ty[2][1]])
            return self.gen_int(env, d - 1, nonconst)
        if k < 0.95:
            # assignment of a local / global integer in a begin
            tgt = [v for v in self.vars_of(env, INT) if v.kind in ("param", "let", "global") and not v.noset]
            if tgt:
                v = r.choice(tgt)
                v.assigned = True
                self.feats.add("set-" + v.kind)
                return ("begin", [("set", v, self.gen_int(env, d - 1)), self.gen_int(env, d - 1, True)])
            return self.gen_int(env, d - 1, nonconst)
        # a lambda applied through a let-bound variable
        lam = self.gen_lambda(env, d - 1, r.randint(1, 2))
        f = self.fresh("k", fn([INT] * len(lam[1])), "let")
        self.feats.add("local-closure")
        return ("let", [(f, lam)], self.gen_call(env + [f], f, d - 2))

    def gen_bool(self, env, d):
        r = self.rng
        if r.random() < 0.08:
            return ("bool", r.random() < 0.5)
        return ("call", ("var", PRIMV[r.choice(CMP)]), [self.gen_int(env, d - 1, True), self.gen_int(env, d - 1)])

    def gen_call(self, env, f, d):
        args = [self.gen_int(env, d) for _ in f.ty[1]]
        if f.ty[3]:
            args = args[:-1] + [self.gen_int(env, d) for _ in range(self.rng.randint(0, 2))]
            self.feats.add("rest-call")
        self.feats.add({"global": "call-global", "prim": "call-prim"}.get(f.kind, "call-local"))
        return ("call", ("var", f), args)

    def gen_let(self, env, d, ty):
        n = self.rng.choice([1, 1, 2])
        bs = []
        for _ in range(n):
            v = self.fresh("x", INT, "let")
            bs.append((v, self.gen_int(env, d - 1, True)))
        body = self.gen_int(env + [b[0] for b in bs], d - 1, True)
        self.feats.add("let")
        return ("let", bs, body)

    def gen_lambda(self, env, d, nparams, rest=False):
        ps = [self.fresh("p", INT, "param") for _ in range(nparams)]
        body = self.gen_int(env + ps, d, True)
        if self.rng.random() < 0.15:
            body = ("begin", [self.gen_int(env + ps, d - 1), body])
        self.feats.add("lambda")
        return ("lam", ps, rest, body)

    # -- top-level forms --------------------------------------------------------------------------------------
    def new_global(self, base, ty):
        v = self.fresh(base, ty, "global")
        v.slot = self.next_slot
        self.next_slot += 1
        return v

    def top_define_fun(self, d):
        n = self.rng.randint(1, 3)
        g = self.new_global("f", fn([INT] * n))
        lam = self.gen_lambda([], d, n)
        self.globals.append(g)
        return ("define", g, lam)

    def top_define_rest(self, d):
        g = self.new_global("r", fn([INT, INT], ("list",), True))
        a = self.fresh("p", INT, "param")
        rst = self.fresh("q", ("list",), "param")
        body = ("var", rst) if self.rng.random() < 0.6 else ("begin", [self.gen_int([a], d), ("var", rst)])
        self.feats.add("rest-param")
        self.globals.append(g)
        return ("define", g, ("lam", [a, rst], True, body))

    def top_define_maker(self, d):
        g = self.new_global("mk", ("fn", (INT,), fn([INT]), False))
        a = self.fresh("p", INT, "param")
        r = self.rng.random()
        if r < 0.45:
            inner = self.gen_lambda([a], d, 1)
            body = inner
        elif r < 0.8:
            # counter: the captured let variable is assigned by the closure
            c = self.fresh("c", INT, "let")
            p = self.fresh("p", INT, "param")
            c.assigned = True
            upd = ("call", ("var", PRIMV[self.rng.choice(ARITH)]), [("var", c), ("var", p)])
            inner = ("lam", [p], False, ("begin", [("set", c, upd), ("var", c)]))
            body = ("let", [(c, ("call", ("var", PRIMV["+"]), [("var", a), self.gen_int([a], 1)]))], inner)
            self.feats.add("boxed-let")
        else:
            # the parameter itself is assigned and captured
            p = self.fresh("p", INT, "param")
            a.assigned = True
            inner = ("lam", [p], False, ("call", ("var", PRIMV["+"]), [("var", a), ("var", p)]))
            body = ("begin", [("set", a, ("call", ("var", PRIMV["*"]), [("var", a), ("int", 2)])), inner])
            self.feats.add("boxed-param")
        self.globals.append(g)
        return ("define", g, ("lam", [a], False, body))

    def top_define_loop(self, d):
        g = self.new_global("loop", fn([INT, INT]))
        n = self.fresh("n", INT, "param")
        n.noset = True
        acc = self.fresh("acc", INT, "param")
        step = self.gen_int([n, acc], d, True)
        body = ("if", ("call", ("var", PRIMV["<="]), [("var", n), ("int", 0)]), ("var", acc),
                ("call", ("var", g), [("call", ("var", PRIMV["-"]), [("var", n), ("int", 1)]), step]))
        self.feats.add("self-tail")
        lamb = ("lam", [n, acc], False, body)
        self.globals.append(g)
        return ("define", g, lamb)

    def top_define_rec(self, d):
        g = self.new_global("rec", fn([INT]))
        n = self.fresh("n", INT, "param")
        n.noset = True
        body = ("if", ("call", ("var", PRIMV["<="]), [("var", n), ("int", 0)]), self.gen_int([], 1),
                ("call", ("var", PRIMV[self.rng.choice(["+", "*", "-"])]),
                 [self.gen_int([n], d, True),
                  ("call", ("var", g), [("call", ("var", PRIMV["-"]), [("var", n), ("int", 1)])])]))
        self.feats.add("self-nontail")
        self.globals.append(g)
        return ("define", g, ("lam", [n], False, body))

    def top_define_int(self, d):
        g = self.new_global("g", INT)
        e = self.gen_int([], d)
        self.globals.append(g)
        return ("define", g, e)

    def top_define_closure(self, d):
        mk = [v for v in self.globals if is_maker(v)]
        if not mk:
            return self.top_define_maker(d)
        m = self.rng.choice(mk)
        g = self.new_global("h", m.ty[2])
        e = ("call", ("var", m), [self.gen_int([], 1)])
        self.globals.append(g)
        return ("define", g, e)

    def top_set(self, d):
        gs = [v for v in self.globals if v.ty == INT]
        if not gs:
            return self.top_define_int(d)
        g = self.rng.choice(gs)
        g.assigned = True
        self.feats.add("set-global-top")
        return ("gset", g, self.gen_int([], d))

    def top_expr(self, d, allow_err=False):
        r = self.rng.random() * 0.15 if allow_err else 0.06 + 0.94 * self.rng.random()
        fs = [v for v in self.globals if isinstance(v.ty, tuple) and not is_maker(v)]
        if r < 0.06:
            self.feats.add("error")
            k = self.rng.random()
            if k < 0.3:
                return ("expr", ("call", ("int", 5), [("int", 1)]))
            if k < 0.6 and fs:
                f = self.rng.choice(fs)
                if not f.ty[3]:
                    return ("expr", ("call", ("var", f), [("int", 1)] * (len(f.ty[1]) + 1)))
            return ("expr", ("call", ("var", PRIMV["+"]), [("int", 1), ("bool", True)]))
        if fs and r < 0.8:
            f = self.rng.choice(fs)
            if f.ty[1] and f.name.startswith(("loop", "rec")):
                args = [("int", self.rng.randint(0, 9))] + [self.gen_int([], 1) for _ in f.ty[1][1:]]
                return ("expr", ("call", ("var", f), args))
            return ("expr", self.gen_call([], f, 1))
        return ("expr", self.gen_int([], d))


PRIMV = {}
for _n, _s in PRIMS.items():
    _v = Var(_n, fn([INT, INT], BOOL if _n in CMP else INT), "prim")
    _v.slot = _s
    PRIMV[_n] = _v


# ---------------------------------------------------------------------------------------------------------------
# source text

def src(e):
    t = e[0]
    if t == "int":
        return str(e[1])
    if t == "bool":
        return "#t" if e[1] else "#f"
    if t == "var":
        return e[1].name
    if t == "if":
        return "(if %s %s %s)" % (src(e[1]), src(e[2]), src(e[3]))
    if t == "let":
        return "(let (%s) %s)" % (" ".join("(%s %s)" % (v.name, src(i)) for v, i in e[1]), src(e[2]))
    if t == "begin":
        return "(begin %s)" % " ".join(src(x) for x in e[1])
    if t == "set":
        return "(set! %s %s)" % (e[1].name, src(e[2]))
    if t == "lam":
        ps = e[1]
        if e[2]:
            plist = "(%s . %s)" % (" ".join(p.name for p in ps[:-1]), ps[-1].name) if len(ps) > 1 else ps[-1].name
        else:
            plist = "(%s)" % " ".join(p.name for p in ps)
        return "(lambda %s %s)" % (plist, src(e[3]))
    if t == "call":
        return "(%s)" % " ".join([src(e[1])] + [src(a) for a in e[2]])
    raise ValueError(t)


def src_top(f):
    if f[0] == "define":
        return "(define %s %s)" % (f[1].name, src(f[2]))
    if f[0] == "gset":
        return "(set! %s %s)" % (f[1].name, src(f[2]))
    return src(f[1])


# ---------------------------------------------------------------------------------------------------------------
# analysis: which locals are captured (referenced, read or assigned, inside a lambda below their own function)

def mark_captures(e, fun, owner):
    """fun = id of the innermost enclosing lambda node (None at top level); owner[var] = declaring function."""
    t = e[0]
    if t in ("int", "bool"):
        return
    if t == "var":
        v = e[1]
        if v.kind in ("param", "let") and owner.get(v) != fun:
            v.captured = True
        return
    if t == "if":
        for x in e[1:]:
            mark_captures(x, fun, owner)
    elif t == "let":
        for v, i in e[1]:
            mark_captures(i, fun, owner)
        for v, _ in e[1]:
            owner[v] = fun
        mark_captures(e[2], fun, owner)
    elif t == "begin":
        for x in e[1]:
            mark_captures(x, fun, owner)
    elif t == "set":
        v = e[1]
        v.assigned = True
        if v.kind in ("param", "let") and owner.get(v) != fun:
            v.captured = True
        mark_captures(e[2], fun, owner)
    elif t == "lam":
        me = id(e)
        for p in e[1]:
            owner[p] = me
        mark_captures(e[3], me, owner)
    elif t == "call":
        mark_captures(e[1], fun, owner)
        for a in e[2]:
            mark_captures(a, fun, owner)


def free_locals(e, bound, acc):
    """Locals (param/let) referenced in e that are not bound inside e."""
    t = e[0]
    if t == "var":
        v = e[1]
        if v.kind in ("param", "let") and v not in bound and v not in acc:
            acc.append(v)
    elif t == "if":
        for x in e[1:]:
            free_locals(x, bound, acc)
    elif t == "let":
        for v, i in e[1]:
            free_locals(i, bound, acc)
        free_locals(e[2], bound | {v for v, _ in e[1]}, acc)
    elif t == "begin":
        for x in e[1]:
            free_locals(x, bound, acc)
    elif t == "set":
        v = e[1]
        if v.kind in ("param", "let") and v not in bound and v not in acc:
            acc.append(v)
        free_locals(e[2], bound, acc)
    elif t == "lam":
        free_locals(e[3], bound | set(e[1]), acc)
    elif t == "call":
        free_locals(e[1], bound, acc)
        for a in e[2]:
            free_locals(a, bound, acc)
    return acc


# ---------------------------------------------------------------------------------------------------------------
# lowering.  Core nodes are python lists (mutable: the move flag of a read is decided when its function is complete).

class Fn:
    def __init__(self, selfname=None):
        self.loc = {}        # Var -> ('l', slot) | ('c', index)
        self.reads = []      # (Var, node) in emission order
        self.selfname = selfname


def read_var(v, F):
    if v.kind in ("global", "prim"):
        return ["g", v.slot]
    where = F.loc[v]
    if where[0] == "l":
        node = ["l", where[1]]
        F.reads.append((v, node))
    else:
        node = ["cap", where[1]]
    return node


def lower_expr(e, F, d, tail):
    """Core node for e with d occupied slots in the frame of function F (visits in EMISSION order)."""
    t = e[0]
    if t == "int":
        return ["c", e[1]]
    if t == "bool":
        return ["t"] if e[1] else ["f"]
    if t == "var":
        v = e[1]
        n = read_var(v, F)
        return ["unbox", n] if v.boxed else n
    if t == "begin":
        parts = [lower_expr(x, F, d, False) for x in e[1][:-1]]
        last = lower_expr(e[1][-1], F, d, tail)
        node = last
        for p in reversed(parts):
            node = ["seq", p, node]
        return node
    if t == "set":
        v = e[1]
        if v.kind == "global":
            return ["setg", v.slot, lower_expr(e[2], F, d, False)]
        if v.boxed:
            b = read_var(v, F)
            return ["setbox", b, lower_expr(e[2], F, d + 1, False)]
        val = lower_expr(e[2], F, d, False)
        return ["setl", F.loc[v][1], val]
    if t == "lam":
        params, rest, body = e[1], e[2], e[3]
        fv = sorted(free_locals(body, set(params), []), key=lambda v: v.id)
        caps = []
        for v in fv:
            w = F.loc[v]
            caps.append(["s", w[1]] if w[0] == "l" else ["k", w[1]])
        F2 = Fn(getattr(F, "pending_self", None))
        F.pending_self = None
        for i, v in enumerate(fv):
            F2.loc[v] = ("c", i)
        for i, p in enumerate(params):
            F2.loc[p] = ("l", i)
        boxed = [p for p in params if p.boxed]
        n = len(params)
        if boxed:
            inits = []
            for k, p in enumerate(boxed):
                node = ["l", F2.loc[p][1]]
                F2.reads.append((p, node))
                inits.append(["box", node])
            # the raw parameter is read exactly once (moved into the box)
            for k, p in enumerate(boxed):
                F2.loc[p] = ("l", n + k)
            b = lower_expr(body, F2, n + len(boxed), True)
            b = ["let", n, inits, b]
            # these reads are reads of the raw slot: they are moves
            for node in inits:
                node[1][0] = "lm"
            F2.reads = [(v, nd) for (v, nd) in F2.reads if nd[0] != "lm"]
        else:
            b = lower_expr(body, F2, n, True)
        finish_moves(F2)
        return ["lam", n, 1 if rest else 0, caps, b]
    if t == "call":
        f, args = e[1], e[2]
        if f[0] == "var" and f[1].kind in ("global", "prim"):
            g = f[1]
            a = [lower_expr(x, F, d + i, False) for i, x in enumerate(args)]
            if tail and F.selfname is g and not g.assigned:
                return ["st"] + a
            return ["cg", g.slot] + a
        a = [lower_expr(x, F, d + i, False) for i, x in enumerate(args)]
        c = lower_expr(f, F, d + len(args), False)
        return ["app", c] + a
    if t == "if":
        return ["if", lower_expr(e[1], F, d, False), lower_expr(e[2], F, d, tail), lower_expr(e[3], F, d, tail)]
    if t == "let":
        inits = []
        for k, (v, i) in enumerate(e[1]):
            c = lower_expr(i, F, d + k, False)
            inits.append(["box", c] if v.boxed else c)
        for k, (v, _) in enumerate(e[1]):
            F.loc[v] = ("l", d + k)
        body = lower_expr(e[2], F, d + len(e[1]), tail)
        return ["let", d, inits, body]
    raise ValueError(t)


def finish_moves(F):
    last = {}
    for v, node in F.reads:
        last[v] = node
    for v, node in last.items():
        if not v.captured and node[0] == "l":
            node[0] = "lm"


def core_text(n):
    if isinstance(n, list):
        return "(" + " ".join(core_text(x) for x in n) + ")"
    return str(n)


def lower_top(f):
    F = Fn()
    if f[0] == "define":
        if f[2][0] == "lam":
            F.pending_self = f[1]
        c = lower_expr(f[2], F, 0, False)
        finish_moves(F)
        return core_text(["def", f[1].slot, c])
    if f[0] == "gset":
        c = lower_expr(f[2], F, 0, False)
        finish_moves(F)
        return core_text(["setg", f[1].slot, c])
    c = lower_expr(f[1], F, 0, False)
    finish_moves(F)
    return core_text(c)


def gen_core_program(rng, size=3):
    g = G(rng)
    forms = []
    makers = [g.top_define_fun, g.top_define_fun, g.top_define_maker, g.top_define_loop, g.top_define_rec,
              g.top_define_int, g.top_define_closure, g.top_define_rest, g.top_set]
    nd = rng.randint(3, 6)
    for i in range(nd):
        forms.append(rng.choice(makers)(size))
        if rng.random() < 0.4:
            forms.append(g.top_expr(size))
    for _ in range(rng.randint(2, 4)):
        forms.append(g.top_expr(size))
    if rng.random() < 0.3:
        forms.append(g.top_expr(size, True) if rng.random() < 0.5 else g.top_expr(size))
    for f in forms:
        mark_captures(f[2] if f[0] != "expr" else f[1], None, {})
    units, cores = [], []
    cur_s, cur_c = [], []
    for f in forms:
        cur_s.append(src_top(f))
        cur_c.append(lower_top(f))
        if rng.random() < 0.8:
            units.append(cur_s)
            cores.append(cur_c)
            cur_s, cur_c = [], []
    if cur_s:
        units.append(cur_s)
        cores.append(cur_c)
    if any(len(u) > 1 for u in units):
        g.feats.add("multi-form-unit")
    return {"units": units, "cores": cores, "feats": g.feats}


if __name__ == "__main__":
    import random
    import sys
    r = random.Random(int(sys.argv[1]) if len(sys.argv) > 1 else 1)
    p = gen_core_program(r)
    for u, c in zip(p["units"], p["cores"]):
        for s, k in zip(u, c):
            print(s)
            print("   ", k)
        print(";;;---")
