"""C08 generator: terminating Steel programs that capture and invoke continuations.

Every program keeps a side-effect trace: `(note x)` conses `x` onto the global `tr`; the last top-level form is
`(reverse tr)`, so the observable of a program is (values of the top-level forms, the trace, stdout).

Shape of a program
    prologue   tr / note / budget / again? / continuation slots g1..g3 / a box bx / helper procedures
    forms      2..5 top-level expressions (each is a separate `execute` on the real engine)
    epilogue   (reverse tr)

Termination: a continuation that was stored (global, box) is only invoked under `(again?)`, which consumes one
unit of the global budget; a continuation bound by the receiver of call/cc is invoked unguarded only inside that
receiver (an upward escape).  Loops have constant bounds.  What still runs too long is cut by the fuel of S
("timeout" is not a verdict).

Features (counted per program, reported in the evidence): capture position (argument, let body, HOF callback,
handler, wind thunk, tail), storage (global, box), invocation (escape, re-entry, from a later top-level form),
dynamic-wind nesting 1-4 with escapes / re-entry, errors (error, car of a number, vector index) raised in
bodies, thunks and handlers under with-handler / call-with-exception-handler, tail loops, reset/shift,
templates (generator by re-entry, coroutines, amb back-tracking, with-lock helper).

Histories (a sixth of the programs): the text is cut into PIECES by lines `;;;---`; every piece is one evaluation
on the same engine, like forms typed into a REPL (piece 0 = the definitions).  A piece that ends with an uncaught
error contributes the pseudo value `!err`, the next piece runs on.  "Dying" forms store a continuation in a
global slot and then raise an error nobody catches (`(fuse!)` raises while the global `fuses` is positive) —
plain, under 1-3 winds, inside a procedure call, under a handler that raises again; later pieces invoke the
stored continuations 0, 1 or several times, plain, inside winds, procedure calls and handlers.  A continuation has
the extent of its top-level form: invoking it from a later evaluation finishes that form (this time the fuse is
blown) and its value is the value of the invoking form.

All randomness comes from the `random.Random` passed in.
"""

PIECE = ";;;---"
# (set! gN #f): a global that is never assigned in the evaluation that defines it is taken for a constant there and
# inlined into the procedures of that evaluation (a finding of another property); the slots are assigned by later pieces
HIST_PROLOGUE = """(set! g1 #f)
(set! g2 #f)
(set! g3 #f)
(define fuses %d)
(define (fuse!) (if (> fuses 0) (begin (set! fuses (- fuses 1)) (error "boom")) 0))"""

SLOTS = ["g1", "g2", "g3"]


class Ctx:
    def __init__(self, rng, feats):
        self.rng = rng
        self.vars = []          # int variables in scope
        self.ks = []            # continuation variables (lexical, escape only)
        self.fns = []           # (name, arity)
        self.counter = [0]
        self.feats = feats
        self.handlers = 0       # enclosing handlers (lexically)
        self.winds = 0
        self.in_thunk = False
        self.in_handler = False
        self.in_hof = False
        self.allow_err = True
        self.allow_reenter = True
        self.allow_handler_err = False
        self.in_proc = False    # inside a procedure body (a frame of the real VM exists below)
        self.allow_top_cweh = False
        self.nre = [0]          # number of invocations of stored continuations generated so far

    def fresh(self, p):
        self.counter[0] += 1
        return "%s%d" % (p, self.counter[0])

    def child(self, **kw):
        c = Ctx(self.rng, self.feats)
        c.__dict__.update(self.__dict__)
        c.vars = list(self.vars)
        c.ks = list(self.ks)
        for k, v in kw.items():
            setattr(c, k, v)
        return c

    def feat(self, f):
        self.feats.add(f)


def lit(r):
    return str(r.choice([0, 1, 2, 3, 4, 5, 7, 10, -1, -3, 20]))


def small(c):
    r = c.rng
    if c.vars and r.random() < 0.6:
        return r.choice(c.vars)
    return lit(r)


def err_expr(c):
    r = c.rng
    k = r.choice(["error", "error", "car", "vecref", "plus"])
    c.feat("err:" + k)
    if c.in_thunk:
        c.feat("err-in-wind-thunk")
    if c.in_handler:
        c.feat("err-in-handler")
    if k == "error":
        return '(error "%s")' % c.fresh("e")
    if k == "car":
        return "(car %s)" % lit(r)
    if k == "vecref":
        return "(vector-ref (vector 1 2) 7)"
    return "(+ 1 'a)"


def thunk_body(c, d, tag):
    """Body of a before/after thunk: a note, sometimes followed by something more interesting."""
    r = c.rng
    n = "(note '%s)" % tag
    x = r.random()
    if d <= 0 or x < 0.72:
        return n
    cc = c.child(in_thunk=True, ks=[], allow_handler_err=False, in_proc=True)
    if x < 0.80 and c.allow_reenter:
        c.feat("capture-in-wind-thunk")
        s = r.choice(SLOTS)
        return "(begin %s (call/cc (lambda (k) (set! %s k))) (note '%s))" % (n, s, tag + "b")
    if x < 0.86 and c.allow_reenter:
        c.feat("invoke-in-wind-thunk")
        c.nre[0] += 1
        s = r.choice(SLOTS)
        return "(begin %s (if (and (procedure? %s) (again?)) (%s %s) 0))" % (n, s, s, small(c))
    if x < 0.92 and c.handlers > 0 and c.allow_err:
        return "(begin %s (if (again?) %s 0))" % (n, err_expr(cc))
    return "(begin %s (note %s))" % (n, gen(cc, d - 1))


def gen(c, d):
    """An expression with an integer value (unless control leaves it)."""
    r = c.rng
    opts = [("lit", 2)]
    if c.vars:
        opts.append(("var", 5))
    if d > 0:
        opts += [("arith", 6), ("note", 5), ("noteval", 3), ("let", 3), ("if", 2), ("capture", 7), ("wind", 5),
                 ("handler", 3), ("hof", 3), ("loop", 2), ("setlocal", 1), ("seq", 2)]
        # call-with-exception-handler written directly in a top-level form (no procedure frame below) is the
        # class of finding K08d: only generated there when asked for
        if c.in_proc or c.allow_top_cweh:
            opts.append(("cweh", 2.5))
        if c.allow_reenter:
            opts.append(("reenter", 4))
        if c.ks:
            opts.append(("escape", 14))
        if c.fns:
            opts.append(("call", 4))
        if c.allow_err:
            opts.append(("error", 9 if c.handlers > 0 else 0.3))
    elif c.ks and r.random() < 0.5:
        # at the leaves, inside a receiver: escape with a simple value
        c.feat("escape")
        for flag, name in ((c.winds, "escape-from-wind"), (c.in_hof, "escape-from-hof"), (c.in_handler, "escape-from-handler")):
            if flag:
                c.feat(name)
        return "(%s %s)" % (r.choice(c.ks), small(c))
    elif c.handlers > 0 and c.allow_err and r.random() < 0.25:
        return err_expr(c)
    names = [o[0] for o in opts]
    k = r.choices(names, weights=[o[1] for o in opts])[0]
    if k == "lit":
        return lit(r)
    if k == "var":
        return r.choice(c.vars)
    if k == "arith":
        op = r.choice(["+", "+", "-", "*"])
        n = r.choice([2, 2, 3])
        return "(%s %s)" % (op, " ".join(gen(c, d - 1) for _ in range(n)))
    if k == "note":
        return "(begin (note '%s) %s)" % (c.fresh("s"), gen(c, d - 1))
    if k == "noteval":
        return "(note %s)" % gen(c, d - 1)
    if k == "seq":
        return "(begin %s %s)" % (gen(c, d - 1), gen(c, d - 1))
    if k == "let":
        x = c.fresh("x")
        e = gen(c, d - 1)
        cc = c.child()
        cc.vars.append(x)
        c.feat("let")
        return "(let ((%s %s)) %s)" % (x, e, gen(cc, d - 1))
    if k == "setlocal":
        # mutable state that a re-entered continuation must NOT restore: a box bound by a let
        # (set! on a let-bound variable is avoided: open findings of other properties, K01d and a JIT todo!())
        x = c.fresh("b")
        c.feat("box-local")
        return "(let ((%s (box %s))) (begin (set-box! %s (+ (unbox %s) %s)) (unbox %s)))" % (
            x, small(c), x, x, gen(c, d - 1), x)
    if k == "if":
        return "(if (< %s %s) %s %s)" % (gen(c, d - 1), small(c), gen(c, d - 1), gen(c, d - 1))
    if k == "call":
        name, ar = r.choice(c.fns)
        c.feat("call")
        return "(%s %s)" % (name, " ".join(gen(c, d - 1) for _ in range(ar)))
    if k == "error":
        return err_expr(c)
    if k == "escape":
        kv = r.choice(c.ks)
        c.feat("escape")
        if c.winds:
            c.feat("escape-from-wind")
        if c.in_hof:
            c.feat("escape-from-hof")
        if c.in_handler:
            c.feat("escape-from-handler")
        if r.random() < 0.4:
            return "(+ 1 (%s %s))" % (kv, gen(c, d - 1))
        return "(%s %s)" % (kv, gen(c, d - 1))
    if k == "capture":
        kv = c.fresh("k")
        cc = c.child(in_proc=True)
        cc.ks.append(kv)
        where = ("hof" if c.in_hof else "thunk" if c.in_thunk else "handler" if c.in_handler else "expr")
        c.feat("capture-in-" + where)
        x = r.random()
        if x < 0.45 and c.allow_reenter:
            tgt = r.choice(SLOTS + ["bx"])
            c.feat("store-" + ("box" if tgt == "bx" else "global"))
            store = "(set-box! bx %s)" % kv if tgt == "bx" else "(set! %s %s)" % (tgt, kv)
            return "(call/cc (lambda (%s) (begin %s %s)))" % (kv, store, gen(cc, d - 1))
        return "(call/cc (lambda (%s) %s))" % (kv, gen(cc, d - 1))
    if k == "reenter":
        c.feat("reenter")
        c.nre[0] += 1
        if c.winds:
            c.feat("invoke-inside-wind")
        if c.in_hof:
            c.feat("invoke-inside-hof")
        if c.in_handler:
            c.feat("invoke-inside-handler")
        if r.random() < 0.25:
            return "(let ((c (unbox bx))) (if (and (procedure? c) (again?)) (c %s) %s))" % (small(c), gen(c, d - 1))
        s = r.choice(SLOTS)
        return "(if (and (procedure? %s) (again?)) (%s %s) %s)" % (s, s, small(c), gen(c, d - 1))
    if k == "wind":
        depth = r.choice([1, 1, 1, 2, 2, 3, 4])
        c.feat("wind-depth-%d" % depth)
        cc = c.child(winds=c.winds + depth, in_proc=True)
        body = gen(cc, d - 1)
        for i in range(depth):
            t = c.fresh("w")
            body = "(dynamic-wind (lambda () %s) (lambda () %s) (lambda () %s))" % (
                thunk_body(c, d - 1, "in-" + t), body, thunk_body(c, d - 1, "out-" + t))
        return body
    if k == "handler":
        t = c.fresh("h")
        c.feat("with-handler")
        hc = c.child(in_handler=True, allow_err=c.allow_handler_err and c.handlers > 0, in_proc=True)
        bc = c.child(handlers=c.handlers + 1, in_proc=True)
        return "(with-handler (lambda (e) (begin (note '%s) %s)) %s)" % (t, gen(hc, d - 1), gen(bc, d - 1))
    if k == "cweh":
        t = c.fresh("h")
        c.feat("call-with-exception-handler")
        if not c.in_proc:
            c.feat("top-level-cweh")
        # an error raised by the handler itself goes to the next enclosing handler
        hc = c.child(in_handler=True, allow_err=c.handlers > 0, in_proc=True, handlers=c.handlers)
        bc = c.child(handlers=c.handlers + 1, in_proc=True)
        return "(call-with-exception-handler (lambda (e) (begin (note '%s) %s)) (lambda () %s))" % (
            t, gen(hc, d - 1), gen(bc, d - 1))
    if k == "hof":
        x = c.fresh("x")
        cc = c.child(in_hof=True, in_proc=True)
        cc.vars.append(x)
        lst = "(list %s)" % " ".join(lit(r) for _ in range(r.choice([2, 3, 3, 4])))
        which = r.choice(["map", "map", "foldl", "for-each", "filter", "transduce"])
        c.feat("hof-" + which)
        if which == "map":
            return "(apply + (map (lambda (%s) %s) %s))" % (x, gen(cc, d - 1), lst)
        if which == "foldl":
            a = c.fresh("a")
            cc.vars.append(a)
            return "(foldl (lambda (%s %s) %s) %s %s)" % (x, a, gen(cc, d - 1), small(c), lst)
        if which == "for-each":
            return "(begin (for-each (lambda (%s) %s) %s) %s)" % (x, gen(cc, d - 1), lst, small(c))
        if which == "filter":
            return "(length (filter (lambda (%s) (< %s 3)) %s))" % (x, gen(cc, d - 1), lst)
        return "(apply + (transduce %s (mapping (lambda (%s) %s)) (into-list)))" % (lst, x, gen(cc, d - 1))
    if k == "loop":
        i, a = c.fresh("i"), c.fresh("acc")
        cc = c.child()
        cc.vars += [i, a]
        c.feat("tail-loop")
        return "(let loop ((%s 0) (%s %s)) (if (< %s %d) (loop (+ %s 1) %s) %s))" % (
            i, a, small(c), i, r.choice([2, 3]), i, gen(cc, d - 1), a)
    raise AssertionError(k)


PROLOGUE = """(define tr '())
(define (note x) (set! tr (cons x tr)) x)
(define budget %d)
(define (again?) (if (> budget 0) (begin (set! budget (- budget 1)) #t) #f))
(define g1 #f)
(define g2 #f)
(define g3 #f)
(define bx (box #f))"""


def dying_form(c, rng, size):
    """A form that stores its continuation in a global slot and then dies with an uncaught error (first use).
    The error is raised either INSIDE the receiver of call/cc (the continuation's frame is still on the stack: an
    open mark at the time of the error) or after call/cc has returned."""
    g = rng.choice(SLOTS)
    k = c.fresh("k")
    fc = c.child(allow_reenter=False)
    inner = gen(fc, max(1, size - 2)) if rng.random() < 0.5 else lit(rng)
    tag = c.fresh("d")
    inside = rng.random() < 0.6
    if inside:
        c.feat("die-inside-receiver")
        y = rng.random()
        if y < 0.5:
            body = "(+ %s (fuse!))" % inner
        elif y < 0.75 and c.fns:
            body = "(%s (+ %s (fuse!)))" % (rng.choice(c.fns)[0], inner)
        else:
            body = wrap_winds(rng, "(+ %s (fuse!))" % inner, c.feats, tag + "r", n=rng.choice([1, 2]))
        core = "(call/cc (lambda (%s) (begin (set! %s %s) %s)))" % (k, g, k, body)
        fuse = ""
    else:
        c.feat("die-after-receiver-returned")
        core = "(call/cc (lambda (%s) (begin (set! %s %s) %s)))" % (k, g, k, inner)
        fuse = " (fuse!)"
    x = rng.random()
    c.feat("die-after-capture")
    if x < 0.25:
        return "(+ 1 %s%s)" % (core, fuse)
    if x < 0.4:
        return "(note (+ %s%s))" % (core, fuse)
    if x < 0.65:
        c.feat("die-inside-wind")
        return wrap_winds(rng, "(+ %s%s)" % (core, fuse), c.feats, tag, n=rng.choice([1, 1, 2, 3]))
    if x < 0.75:
        return "(let ((x %s)) (begin (note '%s)%s x))" % (core, tag, fuse)
    if x < 0.85 and c.fns:
        c.feat("die-inside-call")
        return "(%s (+ %s%s))" % (rng.choice(c.fns)[0], core, fuse)
    if x < 0.93:
        c.feat("die-handler-reraises")
        return "(call-with-exception-handler (lambda (e) (begin (note '%s) (error \"again\"))) (lambda () (+ %s%s)))" % (tag, core, fuse)
    # the continuation is captured inside a `before` thunk, the error comes from the body
    c.feat("die-capture-in-before-thunk")
    core = "(call/cc (lambda (%s) (begin (set! %s %s) %s)))" % (k, g, k, inner)
    return "(dynamic-wind (lambda () (begin (note '%s-in) %s)) (lambda () (+ 2 (fuse!))) (lambda () (note '%s-out)))" % (tag, core, tag)


def invoking_form(c, rng):
    """Invokes a stored continuation (if there is one) from the current evaluation."""
    g = rng.choice(SLOTS)
    v = lit(rng)
    call = "(if (procedure? %s) (%s %s) 0)" % (g, g, v)
    tag = c.fresh("i")
    x = rng.random()
    c.feat("invoke-stored-form")
    c.nre[0] += 1
    if x < 0.35:
        return call
    if x < 0.5:
        return "(+ 1 %s)" % call
    if x < 0.7:
        return wrap_winds(rng, "(+ 1 %s)" % call, c.feats, tag, n=rng.choice([1, 2]))
    if x < 0.8 and c.fns:
        return "(%s %s)" % (rng.choice(c.fns)[0], call)
    if x < 0.9:
        return "(call-with-exception-handler (lambda (e) (begin (note '%s) 0)) (lambda () (+ 1 %s)))" % (tag, call)
    return "(note (let ((x %s)) x))" % call


def gen_random(rng, size, feats, handler_errors=False, top_level_invoke=True, top_cweh=False, history=False):
    c = Ctx(rng, feats)
    c.allow_handler_err = handler_errors
    c.allow_top_cweh = top_cweh
    lines = [PROLOGUE % rng.choice([1, 2, 2, 3, 4])]
    # helper procedures (no re-entry of stored continuations inside: they may be called many times, but
    # captures / escapes / winds / errors are fine)
    for _ in range(rng.choice([0, 1, 2])):
        name = c.fresh("f")
        a = c.fresh("a")
        fc = c.child(in_proc=True)
        fc.vars = [a]
        body = gen(fc, size - 1)
        lines.append("(define (%s %s) %s)" % (name, a, body))
        c.fns.append((name, 1))
    if rng.random() < 0.3:
        # a tail-recursive helper whose loop body captures
        name = c.fresh("lp")
        fc = c.child(in_proc=True)
        fc.vars = ["n", "acc"]
        lines.append("(define (%s n acc) (if (<= n 0) acc (%s (- n 1) %s)))" % (name, name, gen(fc, size - 1)))
        c.feat("tail-recursive-helper")
    nre_helpers = c.nre[0]       # a helper that invokes a stored continuation: no form that calls it may be a definition
    if history:
        lines.append(HIST_PROLOGUE % rng.choice([1, 1, 2]))
        c.feat("history")
    nforms = rng.choice([1, 2, 2, 3, 4]) if not history else rng.choice([3, 4, 5, 6])
    died = died_last = False
    for i in range(nforms):
        if history:
            # piece boundary: always after the definitions, then with probability 0.7
            if i == 0 or died_last or rng.random() < 0.7:
                lines.append(PIECE)
            died_last = False
            y = rng.random()
            if i < nforms - 1 and y < (0.6 if not died else 0.2):
                lines.append(dying_form(c, rng, size))
                died = died_last = True      # the rest of this piece would never run
                continue
            if died and y > 0.45:
                lines.append(invoking_form(c, rng))
                continue
        fcx = c.child()
        if not top_level_invoke and i > 0:
            fcx.allow_reenter = False
        nre0 = c.nre[0]
        e = gen(fcx, size)
        # a form that invokes a stored continuation may never finish (control goes on after ANOTHER form): its
        # value must not be needed later, so it is not a definition
        # (nor in a history: a form that dies leaves the name undefined for the later pieces)
        if rng.random() < 0.3 and c.nre[0] == nre0 and nre_helpers == 0 and not history:
            v = c.fresh("v")
            lines.append("(define %s %s)" % (v, e))
            c.vars.append(v)
            c.feat("capture-in-define-form")
        else:
            lines.append(e)
    if nforms > 1:
        c.feat("multi-form")
    if history and (died_last or rng.random() < 0.7):
        lines.append(PIECE)
    lines.append("(reverse tr)")
    return "\n".join(lines)


# ---------------------------------------------------------------------------------------------------------
# Templates
# ---------------------------------------------------------------------------------------------------------

def wrap_winds(rng, body, feats, tag, n=None):
    n = rng.choice([0, 1, 2, 3]) if n is None else n
    for i in range(n):
        body = "(dynamic-wind (lambda () (note '%s-in%d)) (lambda () %s) (lambda () (note '%s-out%d)))" % (
            tag, i, body, tag, i)
    if n:
        feats.add("template-wind-%d" % n)
    return body


def t_generator(rng, feats):
    """A tree walker turned into a generator by re-entry: two continuations (return to the consumer / resume
    the walk)."""
    feats.add("tmpl-generator")
    items = [rng.choice([1, 2, 3, 5, 8]) for _ in range(rng.choice([2, 3, 4]))]
    tree = "(list %s (list %s) %s)" % (items[0], " ".join(map(str, items[1:])), rng.choice([4, 6]))
    visit = wrap_winds(rng, "(walk t)", feats, "gen")
    n = rng.choice([2, 3, 5, 7])
    return """(define tr '())
(define (note x) (set! tr (cons x tr)) x)
(define (make-gen t)
  (define return #f)
  (define resume #f)
  (define (walk t)
    (cond [(null? t) 0]
          [(pair? t) (begin (walk (car t)) (walk (cdr t)))]
          [else (call/cc (lambda (k) (set! resume k) (return t)))]))
  (lambda ()
    (call/cc (lambda (r)
      (set! return r)
      (if resume
          (resume 0)
          (begin %s (return 'done)))))))
(define g (make-gen %s))
(define (take n) (if (= n 0) '() (let ((v (g))) (note v) (cons v (take (- n 1))))))
(take %d)
(reverse tr)""" % (visit, tree, n)


def t_coroutines(rng, feats):
    feats.add("tmpl-coroutines")
    n1, n2 = rng.choice([2, 3]), rng.choice([2, 3])
    w = rng.random() < 0.5
    body_a = "(note (list 'a i))"
    if w:
        feats.add("template-wind-1")
        body_a = "(dynamic-wind (lambda () (note 'a-in)) (lambda () (note (list 'a i)) (yield)) (lambda () (note 'a-out)))"
    else:
        body_a = "(begin (note (list 'a i)) (yield))"
    return """(define tr '())
(define (note x) (set! tr (cons x tr)) x)
(define q '())
(define (enq! k) (set! q (append q (list k))))
(define (deq!) (let ((k (car q))) (set! q (cdr q)) k))
(define done #f)
(define (yield) (call/cc (lambda (k) (enq! k) ((deq!) 0))))
(define (spawn thunk) (enq! (lambda (ignored) (thunk) (finish))))
(define (finish) (if (null? q) (done 'all-done) ((deq!) 0)))
(define (run)
  (call/cc (lambda (k) (set! done k) (finish))))
(spawn (lambda () (let loop ((i 0)) (when (< i %d) %s (loop (+ i 1))))))
(spawn (lambda () (let loop ((i 0)) (when (< i %d) (note (list 'b i)) (yield) (loop (+ i 1))))))
(run)
(reverse tr)""" % (n1, body_a, n2)


def t_amb(rng, feats):
    feats.add("tmpl-amb")
    xs = sorted(rng.sample([1, 2, 3, 4, 5, 6, 7], rng.choice([3, 4])))
    ys = sorted(rng.sample([1, 2, 3, 4, 5, 6, 7], rng.choice([2, 3])))
    target = rng.choice([5, 7, 8, 9, 20])
    inner = "(let ((x (amb (list %s)))) (note (list 'x x)) (let ((y (amb (list %s)))) (note (list 'y y)) (if (= (+ x y) %d) (list x y) (fail))))" % (
        " ".join(map(str, xs)), " ".join(map(str, ys)), target)
    inner = wrap_winds(rng, inner, feats, "amb", rng.choice([0, 0, 1, 2]))
    return """(define tr '())
(define (note x) (set! tr (cons x tr)) x)
(define stack '())
(define top #f)
(define (fail) (if (null? stack) (top 'no-solution) (let ((k (car stack))) (set! stack (cdr stack)) (k 'retry))))
(define (amb choices)
  (call/cc (lambda (ret)
    (for-each (lambda (c) (call/cc (lambda (next) (set! stack (cons next stack)) (ret c)))) choices)
    (fail))))
(define (solve) (call/cc (lambda (k) (set! top k) %s)))
(solve)
(reverse tr)""" % inner


def t_with_lock(rng, feats):
    """Two extents entered through the same helper (D12): escape from one into a continuation of the other."""
    feats.add("tmpl-with-lock")
    nest = rng.random() < 0.4
    second = "(with-lock (lambda () (note 'b) (set! n (+ n 1)) (if (< n %d) (k1 n) 'end)))" % rng.choice([2, 3])
    if nest:
        second = "(with-lock (lambda () (note 'outer) %s))" % second
    return """(define tr '())
(define (note x) (set! tr (cons x tr)) x)
(define (lock) (note 'lock))
(define (unlock) (note 'unlock))
(define (with-lock t) (dynamic-wind lock t unlock))
(define k1 #f)
(define n 0)
(define (go)
  (with-lock (lambda () (call/cc (lambda (c) (set! k1 c))) (note 'a)))
  %s)
(go)
(reverse tr)""" % second


def t_reset_shift(rng, feats):
    feats.add("tmpl-reset-shift")
    r = rng
    def e(d):
        x = r.random()
        if d == 0 or x < 0.2:
            return lit(r)
        if x < 0.45:
            return "(+ %s %s)" % (e(d - 1), e(d - 1))
        if x < 0.6:
            return "(begin (note '%s) %s)" % ("n%d" % r.randint(0, 99), e(d - 1))
        if x < 0.8:
            # shift with k used 0..2 times
            uses = r.choice([0, 1, 1, 2])
            kname = "k%d" % r.randint(0, 99)
            if uses == 0:
                body = e(d - 1)
            elif uses == 1:
                body = "(+ %s (%s %s))" % (lit(r), kname, e(d - 1))
            else:
                body = "(%s (%s %s))" % (kname, kname, e(d - 1))
            feats.add("shift-uses-%d" % uses)
            return "(shift %s (begin (note 's) %s))" % (kname, body)
        if x < 0.9:
            return "(reset %s)" % e(d - 1)
        return "(note %s)" % e(d - 1)
    forms = ["(+ 1 (reset %s))" % e(3) for _ in range(r.choice([1, 2, 3]))]
    if r.random() < 0.4:
        feats.add("shift-stored")
        forms.append("(define kk #f)\n(+ 1 (reset (+ 10 (shift k (begin (set! kk k) 0)))))\n(kk %s)\n(+ 2 (kk (kk %s)))" % (lit(r), lit(r)))
    return "(define tr '())\n(define (note x) (set! tr (cons x tr)) x)\n" + "\n".join(forms) + "\n(reverse tr)"


def t_handler_nesting(rng, feats):
    """Errors at each position of nested winds and handlers; handlers that finish normally."""
    feats.add("tmpl-handler-nesting")
    r = rng
    depth = r.choice([1, 2, 3, 4])
    pos = r.randint(0, depth)
    body = "(begin (note 'body) %s)" % ('(error "boom")' if pos == depth else "1")
    for i in reversed(range(depth)):
        kind = r.choice(["wind", "wind", "handler", "cweh"])
        pre = '(error "boom-%d")' % i if pos == i and kind != "wind" else "0"
        if kind == "wind":
            body = "(dynamic-wind (lambda () (note 'in%d)) (lambda () (+ %s %s)) (lambda () (note 'out%d)))" % (i, pre, body, i)
        elif kind == "handler":
            body = "(+ 100 (with-handler (lambda (e) (note 'h%d) %d) (+ %s %s)))" % (i, i, pre, body)
        else:
            body = "(+ 100 (call-with-exception-handler (lambda (e) (note 'h%d) %d) (lambda () (+ %s %s))))" % (i, i, pre, body)
    return """(define tr '())
(define (note x) (set! tr (cons x tr)) x)
(define (go) (with-handler (lambda (e) (note 'top) -1) %s))
(go)
(reverse tr)""" % body


def t_native_callback(rng, feats):
    """Handlers and winds installed INSIDE the callback of a native higher-order built-in.

    The callbacks of `transduce` (stages `mapping` / `filtering`, reducers `into-for-each` / `into-reducer`) are
    run by Rust code in a nested interpreter instance (`call_with_instructions_and_reset_state`), which has its
    OWN error-unwinding loop and handler search, separate from the one of the top-level evaluation.  So every
    obligation of `handler_nearest` / `wind_normal_and_error_once` has a second site in the real code that is
    reached only by a handler frame pushed inside such a callback.  The family: a random nest of
    call-with-exception-handler / with-handler / dynamic-wind / helper calls / further transduce levels inside
    the callback, errors raised in bodies AND in handlers (a handler that raises the error again, raises a new
    one, fails only the first times it runs, or returns), one or two handlers around the whole `transduce`.
    No continuation is captured by the program text (that is the class of finding K08e); names avoid the
    continuation-variable pattern of that class predicate."""
    feats.add("tmpl-native-callback")
    r = rng
    cnt = [0]

    def fresh(p):
        cnt[0] += 1
        return "%s%d" % (p, cnt[0])

    helpers = []

    def err(x):
        k = r.choice(["error", "error", "car", "vecref", "plus"])
        feats.add("nc-err:" + k)
        if k == "error":
            return '(error "%s" %s)' % (fresh("e"), x)
        if k == "car":
            return "(car %s)" % x
        if k == "vecref":
            return "(vector-ref (vector 1 2) 7)"
        return "(+ 1 'a)"

    def hbody(d, x, depth):
        """Body of a handler `(lambda (e) …)`."""
        y = r.random()
        if y < 0.22:
            feats.add("nc-handler-returns")
            return lit(r)
        if y < 0.45:
            feats.add("nc-handler-reraises")
            return "(raise-error e)"
        if y < 0.62:
            feats.add("nc-handler-raises-new")
            return err(x)
        if y < 0.80:
            feats.add("nc-handler-fails-first-times")
            return "(if (again?) %s %s)" % (err(x), lit(r))
        if y < 0.88 or d <= 0:
            return "(begin (note '%s) (raise-error e))" % fresh("r")
        feats.add("nc-control-inside-handler")
        return body(d - 1, x, depth)

    def body(d, x, depth):
        """An integer-valued expression (unless an error leaves it); `x` = the callback's variable."""
        y = r.random()
        if d <= 0:
            return err(x) if y < 0.45 else ("(note (+ %s %s))" % (x, lit(r)) if y < 0.8 else x)
        if y < 0.08:
            return "(note (+ %s %s))" % (x, lit(r))
        if y < 0.20:
            return err(x)
        if y < 0.45:
            feats.add("nc-cweh")
            t = fresh("h")
            return "(call-with-exception-handler (lambda (e) (note '%s) %s) (lambda () %s))" % (
                t, hbody(d - 1, x, depth), body(d - 1, x, depth))
        if y < 0.52:
            feats.add("nc-with-handler")
            return "(with-handler (lambda (e) (note '%s) %s) %s)" % (fresh("h"), lit(r), body(d - 1, x, depth))
        if y < 0.72:
            feats.add("nc-wind")
            t = fresh("w")
            out = "(note 'out-%s)" % t
            if r.random() < 0.12:
                feats.add("nc-after-thunk-raises")
                out = "(begin (note 'out-%s) (if (again?) %s 0))" % (t, err(x))
            return "(dynamic-wind (lambda () (note 'in-%s)) (lambda () %s) (lambda () %s))" % (t, body(d - 1, x, depth), out)
        if y < 0.80:
            return "(begin (note '%s) %s)" % (fresh("s"), body(d - 1, x, depth))
        if y < 0.87:
            return "(+ %s %s)" % (lit(r), body(d - 1, x, depth))
        if y < 0.93:
            feats.add("nc-helper-call")
            name, a = fresh("nc"), fresh("a")
            helpers.append("(define (%s %s) %s)" % (name, a, body(d - 1, a, depth)))
            return "(%s (+ %s %s))" % (name, x, lit(r))
        if depth < 2:
            feats.add("nc-nested-transduce")
            return pipeline(d - 1, depth + 1)
        return "(note %s)" % x

    def pipeline(d, depth):
        lst = "(list %s)" % " ".join(str(r.choice([1, 2, 3, 4, 5, 7])) for _ in range(r.choice([1, 2, 2, 3])))
        x = fresh("x")
        shape = r.choice(["map", "map", "map", "filter", "map-filter", "for-each", "reduce"])
        feats.add("nc-shape-" + shape)
        if shape == "map":
            return "(apply + (transduce %s (mapping (lambda (%s) %s)) (into-list)))" % (lst, x, body(d, x, depth))
        if shape == "filter":
            return "(length (transduce %s (filtering (lambda (%s) (< %s 4))) (into-list)))" % (lst, x, body(d, x, depth))
        if shape == "map-filter":
            z = fresh("x")
            return "(apply + (transduce %s (mapping (lambda (%s) %s)) (filtering (lambda (%s) (< %s 9))) (into-list)))" % (
                lst, x, body(d, x, depth), z, body(max(0, d - 1), z, depth))
        if shape == "for-each":
            return "(begin (transduce %s (into-for-each (lambda (%s) %s))) %s)" % (lst, x, body(d, x, depth), lit(r))
        a = fresh("acc")
        return "(transduce %s (into-reducer (lambda (%s %s) (+ %s %s)) %s))" % (lst, a, x, a, body(d, x, depth), lit(r))

    core = pipeline(r.choice([2, 3, 3, 4]), 1)
    y = r.random()
    if y < 0.45:
        feats.add("nc-outer-with-handler")
        core = "(with-handler (lambda (e) (note 'top) -1) (+ 100 %s))" % core
    elif y < 0.8:
        feats.add("nc-outer-cweh")
        core = "(call-with-exception-handler (lambda (e) (note 'top) -1) (lambda () (+ 100 %s)))" % core
    else:
        feats.add("nc-outer-two-handlers")
        core = ("(call-with-exception-handler (lambda (e) (note 'top) -1) (lambda () (+ 100 (call-with-exception-handler "
                "(lambda (e) (note 'mid) (raise-error e)) (lambda () (+ 10 %s))))))" % core)
    lines = ["(define tr '())", "(define (note x) (set! tr (cons x tr)) x)", "(define budget %d)" % r.choice([1, 2, 3, 4]),
             "(define (again?) (if (> budget 0) (begin (set! budget (- budget 1)) #t) #f))"]
    lines += helpers
    lines += ["(define (go) %s)" % core, "(go)"]
    if r.random() < 0.3:
        lines.append("(go)")        # a second run: what the first one left behind (budget used up, handlers uninstalled?)
    lines.append("(reverse tr)")
    return "\n".join(lines)


TEMPLATES = [t_generator, t_coroutines, t_amb, t_with_lock, t_reset_shift, t_handler_nesting]


def gen_program(rng, size=3, handler_errors=None):
    """Returns (program text, set of features)."""
    feats = set()
    x = rng.random()
    if handler_errors is None:
        # errors raised inside with-handler handlers are the class of findings K08b/K08c: a third of the programs
        handler_errors = rng.random() < 0.33
    if x < 0.22:
        t = rng.choice(TEMPLATES)
        return t(rng, feats), feats
    if x < 0.30:
        return t_native_callback(rng, feats), feats
    if x < 0.45:
        return gen_random(rng, size, feats, handler_errors=False, history=True), feats
    # 4%: programs of the class of finding K08d (call-with-exception-handler directly in a top-level form)
    return gen_random(rng, size, feats, handler_errors=handler_errors, top_cweh=(x > 0.96)), feats


# ---------------------------------------------------------------------------------------------------------
# Shrinker (delta debugging on the s-expression tree): used by the check to minimise a disagreement
# ---------------------------------------------------------------------------------------------------------

def _tokenize(s):
    out, i, n = [], 0, len(s)
    while i < n:
        ch = s[i]
        if ch.isspace():
            i += 1
        elif ch == ";":
            if s.startswith(PIECE, i) and (i == 0 or s[i - 1] == "\n"):
                out.append(PIECE)
            while i < n and s[i] != "\n":
                i += 1
        elif ch in "()[]":
            out.append("(" if ch in "([" else ")")
            i += 1
        elif ch == "'":
            out.append("'")
            i += 1
        elif ch == '"':
            j = i + 1
            while j < n and s[j] != '"':
                j += 2 if s[j] == "\\" else 1
            out.append(s[i:j + 1])
            i = j + 1
        else:
            j = i
            while j < n and not s[j].isspace() and s[j] not in "()[]'\";":
                j += 1
            out.append(s[i:j])
            i = j
    return out


def parse_forms(s):
    toks = _tokenize(s)
    pos = [0]

    def rd():
        t = toks[pos[0]]
        pos[0] += 1
        if t == "(":
            xs = []
            while toks[pos[0]] != ")":
                xs.append(rd())
            pos[0] += 1
            return xs
        if t == "'":
            return ["quote", rd()]
        return t
    forms = []
    while pos[0] < len(toks):
        forms.append(rd())
    return forms


def unparse(x):
    if isinstance(x, list):
        if len(x) == 2 and x[0] == "quote":
            return "'" + unparse(x[1])
        return "(" + " ".join(unparse(y) for y in x) + ")"
    return x


def _candidates(x):
    """Smaller replacements of the expression x."""
    if not isinstance(x, list) or not x or x[0] == "quote":
        return
    yield "0"
    for y in x[1:]:
        if isinstance(y, list) and y and y[0] not in ("quote",) and not (x[0] in ("lambda", "define", "let", "let*") and y is x[1]):
            yield y
    if x[0] == "lambda" and len(x) > 2:
        return
    if len(x) > 2 and x[0] in ("begin", "+", "-", "*", "list"):
        for i in range(1, len(x)):
            yield x[:i] + x[i + 1:]


def shrink(text, still_fails, max_tests=400):
    """Greedy reduction of a program; `still_fails(text)` must be true for the result."""
    forms = parse_forms(text)
    tests = [0]

    def ok(fs):
        tests[0] += 1
        if tests[0] > max_tests:
            return False
        try:
            return still_fails("\n".join(unparse(f) for f in fs))
        except Exception:
            return False
    changed = True
    while changed and tests[0] <= max_tests:
        changed = False
        # drop whole forms (never the last one, the observation)
        i = 0
        while i < len(forms) - 1:
            cand = forms[:i] + forms[i + 1:]
            if ok(cand):
                forms = cand
                changed = True
            else:
                i += 1
        # replace sub-expressions
        def walk(path_get, path_set, x):
            nonlocal forms, changed
            if not isinstance(x, list):
                return
            for c in _candidates(x):
                old = path_get()
                path_set(c)
                if ok(forms):
                    changed = True
                    walk(path_get, path_set, c)
                    return
                path_set(old)
            for j in range(len(x)):
                if isinstance(x[j], list):
                    walk(lambda x=x, j=j: x[j], lambda v, x=x, j=j: x.__setitem__(j, v), x[j])
        for i in range(len(forms)):
            walk(lambda i=i: forms[i], lambda v, i=i: forms.__setitem__(i, v), forms[i])
    return "\n".join(unparse(f) for f in forms)
