"""Type-directed generator of terminating Steel programs (shared by C01, C02, C08, C09).

Everything is derived from one `random.Random`.  Programs use: integers, booleans, lists, vectors, boxes,
strings/symbols as data; global and internal defines, lambda with fixed and rest parameters, let / let* /
letrec / named let, if / cond / and / or / when / unless, set! on locals, captured variables and globals,
closures (counters, adders, accumulators), shadowing, higher-order library procedures (map filter foldl
for-each apply), tail and non-tail recursion with explicit decreasing counters, errors raised in dead code,
errors raised and handled with with-handler, display / write output.
"""

INT, BOOL, LST = "int", "bool", "list"


class Ctx:
    def __init__(self, rng):
        self.rng = rng
        self.vars = {INT: [], BOOL: [], LST: []}      # names in scope
        self.mut = []                                  # int variables that may be set!
        self.fns = []                                  # (name, arity, has_rest) int -> int functions
        self.counter = 0
        self.features = set()

    def fresh(self, p):
        self.counter += 1
        return "%s%d" % (p, self.counter)

    def child(self):
        c = Ctx(self.rng)
        c.vars = {k: list(v) for k, v in self.vars.items()}
        c.mut = list(self.mut)
        c.fns = list(self.fns)
        c.counter = self.counter
        c.features = self.features
        return c


def lit(rng):
    return str(rng.choice([0, 1, 2, 3, 5, 7, 10, -1, -4, 12, 100]))


def gen_int(c, d):
    r = c.rng
    opts = ["lit"]
    if c.vars[INT]:
        opts += ["var"] * 3
    if d > 0:
        opts += ["arith"] * 3 + ["if", "let", "call", "len", "car", "begin", "fold", "lam", "cond", "letstar", "apply"]
        if c.mut:
            opts += ["setget"]
        opts += ["handler", "dead", "vec", "box", "named"]
    k = r.choice(opts)
    if k == "lit":
        return lit(r)
    if k == "var":
        return r.choice(c.vars[INT])
    if k == "arith":
        op = r.choice(["+", "-", "*", "+", "-", "min", "max"])
        n = r.choice([2, 2, 2, 3]) if op in "+*" else 2
        return "(%s %s)" % (op, " ".join(gen_int(c, d - 1) for _ in range(n)))
    if k == "if":
        return "(if %s %s %s)" % (gen_bool(c, d - 1), gen_int(c, d - 1), gen_int(c, d - 1))
    if k == "cond":
        c.features.add("cond")
        return "(cond [%s %s] [%s %s] [else %s])" % (gen_bool(c, d - 1), gen_int(c, d - 1), gen_bool(c, d - 1),
                                                     gen_int(c, d - 1), gen_int(c, d - 1))
    if k == "let":
        x = c.fresh("x")
        shadow = c.vars[INT] and r.random() < 0.25
        if shadow:
            x = r.choice(c.vars[INT])
            c.features.add("shadow")
        e = gen_int(c, d - 1)
        cc = c.child()
        cc.counter = c.counter
        if x not in cc.vars[INT]:
            cc.vars[INT].append(x)
        if r.random() < 0.4:
            cc.mut.append(x)
        elif x in cc.mut:
            cc.mut.remove(x)
        body = gen_int(cc, d - 1)
        c.counter = cc.counter
        return "(let ((%s %s)) %s)" % (x, e, body)
    if k == "letstar":
        x, y = c.fresh("x"), c.fresh("y")
        e1 = gen_int(c, d - 1)
        cc = c.child(); cc.vars[INT].append(x)
        e2 = gen_int(cc, d - 1)
        cc.vars[INT].append(y)
        body = gen_int(cc, d - 1)
        c.counter = cc.counter
        return "(let* ((%s %s) (%s %s)) %s)" % (x, e1, y, e2, body)
    if k == "call" and c.fns:
        name, ar, rest = r.choice(c.fns)
        n = ar + (r.randint(0, 2) if rest else 0)
        c.features.add("call")
        return "(%s %s)" % (name, " ".join(gen_int(c, d - 1) for _ in range(n))) if n else "(%s)" % name
    if k == "apply" and c.fns:
        name, ar, rest = r.choice(c.fns)
        n = ar + (r.randint(0, 2) if rest else 0)
        c.features.add("apply")
        return "(apply %s (list %s))" % (name, " ".join(gen_int(c, d - 1) for _ in range(n)))
    if k == "len":
        return "(length %s)" % gen_list(c, d - 1)
    if k == "car":
        l = gen_list(c, d - 1)
        return "(let ((l %s)) (if (null? l) %s (car l)))" % (l, lit(r))
    if k == "begin":
        c.features.add("output")
        return "(begin (display %s) %s)" % (gen_int(c, d - 1), gen_int(c, d - 1))
    if k == "fold":
        c.features.add("hof")
        return "(foldl (lambda (a b) (+ a b)) %s %s)" % (gen_int(c, d - 1), gen_list(c, d - 1))
    if k == "lam":
        x = c.fresh("p")
        cc = c.child(); cc.vars[INT].append(x)
        body = gen_int(cc, d - 1)
        c.counter = cc.counter
        c.features.add("lambda")
        return "((lambda (%s) %s) %s)" % (x, body, gen_int(c, d - 1))
    if k == "setget" and c.mut:
        x = r.choice(c.mut)
        c.features.add("set!")
        return "(begin (set! %s %s) %s)" % (x, gen_int(c, d - 1), x)
    if k == "handler":
        c.features.add("handler")
        bad = r.choice(["(car '())", "(error \"boom\" 1)", "(vector-ref (vector 1 2) 5)", "(+ 1 'a)"])
        return "(with-handler (lambda (e) %s) (+ 1 %s))" % (gen_int(c, d - 1), bad)
    if k == "dead":
        c.features.add("dead-error")
        bad = r.choice(["(car '())", "(error \"never\")", "(quotient 1 0)", "(vector-ref (vector) 0)"])
        return "(if #false %s %s)" % (bad, gen_int(c, d - 1)) if r.random() < 0.5 else \
               "(if (< 1 2) %s %s)" % (gen_int(c, d - 1), bad)
    if k == "vec":
        c.features.add("vector")
        v = c.fresh("v")
        n = r.randint(1, 4)
        i = r.randrange(n)
        return "(let ((%s (make-vector %d %s))) (vector-set! %s %d %s) (+ (vector-ref %s %d) (vector-length %s)))" % (
            v, n, lit(r), v, i, gen_int(c, d - 1), v, i, v)
    if k == "box":
        c.features.add("box")
        b = c.fresh("b")
        return "(let ((%s (box %s))) (set-box! %s (+ (unbox %s) %s)) (unbox %s))" % (b, gen_int(c, d - 1), b, b, lit(r), b)
    if k == "named":
        c.features.add("named-let")
        i, acc = c.fresh("i"), c.fresh("acc")
        cc = c.child(); cc.vars[INT] += [i, acc]
        stepe = gen_int(cc, max(0, d - 2))
        c.counter = cc.counter
        return "(let loop ((%s %d) (%s %s)) (if (<= %s 0) %s (loop (- %s 1) (+ %s %s))))" % (
            i, r.randint(0, 5), acc, lit(r), i, acc, i, acc, stepe)
    return lit(r)


def gen_bool(c, d):
    r = c.rng
    opts = ["lit", "cmp", "cmp"]
    if d > 0:
        opts += ["not", "and", "or", "null", "pred", "constfold"]
    k = r.choice(opts)
    if k == "constfold":
        # conditions that the constant evaluator can reduce completely (it leaves a quoted datum behind): both
        # truth values, through or / and / let / lambda application / quote / arithmetic on literals
        c.features.add("constant-condition")
        return r.choice([
            "(or #false #false)", "(or #false (or #false #false))", "(and #true #false)", "(and #true (or #false #true))",
            "(let ((z #false)) z)", "(let ((z #true)) (if z #false z))", "((lambda (z) z) #false)", "(quote #false)",
            "(quote #true)", "(let ((z 1)) (< z 0))", "(not (or #false #true))", "(or (and #true #false) (< 2 1))",
            "(let ((a #false) (b #false)) (or a b))", "(let ((a #true) (b #false)) (and a b))", "(null? (quote (1)))",
            "(null? (list))", "(equal? (quote (1 2)) (list 1 2))", "(let ((z (quote ()))) (pair? z))"])
    if k == "lit":
        return r.choice(["#true", "#false"])
    if k == "cmp":
        return "(%s %s %s)" % (r.choice(["<", ">", "=", "<=", ">="]), gen_int(c, d - 1), gen_int(c, d - 1))
    if k == "not":
        return "(not %s)" % gen_bool(c, d - 1)
    if k == "and":
        return "(and %s %s)" % (gen_bool(c, d - 1), gen_bool(c, d - 1))
    if k == "or":
        return "(or %s %s)" % (gen_bool(c, d - 1), gen_bool(c, d - 1))
    if k == "null":
        return "(null? %s)" % gen_list(c, d - 1)
    return "(%s %s)" % (r.choice(["even?", "odd?", "zero?", "positive?", "negative?"]), gen_int(c, d - 1))


def gen_list(c, d):
    r = c.rng
    opts = ["lit", "list"]
    if c.vars[LST]:
        opts += ["var"] * 2
    if d > 0:
        opts += ["cons", "map", "filter", "append", "reverse", "cdr", "range", "if"]
    k = r.choice(opts)
    if k == "lit":
        return "'(%s)" % " ".join(lit(r) for _ in range(r.randint(0, 4)))
    if k == "var":
        return r.choice(c.vars[LST])
    if k == "list":
        return "(list %s)" % " ".join(gen_int(c, d - 1) for _ in range(r.randint(0, 3)))
    if k == "cons":
        return "(cons %s %s)" % (gen_int(c, d - 1), gen_list(c, d - 1))
    if k == "map":
        c.features.add("hof")
        x = c.fresh("m")
        cc = c.child(); cc.vars[INT].append(x)
        body = gen_int(cc, d - 1)
        c.counter = cc.counter
        return "(map (lambda (%s) %s) %s)" % (x, body, gen_list(c, d - 1))
    if k == "filter":
        c.features.add("hof")
        x = c.fresh("m")
        cc = c.child(); cc.vars[INT].append(x)
        body = gen_bool(cc, d - 1)
        c.counter = cc.counter
        return "(filter (lambda (%s) %s) %s)" % (x, body, gen_list(c, d - 1))
    if k == "append":
        return "(append %s %s)" % (gen_list(c, d - 1), gen_list(c, d - 1))
    if k == "reverse":
        return "(reverse %s)" % gen_list(c, d - 1)
    if k == "cdr":
        return "(let ((l %s)) (if (null? l) l (cdr l)))" % gen_list(c, d - 1)
    if k == "range":
        return "(range 0 %d)" % r.randint(0, 5)
    return "(if %s %s %s)" % (gen_bool(c, d - 1), gen_list(c, d - 1), gen_list(c, d - 1))


def gen_program(rng, size=3):
    """Returns (source text, set of features)."""
    c = Ctx(rng)
    forms = []
    # globals
    for _ in range(rng.randint(1, 3)):
        g = c.fresh("g")
        forms.append("(define %s %s)" % (g, gen_int(c, 1)))
        c.vars[INT].append(g)
        if rng.random() < 0.5:
            c.mut.append(g)
    if rng.random() < 0.7:
        g = c.fresh("gl")
        forms.append("(define %s %s)" % (g, gen_list(c, 1)))
        c.vars[LST].append(g)
    # functions
    for _ in range(rng.randint(1, 4)):
        f = c.fresh("f")
        ar = rng.randint(0, 3)
        rest = rng.random() < 0.3
        ps = [c.fresh("a") for _ in range(ar)]
        cc = c.child(); cc.vars[INT] += ps
        cc.mut = [m for m in cc.mut]
        header = "(%s %s%s)" % (f, " ".join(ps), (" . " + "rs") if rest else "")
        if rest:
            cc.vars[LST].append("rs")
            c.features.add("rest-args")
        kind = rng.choice(["plain", "plain", "rec", "tailrec", "internal", "internal-seq", "closure"])
        if kind == "rec" and ar >= 1:
            c.features.add("recursion")
            n = ps[0]
            body = "(if (<= %s 0) %s (+ %s (%s %s)))" % (n, gen_int(cc, size - 1), gen_int(cc, size - 2),
                                                         f, " ".join(["(- %s 1)" % n] + ps[1:]))
            if rest:
                body = "(if (<= %s 0) %s (+ %s (apply %s (cons (- %s 1) (append (list %s) rs)))))" % (
                    n, gen_int(cc, size - 1), gen_int(cc, size - 2), f, n, " ".join(ps[1:]))
        elif kind == "tailrec" and ar >= 2:
            c.features.add("tail-call")
            n, acc = ps[0], ps[1]
            body = "(if (<= %s 0) %s (%s (- %s 1) (+ %s %s)%s))" % (n, acc, f, n, acc, gen_int(cc, size - 2),
                                                                   "".join(" " + p for p in ps[2:]))
        elif kind == "internal":
            c.features.add("internal-define")
            h = c.fresh("h")
            hp = c.fresh("q")
            ch = cc.child(); ch.vars[INT].append(hp)
            hb = gen_int(ch, size - 1)
            cc.counter = ch.counter
            cc.fns.append((h, 1, False))
            body = "(define (%s %s) %s) %s" % (h, hp, hb, gen_int(cc, size - 1))
        elif kind == "internal-seq":
            # internal definitions are evaluated in the order written (letrec*): an internal procedure that assigns a
            # literal-initialised internal variable, statements that run it, later definitions that READ the variable
            # (every later right-hand side mentions an internal name, which keeps the program outside the class of the
            # open finding K01e: right-hand sides without internal names are hoisted in front of the statements)
            c.features.add("internal-define-sequence")
            h, v, z, w = cc.fresh("h"), cc.fresh("cnt"), cc.fresh("z"), cc.fresh("iw")
            hp = cc.fresh("q")
            init = rng.randint(-3, 9)
            k1, k2 = rng.randint(1, 5), rng.randint(1, 5)
            stmt = rng.choice(["(%s %d)" % (h, k1), "(set! %s (+ %s %d))" % (v, v, k1),
                               "(for-each %s (list %d %d))" % (h, k1, k2), "(when (< %s 100) (%s %d))" % (v, h, k2)])
            stmt2 = rng.choice(["", " (%s %d)" % (h, k2), " (set! %s (* %s 2))" % (v, v)])
            body = ("(define (%s %s) (set! %s (+ %s %s))) (define %s %d) %s (define %s (+ %s %s))%s (define %s (list %s %s)) "
                    "(+ (car %s) (car (cdr %s)) %s)") % (h, hp, v, v, hp, v, init, stmt, z, v, gen_int(cc, 1), stmt2, w, z, v, w, w, v)
        elif kind == "closure":
            c.features.add("closure-mutation")
            cnt = c.fresh("cnt")
            init = gen_int(cc, 1)
            cc.vars[INT].append(cnt); cc.mut.append(cnt)
            body = "(let ((%s %s)) (let ((inc (lambda (d) (set! %s (+ %s d)) %s))) (inc 1) (inc %s) (+ %s (inc 2))))" % (
                cnt, init, cnt, cnt, cnt, gen_int(cc, size - 2), cnt)
        else:
            body = gen_int(cc, size)
        c.counter = cc.counter
        forms.append("(define %s %s)" % (header, body))
        # a recursive function's first argument must stay small: only expose it through a wrapper
        if kind in ("rec", "tailrec") and ar >= 1:
            w = c.fresh("w")
            others = [c.fresh("a") for _ in range(ar - 1)]
            forms.append("(define (%s %s) (%s %d %s))" % (w, " ".join(others), f, rng.randint(0, 6), " ".join(others)))
            c.fns.append((w, ar - 1, False))
        else:
            c.fns.append((f, ar, rest))
    # observations
    for _ in range(rng.randint(2, 5)):
        t = rng.choice([INT, INT, INT, BOOL, LST])
        e = {INT: gen_int, BOOL: gen_bool, LST: gen_list}[t](c, size)
        if rng.random() < 0.3:
            forms.append("(displayln %s)" % e)
        else:
            forms.append(e)
    if c.mut and rng.random() < 0.5:
        x = rng.choice([m for m in c.mut if m.startswith("g")] or c.mut[:1])
        if x.startswith("g"):
            forms.append("(set! %s %s)" % (x, gen_int(c, 1)))
            forms.append(x)
    # a global procedure assigned a procedure with another parameter list: later calls with the ORIGINAL operand count
    # must see the new procedure (rest parameter collected, arity mismatch reported), also from procedures compiled
    # before the assignment
    fixed = [(f, ar) for (f, ar, rest) in c.fns if not rest and ar >= 1 and not f.startswith("h")]
    if fixed and rng.random() < 0.35:
        c.features.add("procedure-reassigned")
        f, ar = rng.choice(fixed)
        unary = [(g, a) for (g, a) in fixed if a == 1]
        if unary and rng.random() < 0.6:     # one operand = the arity of a rest-only lambda: the case an unchecked call gets wrong
            f, ar = rng.choice(unary)
        caller = c.fresh("k")
        args = " ".join(str(rng.randint(1, 9)) for _ in range(ar))
        forms.append("(define (%s) (%s %s))" % (caller, f, args))
        shape = rng.choice(["rest", "more", "fewer", "all", "wrapped"])
        if shape == "all":
            forms.append("(set! %s (lambda args (list 'all args)))" % f)
        elif shape == "wrapped":
            # the new value comes out of a call (a memoising / tracing wrapper): a purely variadic closure over the old one
            w = c.fresh("wr")
            forms.append("(define (%s g) (lambda args (cons 'wrapped (cons args (apply g args)))))" % w)
            forms.append("(set! %s (%s (lambda xs (list (length xs)))))" % (f, w))
        elif shape == "rest":
            forms.append("(set! %s (lambda (x . r) (list 'rest x r)))" % f)
        elif shape == "more":
            forms.append("(set! %s (lambda (%s) (list 'more %s)))" % (f, " ".join("p%d" % i for i in range(ar + 1)), "p0"))
        else:
            forms.append("(set! %s (lambda (%s) (list 'fewer)))" % (f, " ".join("p%d" % i for i in range(ar - 1))))
        forms.append("(with-handler (lambda (e) 'arity-error) (%s %s))" % (f, args))
        forms.append("(with-handler (lambda (e) 'arity-error) (%s))" % caller)
        if shape in ("rest", "all", "wrapped"):
            # these accept any operand count: the same calls outside a handler (other call instructions are used for
            # a call that is the whole top-level form, an operand, or the body of the handler's thunk)
            forms.append("(%s)" % caller)
            forms.append("(%s %s)" % (f, args))
            forms.append("(list (%s %s) (%s))" % (f, args, caller))
    # a procedure that refers to a LATER top-level definition and is called before that definition has run: an error
    # value (free identifier) that a handler catches; after the definition the same call works
    if rng.random() < 0.2:
        c.features.add("called-before-later-define")
        k, later = c.fresh("k"), c.fresh("later")
        n = rng.randint(1, 9)
        forms.append("(define (%s) (%s %d))" % (k, later, n))
        forms.append("(with-handler (lambda (e) 'not-yet-defined) (%s))" % k)
        forms.append("(define (%s x) (list 'later x))" % later)
        forms.append("(%s)" % k)
    return "\n".join(forms), set(c.features)
