"""C03 — programs for the BYTECODE tie of the reference-counting VM model (lean/SteelVerif/C03/VM.lean).

Every program is one compilation unit that stays inside the op codes and primitives the VM model has, so that the
listing the REAL compiler produces for it (with the last-usage marks of analysis.rs: READLOCAL vs MOVEREADLOCAL) can be
executed by the model:

    (define (h0 a b) <update of a>) ...          helper procedures: the operands of a call become the callee's locals
    (define (main) (let* ((v1 E1) (v2 E2) ...) (list R ...)))
    (main)

Structure-directed from the case analysis of the model: every value is a local that is or is not used again after an
update (the result list names a random subset of the variables), is captured by a closure that is called later, is
passed to a helper (argument passing), is stored inside another collection (container slot), and updates happen in
tail and in non-tail position.  The oracle is the persistent semantics computed here in python (S); the real engine
and the model must both print it.
"""
import random


class Bad(Exception):
    pass


def show(v):
    """Display of a Steel value as the harness prints it"""
    if isinstance(v, bool):
        return "#true" if v else "#false"
    if isinstance(v, int):
        return str(v)
    k = v[0]
    if k == "l":
        return "(" + " ".join(show(x) for x in v[1]) + ")"
    if k == "v":
        return "#(" + " ".join(show(x) for x in v[1]) + ")"
    raise Bad("unprintable " + repr(v))


# operations: name -> (result kind, argument kinds, semantics); kinds: l list, v vector, h hash map, i int
def _need(c):
    if not c:
        raise Bad("precondition")


def L(xs):
    return ("l", tuple(xs))


def V(xs):
    return ("v", tuple(xs))


def H(d):
    return ("h", tuple(sorted(d.items())))


def T(s):
    return ("t", tuple(sorted(s)))


def hd(h):
    return dict(h[1])


OPS = {
    "cons": ("l", "il", lambda a, b: L((a,) + b[1])),
    "cdr": ("l", "l", lambda a: (_need(len(a[1]) > 0), L(a[1][1:]))[1]),
    "rest": ("l", "l", lambda a: (_need(len(a[1]) > 0), L(a[1][1:]))[1]),
    "append": ("l", "ll", lambda a, b: (_need(len(a[1]) > 0), L(a[1] + b[1]))[1]),
    "reverse": ("l", "l", lambda a: L(tuple(reversed(a[1])))),
    "push-back": ("l", "li", lambda a, b: L(a[1] + (b,))),
    "immutable-vector-push": ("v", "vi", lambda a, b: V(a[1] + (b,))),
    "vector-push-front": ("v", "vi", lambda a, b: V((b,) + a[1])),
    "immutable-vector-rest": ("v", "v", lambda a: (_need(len(a[1]) > 0), V(a[1][1:]))[1]),
    "immutable-vector-set": ("v", "vIi", lambda a, i, b: (_need(0 <= i < len(a[1])), V(a[1][:i] + (b,) + a[1][i + 1:]))[1]),
    "immutable-vector-take": ("v", "vN", lambda a, n: (_need(0 <= n <= len(a[1])), V(a[1][:n]))[1]),
    "immutable-vector-drop": ("v", "vN", lambda a, n: (_need(0 <= n <= len(a[1])), V(a[1][n:]))[1]),
    "hash-insert": ("h", "hki", lambda a, k, b: H({**hd(a), k: b})),
    "hash-remove": ("h", "hk", lambda a, k: H({x: y for x, y in hd(a).items() if x != k})),
    "hash-union": ("h", "hh", lambda a, b: H({**hd(b), **hd(a)})),
    "hash-clear": ("h", "h", lambda a: H({})),
    "hashset-insert": ("t", "tk", lambda a, k: T(set(a[1]) | {k})),
    "hashset-clear": ("t", "t", lambda a: T(set())),
    "hashset-length": ("i", "t", lambda a: len(a[1])),
    "car": ("i", "l", lambda a: (_need(len(a[1]) > 0 and isinstance(a[1][0], int)), a[1][0])[1]),
    "length": ("i", "l", lambda a: len(a[1])),
    "hash-length": ("i", "h", lambda a: len(a[1])),
    "+": ("i", "ii", lambda a, b: a + b),
}
UPDATES = [o for o, (r, a, _) in OPS.items() if r in "lvht"]


class Gen:
    def __init__(self, rng, nops):
        self.rng = rng
        self.nops = nops
        self.vars = []        # (name, kind, value)
        self.binds = []       # (name, text)
        self.helpers = {}     # name -> text
        self.n = 0
        self.cur_op = None

    def fresh(self, p="x"):
        self.n += 1
        return "%s%d" % (p, self.n)

    def of_kind(self, k):
        return [v for v in self.vars if v[1] == k]

    def bind(self, kind, val, text, prefix="x"):
        name = self.fresh(prefix)
        self.vars.append((name, kind, val))
        self.binds.append((name, text))
        return name

    def seed(self):
        r = self.rng
        k = r.choice("lvhht")
        n = r.randint(1, 4)
        xs = [r.randint(0, 9) for _ in range(n)]
        if k == "l":
            self.bind("l", L(xs), "(list %s)" % " ".join(map(str, xs)))
        elif k == "v":
            self.bind("v", V(xs), "(immutable-vector %s)" % " ".join(map(str, xs)))
        elif k == "t":
            self.bind("t", T(set(xs)), "(hashset %s)" % " ".join(map(str, xs)))
        else:
            d = {i: x for i, x in enumerate(xs)}
            self.bind("h", H(d), "(hash %s)" % " ".join("%d %d" % kv for kv in sorted(d.items())))

    def arg(self, kind, first):
        """an operand of kind `kind`: (text, value)"""
        r = self.rng
        if kind == "i":
            ints = self.of_kind("i")
            if ints and r.random() < 0.3:
                v = r.choice(ints)
                return v[0], v[2]
            x = r.randint(0, 9)
            return str(x), x
        if kind == "k":
            x = r.randint(0, 4)
            return str(x), x
        if kind == "I":
            n = len(first[1])
            _need(n > 0)
            x = r.randrange(n)
            return str(x), x
        if kind == "N":
            x = r.randint(0, len(first[1]))
            return str(x), x
        cands = self.of_kind(kind)
        if kind == "l" and self.cur_op in ("cdr", "rest"):
            # im-lists keeps the removed cell of a uniquely held list inside the chunk (a hidden reference to its element):
            # cdr / rest are applied to lists of integers only, so that the counts of the model are exact (the directed
            # family `hidden_reference_programs` covers the other case)
            cands = [v for v in cands if all(isinstance(x, int) for x in v[2][1])]
        _need(cands)
        v = r.choice(cands)
        return v[0], v[2]

    def op_step(self):
        r = self.rng
        op = r.choice(UPDATES if r.random() < 0.8 else list(OPS))
        res, aks, sem = OPS[op]
        self.cur_op = op
        texts, vals = [], []
        for j, ak in enumerate(aks):
            t, v = self.arg(ak, vals[0] if vals else None)
            texts.append(t)
            vals.append(v)
        out = sem(*vals)
        if res in "lv":
            _need(len(out[1]) <= 12)
        via = r.random()
        call = "(%s %s)" % (op, " ".join(texts))
        if via < 0.55:
            text = call
        elif via < 0.75:
            # through a helper procedure: the operands become the callee's locals
            hn = "h-" + op.replace(">", "").replace("+", "plus") + str(len(aks))
            params = ["a%d" % j for j in range(len(aks))]
            self.helpers[hn] = "(define (%s %s) (%s %s))" % (hn, " ".join(params), op, " ".join(params))
            text = "(%s %s)" % (hn, " ".join(texts))
        elif via < 0.9 and aks[0] in "lvht" and len(aks) >= 2 and aks[-1] in "ik":
            # through a closure that captured the collection; it is called with the last operand
            g = self.fresh("g")
            self.binds.append((g, "(lambda (y) (%s %s y))" % (op, " ".join(texts[:-1]))))
            text = "(%s %s)" % (g, texts[-1])
        else:
            # nested: the result of an inner update is the operand of this one (a temporary: unique)
            t0, v0 = texts[0], vals[0]
            if aks[0] == "l":
                inner, iv = "(cons 7 %s)" % t0, L((7,) + v0[1])
            elif aks[0] == "v":
                inner, iv = "(immutable-vector-push %s 7)" % t0, V(v0[1] + (7,))
            elif aks[0] == "h":
                inner, iv = "(hash-insert %s 9 7)" % t0, H({**hd(v0), 9: 7})
            elif aks[0] == "t":
                inner, iv = "(hashset-insert %s 7)" % t0, T(set(v0[1]) | {7})
            else:
                inner, iv = t0, v0
            vals2 = [iv] + vals[1:]
            if "I" in aks or "N" in aks:
                inner, vals2 = t0, vals
            out = sem(*vals2)
            if res in "lv":
                _need(len(out[1]) <= 12)
            text = "(%s %s)" % (op, " ".join([inner] + texts[1:]))
        self.bind(res, out, text)

    def keep_step(self):
        """store a collection inside another one (a container slot keeps it alive)"""
        r = self.rng
        cands = [v for v in self.vars if v[1] in "lv"]
        _need(cands)
        v = r.choice(cands)
        ls = self.of_kind("l")
        if ls and r.random() < 0.5:
            w = r.choice(ls)
            self.bind("l", L((v[2],) + w[2][1]), "(cons %s %s)" % (v[0], w[0]))
        else:
            self.bind("l", L((v[2], 5)), "(list %s 5)" % v[0])

    def program(self):
        r = self.rng
        self.seed()
        if r.random() < 0.6:
            self.seed()
        for _ in range(self.nops):
            for _try in range(20):
                try:
                    if r.random() < 0.12:
                        self.keep_step()
                    else:
                        self.op_step()
                    break
                except Bad:
                    continue
        # the result names a random subset of the variables (the others were at their last use earlier)
        outs, vals = [], []
        for name, kind, val in self.vars:
            if r.random() < 0.55:
                if kind == "t":
                    outs.append("(hashset-length %s)" % name)
                    vals.append(len(val[1]))
                elif kind == "h":
                    d = hd(val)
                    if d and r.random() < 0.7:
                        k = r.choice(sorted(d))
                        outs.append("(hash-ref %s %d)" % (name, k))
                        vals.append(d[k])
                    else:
                        outs.append("(hash-length %s)" % name)
                        vals.append(len(d))
                else:
                    outs.append(name)
                    vals.append(val)
        if not outs:
            name, kind, val = self.vars[-1]
            if kind == "t":
                outs, vals = ["(hashset-length %s)" % name], [len(val[1])]
            elif kind == "h":
                outs, vals = ["(hash-length %s)" % name], [len(val[1])]
            else:
                outs, vals = [name], [val]
        body = "(list %s)" % " ".join(outs)
        for name, text in reversed(self.binds):
            body = "(let ((%s %s)) %s)" % (name, text, body)
        src = "\n".join(self.helpers.values()) + "\n(define (main) %s)\n(main)\n" % body
        return {"src": src, "expect": show(L(vals)), "ops": len(self.binds)}


def hidden_reference_programs():
    """directed: a collection stored in a list cell that `cdr` / `rest` removes from a uniquely held list.  im-lists does not
    release the removed cell (the chunk keeps it), so the real count of the collection stays higher than the number of
    visible references: the real VM copies where the model (which counts visible references) updates in place.  The safe
    direction: real `unique` answers <= model in-place decisions; same value."""
    out = []
    for shrink in ("cdr", "rest"):
        for mk, upd, exp in (("(immutable-vector 1 2)", "(immutable-vector-push v 3)", "#(1 2 3)"),
                             ("(hashset 1 2)", "(hashset-length (hashset-insert v 3))", "3"),
                             ("(hash 1 2)", "(hash-length (hash-insert v 3 4))", "2")):
            src = ("(define (main) (let ((v %s)) (let ((l (list v 5))) (let ((t (%s l))) (list %s (car t))))))\n(main)\n"
                   % (mk, shrink, upd))
            out.append({"src": src, "expect": "(%s 5)" % exp, "ops": 3})
    return out


def gen_program(rng, nops):
    for _ in range(50):
        try:
            return Gen(rng, nops).program()
        except Bad:
            continue
    raise RuntimeError("bc03: no program")


if __name__ == "__main__":
    import sys
    rng = random.Random(int(sys.argv[1]) if len(sys.argv) > 1 else 1)
    p = gen_program(rng, int(sys.argv[2]) if len(sys.argv) > 2 else 6)
    print(p["src"])
    print(";; expect", p["expect"])
