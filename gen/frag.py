"""Generator for the lowered-core fragment of C01 (gen_frag_program): emits the same program twice,
as IR text for `c01driver frag` (stack offsets) and as Steel source (named variables)."""


def _lit(rng):
    return rng.choice([0, 1, 2, 3, 5, 7, -1, -3, 10])


class G:
    def __init__(self, rng, fns):
        self.rng = rng
        self.fns = fns          # list of (arity, recursive)
        # class of finding K01d: a variable read inside a `let` body that sits inside the right-hand
        # side of an assignment to that same variable
        self.assign_stack = []  # [slot, entered_let]
        self.assigned = set()   # slots that are the target of some set!
        self.let_reads = set()  # slots read inside the body of some let
        self.let_depth = 0

    @property
    def k01d(self):
        return bool(self.assigned & self.let_reads)

    def int_(self, h, vs, d):
        """h: current frame height; vs: dict slot -> 'int'|'bool' of named slots."""
        r = self.rng
        ints = [i for i, t in vs.items() if t == "int"]
        opts = ["lit"]
        if ints:
            opts += ["var", "var"]
        if d > 0:
            opts += ["prim", "prim", "if", "let", "seq"]
            if ints:
                opts += ["set", "setseq"]
            if self.fns:
                opts += ["call", "call"]
        k = r.choice(opts)
        if k == "lit":
            n = _lit(r)
            return "(c %d)" % n, str(n)
        if k == "var":
            i = r.choice(ints)
            if self.let_depth > 0:
                self.let_reads.add(i)
            return "(l %d)" % i, "x%d" % i
        if k == "prim":
            op, sop = r.choice([("add", "+"), ("sub", "-"), ("mul", "*")])
            a = self.int_(h, vs, d - 1)
            b = self.int_(h + 1, vs, d - 1)
            return "(p %s %s %s)" % (op, a[0], b[0]), "(%s %s %s)" % (sop, a[1], b[1])
        if k == "if":
            c = self.bool_(h, vs, d - 1)
            t = self.int_(h, vs, d - 1)
            e = self.int_(h, vs, d - 1)
            return "(if %s %s %s)" % (c[0], t[0], e[0]), "(if %s %s %s)" % (c[1], t[1], e[1])
        if k == "let":
            e = self.int_(h, vs, d - 1)
            vs2 = dict(vs); vs2[h] = "int"
            saved = [a[1] for a in self.assign_stack]
            for a in self.assign_stack:
                a[1] = True
            self.let_depth += 1
            b = self.int_(h + 1, vs2, d - 1)
            self.let_depth -= 1
            for a, sv in zip(self.assign_stack, saved):
                a[1] = sv
            return "(let %s %s)" % (e[0], b[0]), "(let ((x%d %s)) %s)" % (h, e[1], b[1])
        if k == "seq":
            a = self.int_(h, vs, d - 1)
            b = self.int_(h, vs, d - 1)
            return "(seq %s %s)" % (a[0], b[0]), "(begin %s %s)" % (a[1], b[1])
        if k == "set":
            i = r.choice(ints)
            self.assigned.add(i)
            self.assign_stack.append([i, False])
            e = self.int_(h, vs, d - 1)
            self.assign_stack.pop()
            return "(set %d %s)" % (i, e[0]), "(set! x%d %s)" % (i, e[1])
        if k == "setseq":
            i = r.choice(ints)
            self.assigned.add(i)
            self.assign_stack.append([i, False])
            e = self.int_(h, vs, d - 1)
            self.assign_stack.pop()
            return "(seq (set %d %s) (l %d))" % (i, e[0], i), "(begin (set! x%d %s) x%d)" % (i, e[1], i)
        if k == "call":
            f = r.randrange(len(self.fns))
            ar, rec = self.fns[f]
            args = []
            for j in range(ar):
                if rec and j == 0:
                    n = r.randint(0, 4)
                    args.append(("(c %d)" % n, str(n)))
                else:
                    args.append(self.int_(h + j, vs, d - 1))
            return "(call %d%s)" % (f, "".join(" " + a[0] for a in args)), "(f%d%s)" % (f, "".join(" " + a[1] for a in args))
        raise AssertionError

    def bool_(self, h, vs, d):
        r = self.rng
        k = r.choice(["lit", "cmp", "cmp", "cmp"])
        if k == "lit":
            b = r.random() < 0.5
            return ("(t)", "#true") if b else ("(f)", "#false")
        op, sop = r.choice([("lt", "<"), ("le", "<="), ("eq", "=")])
        a = self.int_(h, vs, max(0, d - 1))
        b = self.int_(h + 1, vs, max(0, d - 1))
        return "(p %s %s %s)" % (op, a[0], b[0]), "(%s %s %s)" % (sop, a[1], b[1])


def gen_frag_program(rng, depth=3):
    """Returns (driver_text, steel_source, in_class_K01d)."""
    fns = []
    lines, src = [], []
    k01d = False
    for k in range(rng.randint(0, 3)):
        ar = rng.randint(1, 3)
        rec = rng.random() < 0.4
        g = G(rng, list(fns))
        vs = {i: "int" for i in range(ar)}
        if rec:
            base = g.int_(ar, vs, depth - 1)
            step = g.int_(ar + 1, vs, depth - 2)
            rest_args = "".join(" (l %d)" % j for j in range(1, ar))
            rest_src = "".join(" x%d" % j for j in range(1, ar))
            ir = "(if (p le (l 0) (c 0)) %s (p add %s (call %d (p sub (l 0) (c 1))%s)))" % (base[0], step[0], k, rest_args)
            # the operands of the recursive call sit above the temporary of `add`
            st = "(if (<= x0 0) %s (+ %s (f%d (- x0 1)%s)))" % (base[1], step[1], k, rest_src)
            # `step` is generated at height ar+?: it is the first operand of `add`, evaluated at height ar
            step = g.int_(ar, vs, depth - 2)
            ir = "(if (p le (l 0) (c 0)) %s (p add %s (call %d (p sub (l 0) (c 1))%s)))" % (base[0], step[0], k, rest_args)
            st = "(if (<= x0 0) %s (+ %s (f%d (- x0 1)%s)))" % (base[1], step[1], k, rest_src)
        else:
            b = g.int_(ar, vs, depth)
            ir, st = b
        k01d = k01d or g.k01d
        lines.append("fn %d %s" % (ar, ir))
        src.append("(define (f%d %s) %s)" % (k, " ".join("x%d" % i for i in range(ar)), st))
        fns.append((ar, rec))
    g = G(rng, fns)
    m = g.int_(0, {}, depth + 1) if rng.random() < 0.8 else g.bool_(0, {}, depth)
    lines.append("main %s" % m[0])
    src.append(m[1])
    return "\n".join(lines), "\n".join(src), (k01d or g.k01d)
