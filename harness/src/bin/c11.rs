//! C11 harness: builds value graphs as real `SteelVal`s (the same Rust object really occurs several
//! times when a node is mentioned several times) and asks the real code.
//!
//! stdin, one command per line; stdout, one answer line per command (same protocol as
//! `lean/SteelVerif/C11/Driver.lean`, which reads the *resolved* definitions this harness prints):
//!   def NAME int I | flt BITS | bool 0/1 | char CP | str CP,CP.. | sym CP,CP.. | void | rat N D | bytes B,B..
//!   def NAME list A.. | pair A B | vec A.. | mvec A.. | struct TAG A.. | box A | map K V K V.. | set A..
//!        -> `def NAME <kind> <args>`; for map/set the entries the real object has, in the order in
//!           which the real object iterates (that is the order `equal?` and `Hash` see); for lists
//!           `def NAME list E.. | STORE IDX NEXT`: what the short cuts of `equal?` see of the real list
//!           (element storage of the first node, index, next node; pointers interned as small numbers)
//!   def NAME lx <Steel expression over defined names that yields a list>   (append, cdr, take, reverse ..)
//!        -> `def NAME list E.. | STORE IDX NEXT` with the elements the real list has, or
//!           `def NAME alias OTHER` if the result IS the list OTHER (same head cell)
//!   eq A B    -> `eq <equal? through the engine> <Rust == on the extracted values>`
//!   hq A B    -> `hq <bool>`    the two values have the same hash (fixed-key hasher)
//!   key A B   -> `key <(hash-contains? (hash A 0) B)> <(hashset-contains? (hashset A) B)>`
//!   coll SRC  -> `coll <Display of the value of SRC>` or `coll err`
//!   gm new | insert K V | remove K | ref K | contains K | len     a hash map KEYED BY DEFINED VALUES (collections as keys);
//!   gm union K V .. | unionr K V ..   `(hash-union gm (hash K V ..))` / the literal on the left
//!   gs new | insert K | contains K | len                           V is an integer literal
//!   gs union|inter|diff|subset K..  (and unionr|interr|diffr|subsetr: the literal on the left)
//!             the set algebra of the set register against the literal `(hashset K..)`
//!             -> `gm <len>` after an update, `gm ok <v>` / `gm err` for ref, `gm true|false`, `gm <len>`
//!   reset     -> `reset` (forgets the names; the engine is kept)
//! A panic in the real code is caught and printed as `panic <msg>` for that line.
use std::collections::hash_map::DefaultHasher;
use std::collections::{HashMap, HashSet};
use std::hash::{Hash, Hasher};
use std::io::{BufRead, Write};
use std::panic::{catch_unwind, AssertUnwindSafe};

use steel::rvals::SteelVal;
use steel::steel_vm::engine::Engine;

struct H {
    engine: Engine,
    names: Vec<(String, SteelVal)>,
    structs: HashSet<String>,
    ptrs: HashMap<usize, usize>,
}

fn cps(s: &str) -> String {
    if s == "-" || s.is_empty() {
        return String::new();
    }
    s.split(',')
        .filter_map(|x| x.parse::<u32>().ok().and_then(char::from_u32))
        .collect()
}

fn is_container(v: &SteelVal) -> bool {
    matches!(
        v,
        SteelVal::ListV(_)
            | SteelVal::Pair(_)
            | SteelVal::VectorV(_)
            | SteelVal::MutableVector(_)
            | SteelVal::CustomStruct(_)
            | SteelVal::Boxed(_)
            | SteelVal::HeapAllocated(_)
            | SteelVal::HashMapV(_)
            | SteelVal::HashSetV(_)
    )
}

fn is_empty_list(v: &SteelVal) -> bool {
    matches!(v, SteelVal::ListV(l) if l.is_empty())
}

impl H {
    fn get(&self, name: &str) -> Result<SteelVal, String> {
        self.names
            .iter()
            .rev()
            .find(|(n, _)| n == name)
            .map(|(_, v)| v.clone())
            .ok_or_else(|| format!("unknown name {name}"))
    }

    /// Which defined node is this value?  Containers by object identity, leaves by kind and value.
    fn resolve(&self, v: &SteelVal) -> String {
        if is_empty_list(v) {
            if let Some((n, _)) = self.names.iter().find(|(_, w)| is_empty_list(w)) {
                return n.clone();
            }
        }
        if is_container(v) {
            let p = v.as_ptr_usize();
            for (n, w) in &self.names {
                if std::mem::discriminant(v) == std::mem::discriminant(w) && w.as_ptr_usize() == p && p.is_some() {
                    return n.clone();
                }
            }
            return "?".to_string();
        }
        for (n, w) in &self.names {
            if is_container(w) || std::mem::discriminant(v) != std::mem::discriminant(w) {
                continue;
            }
            let same = match (v, w) {
                (SteelVal::NumV(a), SteelVal::NumV(b)) => a.to_bits() == b.to_bits(),
                (a, b) => a == b,
            };
            if same {
                return n.clone();
            }
        }
        "?".to_string()
    }

    fn run(&mut self, src: String) -> Result<Vec<SteelVal>, String> {
        self.engine
            .compile_and_run_raw_program(src)
            .map_err(|e| format!("{}", e).lines().next().unwrap_or("").to_string())
    }

    fn define_src(&mut self, name: &str, expr: String) -> Result<SteelVal, String> {
        self.run(format!("(define {name} {expr})"))?;
        self.engine.extract_value(name).map_err(|e| format!("{e}"))
    }

    fn intern(&mut self, p: usize) -> usize {
        let n = self.ptrs.len() + 1;
        *self.ptrs.entry(p).or_insert(n)
    }

    /// ` | STORE IDX NEXT` of a real list
    fn list_sig(&mut self, v: &SteelVal) -> String {
        if let SteelVal::ListV(l) = v {
            let (store, idx) = l.identity_tuple();
            let store = self.intern(store);
            let next = match l.next_ptr_as_usize() {
                Some(p) => self.intern(p),
                None => 0,
            };
            format!(" | {store} {idx} {next}")
        } else {
            String::new()
        }
    }

    /// an already defined list with the same head cell
    fn same_cell(&self, v: &SteelVal) -> Option<String> {
        if let SteelVal::ListV(l) = v {
            if l.is_empty() {
                return None;
            }
            for (n, w) in &self.names {
                if let SteelVal::ListV(m) = w {
                    if !m.is_empty() && m.as_ptr_usize() == l.as_ptr_usize() {
                        return Some(n.clone());
                    }
                }
            }
        }
        None
    }

    fn def(&mut self, name: &str, kind: &str, args: &[&str]) -> Result<String, String> {
        let joined = args.join(" ");
        let val = match kind {
            "int" => {
                let text = args.first().ok_or("int needs a value")?;
                match text.parse::<isize>() {
                    Ok(i) => {
                        self.engine.register_value(name, SteelVal::IntV(i));
                        SteelVal::IntV(i)
                    }
                    Err(_) => self.define_src(name, text.to_string())?,
                }
            }
            "flt" => {
                let bits: u64 = args.first().ok_or("flt needs bits")?.parse().map_err(|_| "bad bits")?;
                let v = SteelVal::NumV(f64::from_bits(bits));
                self.engine.register_value(name, v.clone());
                v
            }
            "bool" => {
                let v = SteelVal::BoolV(args.first() == Some(&"1"));
                self.engine.register_value(name, v.clone());
                v
            }
            "char" => {
                let c = args
                    .first()
                    .and_then(|x| x.parse::<u32>().ok())
                    .and_then(char::from_u32)
                    .ok_or("bad char")?;
                let v = SteelVal::CharV(c);
                self.engine.register_value(name, v.clone());
                v
            }
            "str" => {
                let v = SteelVal::StringV(cps(args.first().unwrap_or(&"-")).into());
                self.engine.register_value(name, v.clone());
                v
            }
            "sym" => {
                let v = SteelVal::SymbolV(cps(args.first().unwrap_or(&"-")).into());
                self.engine.register_value(name, v.clone());
                v
            }
            "void" => {
                self.engine.register_value(name, SteelVal::Void);
                SteelVal::Void
            }
            "rat" => self.define_src(name, format!("(/ {} {})", args[0], args[1]))?,
            "bytes" => {
                let bs = args.first().copied().unwrap_or("-");
                let bs = if bs == "-" { String::new() } else { bs.replace(',', " ") };
                self.define_src(name, format!("(bytes {bs})"))?
            }
            "list" => self.define_src(name, format!("(list {joined})"))?,
            "lx" => self.define_src(name, joined.clone())?,
            "pair" => self.define_src(name, format!("(cons {joined})"))?,
            "vec" => self.define_src(name, format!("(immutable-vector {joined})"))?,
            "mvec" => self.define_src(name, format!("(vector {joined})"))?,
            "box" => self.define_src(name, format!("(box {joined})"))?,
            "map" => self.define_src(name, format!("(hash {joined})"))?,
            "set" => self.define_src(name, format!("(hashset {joined})"))?,
            "struct" => {
                let tag = args.first().ok_or("struct needs a tag")?;
                let fields = &args[1..];
                let ty = format!("VS{}x{}", tag, fields.len());
                if !self.structs.contains(&ty) {
                    let fs: Vec<String> = (0..fields.len()).map(|i| format!("f{i}")).collect();
                    self.run(format!("(struct {ty} ({}))", fs.join(" ")))?;
                    self.structs.insert(ty.clone());
                }
                self.define_src(name, format!("({ty} {})", fields.join(" ")))?
            }
            other => return Err(format!("unknown kind {other}")),
        };
        // resolved definition
        let out = match (&val, kind) {
            (SteelVal::HashMapV(m), "map") => {
                let mut parts = Vec::new();
                for (k, v) in m.iter() {
                    parts.push(self.resolve(k));
                    parts.push(self.resolve(v));
                }
                format!("def {name} map {}", parts.join(" "))
            }
            (SteelVal::HashSetV(s), "set") => {
                let parts: Vec<String> = s.iter().map(|k| self.resolve(k)).collect();
                format!("def {name} set {}", parts.join(" "))
            }
            (SteelVal::ListV(l), "lx") => {
                if let Some(other) = self.same_cell(&val) {
                    self.names.push((name.to_string(), val));
                    return Ok(format!("def {name} alias {other}"));
                }
                let parts: Vec<String> = l.iter().map(|k| self.resolve(k)).collect();
                let sig = self.list_sig(&val);
                format!("def {name} list {}{sig}", parts.join(" "))
            }
            (SteelVal::ListV(_), "list") => {
                let sig = self.list_sig(&val);
                format!("def {name} list {joined}{sig}")
            }
            _ => format!("def {name} {kind} {joined}"),
        };
        // the kind that was built must be the kind that was asked for
        let ok = match (kind, &val) {
            ("list", SteelVal::ListV(_))
            | ("lx", SteelVal::ListV(_))
            | ("pair", SteelVal::Pair(_))
            | ("vec", SteelVal::VectorV(_))
            | ("mvec", SteelVal::MutableVector(_))
            | ("struct", SteelVal::CustomStruct(_))
            | ("map", SteelVal::HashMapV(_))
            | ("set", SteelVal::HashSetV(_))
            | ("rat", SteelVal::Rational(_))
            | ("rat", SteelVal::BigRational(_))
            | ("bytes", SteelVal::ByteVector(_))
            | ("int", SteelVal::IntV(_))
            | ("int", SteelVal::BigNum(_)) => true,
            ("box", SteelVal::Boxed(_)) | ("box", SteelVal::HeapAllocated(_)) => true,
            ("list", _) | ("lx", _) | ("pair", _) | ("vec", _) | ("mvec", _) | ("struct", _) | ("map", _)
            | ("set", _) | ("rat", _) | ("bytes", _) | ("int", _) | ("box", _) => false,
            _ => true,
        };
        self.names.push((name.to_string(), val));
        if ok {
            Ok(out.trim_end().replace("  ", " "))
        } else {
            Err(format!("built a different kind for {kind}"))
        }
    }

    fn truth(&mut self, src: String) -> Result<bool, String> {
        match self.run(src)?.last() {
            Some(SteelVal::BoolV(b)) => Ok(*b),
            other => Err(format!("not a boolean: {:?}", other.map(|v| format!("{v}")))),
        }
    }

    fn line(&mut self, l: &str) -> Result<String, String> {
        let toks: Vec<&str> = l.split_whitespace().collect();
        match toks.as_slice() {
            [] => Ok(String::new()),
            ["reset"] => {
                self.names.clear();
                Ok("reset".into())
            }
            ["def", name, kind, args @ ..] => self.def(name, kind, args),
            ["eq", a, b] => {
                let (va, vb) = (self.get(a)?, self.get(b)?);
                let e = self.truth(format!("(equal? {a} {b})"))?;
                let r = va == vb;
                Ok(format!("eq {e} {r}"))
            }
            ["hq", a, b] => {
                let (va, vb) = (self.get(a)?, self.get(b)?);
                let mut ha = DefaultHasher::new();
                va.hash(&mut ha);
                let mut hb = DefaultHasher::new();
                vb.hash(&mut hb);
                Ok(format!("hq {}", ha.finish() == hb.finish()))
            }
            ["key", a, b] => {
                self.get(a)?;
                self.get(b)?;
                let m = self.truth(format!("(hash-contains? (hash {a} 0) {b})"))?;
                let s = self.truth(format!("(hashset-contains? (hashset {a}) {b})"))?;
                Ok(format!("key {m} {s}"))
            }
            [reg @ ("gm" | "gs"), op, args @ ..] => {
                let algebra = matches!(*op, "union" | "unionr" | "inter" | "interr" | "diff" | "diffr" | "subset" | "subsetr");
                if *reg == "gm" && algebra {
                    for a in args.iter().step_by(2) {
                        self.get(a)?;
                    }
                } else {
                    for a in args.iter().take(if algebra { args.len() } else { 1 }) {
                        self.get(a)?;
                    }
                }
                let (var, ins, has, len, empty) = if *reg == "gm" {
                    ("%c11-gm", "hash-insert", "hash-contains?", "hash-length", "(hash)")
                } else {
                    ("%c11-gs", "hashset-insert", "hashset-contains?", "hashset-length", "(hashset)")
                };
                let a = args.join(" ");
                let src = match *op {
                    "new" => format!("(define {var} {empty}) ({len} {var})"),
                    "insert" => format!("(set! {var} ({ins} {var} {a})) ({len} {var})"),
                    "remove" if *reg == "gm" => format!("(set! {var} (hash-remove {var} {a})) ({len} {var})"),
                    "ref" if *reg == "gm" => format!("(hash-ref {var} {a})"),
                    "contains" => format!("({has} {var} {a})"),
                    "len" => format!("({len} {var})"),
                    "union" if *reg == "gm" => format!("(set! {var} (hash-union {var} (hash {a}))) ({len} {var})"),
                    "unionr" if *reg == "gm" => format!("(set! {var} (hash-union (hash {a}) {var})) ({len} {var})"),
                    _ if algebra && *reg == "gs" => {
                        let lit = format!("(hashset {a})");
                        let (stem, lit_left) = match *op {
                            "unionr" => ("union", true),
                            "interr" => ("inter", true),
                            "diffr" => ("diff", true),
                            "subsetr" => ("subset", true),
                            other => (other, false),
                        };
                        let (x, y) = if lit_left { (lit.as_str(), var) } else { (var, lit.as_str()) };
                        match stem {
                            "union" => format!("(set! {var} (hashset-union {x} {y})) ({len} {var})"),
                            "inter" => format!("(set! {var} (hashset-intersection {x} {y})) ({len} {var})"),
                            "diff" => format!("(set! {var} (hashset-difference {x} {y})) ({len} {var})"),
                            "subset" => format!("(hashset-subset? {x} {y})"),
                            _ => return Err("bad command".into()),
                        }
                    }
                    _ => return Err("bad command".into()),
                };
                match self.run(src) {
                    Ok(vals) => match vals.last() {
                        Some(SteelVal::BoolV(b)) => Ok(format!("{reg} {b}")),
                        Some(SteelVal::IntV(i)) if *op == "ref" => Ok(format!("{reg} ok {i}")),
                        Some(SteelVal::IntV(i)) => Ok(format!("{reg} {i}")),
                        other => Err(format!("unexpected answer {:?}", other.map(|v| format!("{v}")))),
                    },
                    Err(_) if *op == "ref" => Ok(format!("{reg} err")),
                    Err(e) => Err(e),
                }
            }
            ["coll", ..] => {
                let src = l.trim_start().strip_prefix("coll").unwrap_or("").to_string();
                match self.run(src) {
                    Ok(vals) => Ok(format!(
                        "coll {}",
                        vals.last().map(|v| format!("{v}")).unwrap_or_default().replace('\n', "\\n")
                    )),
                    Err(_) => Ok("coll err".into()),
                }
            }
            _ => Err("bad command".into()),
        }
    }
}

fn main() {
    if std::env::var_os("C11_PANIC_VERBOSE").is_none() {
        std::panic::set_hook(Box::new(|_| {}));
    }
    let mut h = H { engine: Engine::new(), names: Vec::new(), structs: HashSet::new(), ptrs: HashMap::new() };
    let stdin = std::io::stdin();
    let stdout = std::io::stdout();
    for l in stdin.lock().lines() {
        let l = match l {
            Ok(l) => l,
            Err(_) => break,
        };
        if l.trim().is_empty() || l.starts_with('#') {
            continue;
        }
        let r = catch_unwind(AssertUnwindSafe(|| h.line(&l)));
        let mut out = stdout.lock();
        match r {
            Ok(Ok(s)) => writeln!(out, "{s}").ok(),
            Ok(Err(e)) => writeln!(out, "bad {}", e.replace('\n', " ")).ok(),
            Err(p) => {
                let msg = if let Some(s) = p.downcast_ref::<String>() {
                    s.clone()
                } else if let Some(s) = p.downcast_ref::<&str>() {
                    s.to_string()
                } else {
                    "?".to_string()
                };
                writeln!(out, "panic {}", msg.lines().next().unwrap_or("")).ok()
            }
        };
        out.flush().ok();
    }
}
