//! C04 / C19 harness: runs generated Steel programs on real engines.
//!
//!   c04 batch : stdin = programs separated by a line `;;;===`; a program = pieces (top-level evaluations
//!               on one engine) separated by a line `;;;---`.  Every program gets a fresh `Engine`.
//!               Per piece one line `=> ok v1|v2|…` (non-void values, Display) or `=> err <first line>` or
//!               `=> panic <message>`; per program a final `## stats (…)` line (the `#%verif-heap-stats`
//!               list: value list total/free-by-count/alloc_count/grow_count, vector list the same, stale
//!               accesses, full collections, forced collections, mark-queue length) and `=== end`.
//!               Script output (`display`) goes to stdout unchanged, in order.
//!               A piece whose first line is `;;;host-root NAME` is evaluated as usual, then the value of the
//!               global NAME is taken by the host as a ROOTED value (`SteelVal::as_rooted`) — the host keeps
//!               it in a Rust vector, the script is expected to overwrite the global.  A piece whose first line
//!               is `;;;host-call FN` calls the global function FN with all values the host holds (in order)
//!               and prints its result like a piece; `;;;host-release` drops them.
use std::io::{Read, Write};
use std::panic::{catch_unwind, AssertUnwindSafe};

use steel::steel_vm::engine::Engine;

fn eval_piece(engine: &mut Engine, piece: &str) -> String {
    let r = catch_unwind(AssertUnwindSafe(|| {
        engine.compile_and_run_raw_program(piece.to_string())
    }));
    std::io::stdout().flush().ok();
    match r {
        Ok(Ok(vals)) => {
            let s: Vec<String> = vals
                .iter()
                .map(|v| format!("{}", v))
                .filter(|s| s != "#<void>")
                .collect();
            format!("=> ok {}", s.join("|"))
        }
        Ok(Err(e)) => {
            let msg = format!("{}", e);
            format!("=> err {}", msg.lines().next().unwrap_or(""))
        }
        Err(p) => {
            let msg = if let Some(s) = p.downcast_ref::<String>() {
                s.clone()
            } else if let Some(s) = p.downcast_ref::<&str>() {
                s.to_string()
            } else {
                "?".to_string()
            };
            format!("=> panic {}", msg.lines().next().unwrap_or(""))
        }
    }
}

fn main() {
    std::panic::set_hook(Box::new(|_| {}));
    let mut src = String::new();
    std::io::stdin().read_to_string(&mut src).unwrap();
    for program in src.split("\n;;;===\n") {
        if program.trim().is_empty() {
            continue;
        }
        let mut engine = Engine::new();
        let mut held: Vec<steel::RootedSteelVal> = Vec::new();
        for piece in program.split("\n;;;---\n") {
            let first = piece.lines().next().unwrap_or("");
            if let Some(name) = first.strip_prefix(";;;host-root ") {
                println!("{}", eval_piece(&mut engine, piece));
                match engine.extract_value(name.trim()) {
                    Ok(v) => held.push(v.as_rooted()),
                    Err(e) => println!("=> err host-root {}", e),
                }
                continue;
            }
            if let Some(name) = first.strip_prefix(";;;host-call ") {
                let args: Vec<steel::SteelVal> = held.iter().map(|r| r.value().clone()).collect();
                let r = catch_unwind(AssertUnwindSafe(|| {
                    engine.call_function_by_name_with_args(name.trim(), args)
                }));
                match r {
                    Ok(Ok(v)) => println!("=> ok {}", v),
                    Ok(Err(e)) => println!("=> err {}", format!("{}", e).lines().next().unwrap_or("")),
                    Err(_) => println!("=> panic host-call"),
                }
                continue;
            }
            if let Some(arg) = first.strip_prefix(";;;host-reload ") {
                // `;;;host-reload N`: the rest of the piece is a script; it is run N times on this engine (each
                // run = one top-level evaluation, as a REPL / embedder re-running a file does).  After every
                // tenth of the runs one line `=> globals (len shadowed free threshold epoch)`: length of the
                // symbol map, queued shadowed slots, reclaimed slots waiting for reuse, recycler threshold and
                // epoch (`Engine::globals`, `Engine::verif_free_list`); then the result of the last run.
                let n: usize = arg.trim().parse().unwrap_or(1);
                let script: String = piece.lines().skip(1).collect::<Vec<_>>().join("\n");
                let mut last = String::new();
                let report = |engine: &Engine| {
                    let (shadowed, free, threshold, epoch) = engine.verif_free_list();
                    println!(
                        "=> globals ({} {} {} {} {})",
                        engine.globals().len(),
                        shadowed.len(),
                        free.len(),
                        threshold,
                        epoch
                    );
                };
                report(&engine);
                for i in 0..n {
                    last = eval_piece(&mut engine, &script);
                    if !last.starts_with("=> ok") {
                        break;
                    }
                    if (i + 1) % (n / 10).max(1) == 0 {
                        report(&engine);
                    }
                }
                println!("{}", last);
                continue;
            }
            if first.starts_with(";;;host-release") {
                held.clear();
                println!("=> ok released");
                continue;
            }
            println!("{}", eval_piece(&mut engine, piece));
        }
        drop(held);
        // the forced collections stop here; report the counters of this engine's heap
        let stats = eval_piece(&mut engine, "(begin (#%verif-gc-every 0) (#%verif-heap-stats))");
        println!("## stats {}", stats.trim_start_matches("=> ok ").trim_start_matches("0|"));
        println!("=== end");
        std::io::stdout().flush().ok();
    }
}
