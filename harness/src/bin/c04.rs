//! C04 / C19 harness: runs generated Steel programs on real engines.
//!
//!   c04 batch : stdin = programs separated by a line `;;;===`; a program = pieces (top-level evaluations
//!               on one engine) separated by a line `;;;---`.  Every program gets a fresh `Engine`.
//!               Per piece one line `=> ok v1|v2|…` (non-void values, Display) or `=> err <first line>` or
//!               `=> panic <message>`; per program a final `## stats (…)` line (the `#%verif-heap-stats`
//!               list: value list total/free-by-count/alloc_count/grow_count, vector list the same, stale
//!               accesses, full collections, forced collections, mark-queue length) and `=== end`.
//!               Script output (`display`) goes to stdout unchanged, in order.
use std::io::{Read, Write};
use std::panic::{catch_unwind, AssertUnwindSafe};

use steel::steel_vm::engine::Engine;

fn eval_piece(engine: &mut Engine, piece: &str) -> String {
    let r = catch_unwind(AssertUnwindSafe(|| {
        engine.compile_and_run_raw_program(piece.to_string())
    }));
    std::io::stdout().flush().ok();
    match r {
        Ok(Ok(vals)) => {
            let s: Vec<String> = vals
                .iter()
                .map(|v| format!("{}", v))
                .filter(|s| s != "#<void>")
                .collect();
            format!("=> ok {}", s.join("|"))
        }
        Ok(Err(e)) => {
            let msg = format!("{}", e);
            format!("=> err {}", msg.lines().next().unwrap_or(""))
        }
        Err(p) => {
            let msg = if let Some(s) = p.downcast_ref::<String>() {
                s.clone()
            } else if let Some(s) = p.downcast_ref::<&str>() {
                s.to_string()
            } else {
                "?".to_string()
            };
            format!("=> panic {}", msg.lines().next().unwrap_or(""))
        }
    }
}

fn main() {
    std::panic::set_hook(Box::new(|_| {}));
    let mut src = String::new();
    std::io::stdin().read_to_string(&mut src).unwrap();
    for program in src.split("\n;;;===\n") {
        if program.trim().is_empty() {
            continue;
        }
        let mut engine = Engine::new();
        for piece in program.split("\n;;;---\n") {
            println!("{}", eval_piece(&mut engine, piece));
        }
        // the forced collections stop here; report the counters of this engine's heap
        let stats = eval_piece(&mut engine, "(begin (#%verif-gc-every 0) (#%verif-heap-stats))");
        println!("## stats {}", stats.trim_start_matches("=> ok ").trim_start_matches("0|"));
        println!("=== end");
        std::io::stdout().flush().ok();
    }
}
