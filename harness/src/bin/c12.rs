//! C12 harness: the REAL reader and writer of /repo on the line protocol of `c12driver`.
//!
//! stdin: one request per line, payload text hex-encoded UTF-8 (arbitrary bytes fit on a line):
//!   lex <hex>         tokens of `steel_parser::lexer::TokenStream` (comments kept) with byte spans
//!   read <hex>        every datum of the text: `Parser::new_flat` (what `(read)` uses) + the
//!                     ExprKind -> SteelVal conversion of `(read)`; canonical datum dump
//!   parse <hex>       `Parser::parse` (program level, with lowering): ok <n> | err ...
//!   ast <hex>         parse; canonical dump of the ExprKind trees, their Display text, dump of the re-parsed text
//!   pretty <hex>      parse; print every tree with Display and to_pretty(60); parse again; compare the printed trees
//!   write <datum>     build the value, `(write d port)` into a string port; hex of the text
//!   roundtrip <datum> write, then `(read (open-input-string text))`, then `(equal? d back)`
//!   printrt <datum>   `(print d port)` (scheme/print.scm: the writer that quotes symbols with `|..|`), then
//!                     `(read (open-input-string text))`; equal = the datum read back is `(quote d')` or a
//!                     self-evaluating `d'` with `(equal? d d')`
//!   eval <hex>        run the program text on a fresh-enough engine: ok <datum of last value> | err <first line> | panic ..
//!   unitable          the two escape classifications of Rust's `{:?}` used by the writer
//!   intlit            whether IntLiteral::from_str_radix accepts `_` between digits
//! stdout: one line per request (see the functions below), flushed per line.
//!   A panic of the code under test is reported as `panic <message>` (a violation of C12 and C07).
//!
//! Datum notation (prefix, blank separated; the same in requests and in dumps):
//!   i<dec> | r<n>/<d> | t | f | c<hex code point> | s<hex utf8> | y<hex utf8> (symbol)
//!   F<16 hex bits> (float) | L<n> d1..dn | V<n> d1..dn | B<hex bytes> | P car cdr | O<hex> (other)
use std::io::{BufRead, Write};
use std::panic::{catch_unwind, AssertUnwindSafe};

use steel::parser::tryfrom_visitor::TryFromExprKindForSteelVal;
use steel::rvals::{SteelByteVector, SteelVector};
use steel::steel_vm::engine::Engine;
use steel::SteelVal;
use steel_parser::ast::ExprKind;
use steel_parser::lexer::{TokenError, TokenStream};
use steel_parser::parser::{ParseError, Parser};
use steel_parser::tokens::{IntLiteral, NumberLiteral, Paren, ParenMod, RealLiteral, TokenType};

fn hex(b: &[u8]) -> String {
    let mut s = String::with_capacity(b.len() * 2);
    for x in b {
        s.push_str(&format!("{:02x}", x));
    }
    s
}

fn unhex(s: &str) -> Option<Vec<u8>> {
    if s.len() % 2 != 0 {
        return None;
    }
    (0..s.len() / 2).map(|i| u8::from_str_radix(s.get(2 * i..2 * i + 2)?, 16).ok()).collect()
}

fn panic_msg(p: Box<dyn std::any::Any + Send>) -> String {
    let msg = if let Some(s) = p.downcast_ref::<String>() {
        s.clone()
    } else if let Some(s) = p.downcast_ref::<&str>() {
        s.to_string()
    } else {
        "?".to_string()
    };
    format!("panic {}", msg.lines().next().unwrap_or("").replace('\t', " "))
}

// ------------------------------------------------------------------------------------ tokens

fn paren(p: Paren) -> &'static str {
    match p {
        Paren::Round => "round",
        Paren::Square => "square",
        Paren::Curly => "curly",
    }
}

fn int_lit(i: &IntLiteral) -> String {
    match i {
        IntLiteral::Small(x) => format!("{}", x),
        IntLiteral::Big(b) => format!("{}", b),
    }
}

fn real_lit(r: &RealLiteral) -> String {
    match r {
        RealLiteral::Int(i) => format!("int:{}", int_lit(i)),
        RealLiteral::Rational(n, d) => format!("rat:{}/{}", int_lit(n), int_lit(d)),
        RealLiteral::Float(x) => {
            if x.is_nan() {
                "flt:nan".to_string()
            } else {
                format!("flt:{:016x}", x.into_inner().to_bits())
            }
        }
    }
}

fn num_lit(n: &NumberLiteral) -> String {
    match n {
        NumberLiteral::Real(r) => real_lit(r),
        NumberLiteral::Complex(a, b) => format!("cplx({},{})", real_lit(a), real_lit(b)),
        NumberLiteral::Polar(a, b) => format!("polar({},{})", real_lit(a), real_lit(b)),
    }
}

fn tok<T>(t: &TokenType<T>, resolve: &dyn Fn(&T) -> String) -> String {
    use TokenType::*;
    match t {
        OpenParen(p, None) => format!("open:{}", paren(*p)),
        OpenParen(p, Some(ParenMod::Vector)) => format!("open:{}:vec", paren(*p)),
        OpenParen(p, Some(ParenMod::Bytes)) => format!("open:{}:bytes", paren(*p)),
        CloseParen(p) => format!("close:{}", paren(*p)),
        QuoteTick => "tick".into(),
        QuasiQuote => "quasi".into(),
        Unquote => "unquote".into(),
        UnquoteSplice => "splice".into(),
        QuoteSyntax => "syn-quote".into(),
        QuasiQuoteSyntax => "syn-quasi".into(),
        UnquoteSyntax => "syn-unquote".into(),
        UnquoteSpliceSyntax => "syn-splice".into(),
        If => "kw:if".into(),
        Define => "kw:define".into(),
        Let => "kw:let".into(),
        TestLet => "kw:%plain-let".into(),
        Return => "kw:return!".into(),
        Begin => "kw:begin".into(),
        Lambda => "kw:lambda".into(),
        Quote => "kw:quote".into(),
        SyntaxRules => "kw:syntax-rules".into(),
        DefineSyntax => "kw:define-syntax".into(),
        Ellipses => "kw:...".into(),
        Set => "kw:set!".into(),
        Require => "kw:require".into(),
        CharacterLiteral(c) => format!("char:{:x}", *c as u32),
        DatumComment => "dcomment".into(),
        Comment => "comment".into(),
        BooleanLiteral(b) => format!("bool:{}", if *b { "t" } else { "f" }),
        Identifier(s) => format!("id:{}", hex(resolve(s).as_bytes())),
        Keyword(s) => format!("key:{}", hex(resolve(s).as_bytes())),
        Number(n) => format!("num:{}", num_lit(&n.resolve())),
        StringLiteral(s) => format!("str:{}", hex(s.resolve().as_bytes())),
        Dot => "dot".into(),
    }
}

fn token_error(e: &TokenError) -> String {
    match e {
        TokenError::UnexpectedChar(c) => format!("unexpected-char:{:x}", *c as u32),
        TokenError::IncompleteString => "incomplete-string".into(),
        TokenError::IncompleteIdentifier => "incomplete-ident".into(),
        TokenError::IncompleteComment => "incomplete-comment".into(),
        TokenError::InvalidWhitespace => "invalid-ws".into(),
        TokenError::InvalidStringEscape(c) => format!("invalid-escape:{:x}", *c as u32),
        TokenError::InvalidCharacter => "invalid-char".into(),
        TokenError::ZeroDenominator => "zero-denom".into(),
        TokenError::UnclosedHexEscape(c) => format!("unclosed-hex:{:x}", *c as u32),
        TokenError::InvalidCharName => "invalid-char-name".into(),
        TokenError::InvalidHexEscapeLiteral(_) => "invalid-hex-literal".into(),
        TokenError::InvalidHexCodePoint(c) => format!("invalid-codepoint:{:x}", c),
    }
}

fn do_lex(src: &str) -> String {
    let mut out = String::from("tokens");
    let mut n = 0usize;
    let limit = src.len() + 4;
    for t in TokenStream::new(src, false, None) {
        n += 1;
        if n > limit {
            out.push_str(" NONTERMINATION");
            break;
        }
        match t {
            Ok(t) => {
                out.push(' ');
                out.push_str(&tok(&t.ty, &|s: &steel_parser::interner::InternedString| s.resolve().to_string()));
                out.push_str(&format!("@{}-{}", t.span.start, t.span.end));
            }
            Err(e) => {
                out.push_str(&format!(" E:{}@{}-{}", token_error(&e.ty), e.span.start, e.span.end));
            }
        }
    }
    out
}

// ------------------------------------------------------------------------------------ data

fn dump(v: &SteelVal, out: &mut String) {
    match v {
        SteelVal::IntV(i) => out.push_str(&format!("i{}", i)),
        SteelVal::BigNum(b) => out.push_str(&format!("i{}", b.as_ref())),
        SteelVal::Rational(r) => out.push_str(&format!("r{}/{}", r.numer(), r.denom())),
        SteelVal::BigRational(r) => out.push_str(&format!("r{}/{}", r.numer(), r.denom())),
        SteelVal::NumV(x) => {
            if x.is_nan() {
                out.push_str("Fnan")
            } else {
                out.push_str(&format!("F{:016x}", x.to_bits()))
            }
        }
        SteelVal::BoolV(b) => out.push_str(if *b { "t" } else { "f" }),
        SteelVal::CharV(c) => out.push_str(&format!("c{:x}", *c as u32)),
        SteelVal::StringV(s) => out.push_str(&format!("s{}", hex(s.as_str().as_bytes()))),
        SteelVal::SymbolV(s) => out.push_str(&format!("y{}", hex(s.as_str().as_bytes()))),
        SteelVal::ListV(l) => {
            out.push_str(&format!("L{}", l.len()));
            for x in l.iter() {
                out.push(' ');
                dump(x, out);
            }
        }
        SteelVal::VectorV(l) => {
            out.push_str(&format!("V{}", l.len()));
            for x in l.iter() {
                out.push(' ');
                dump(x, out);
            }
        }
        SteelVal::ByteVector(b) => {
            let text = format!("{}", v);
            // `#u8(#x01 #xFF)`: recover the bytes from the canonical print (the field is private)
            let _ = b;
            let bytes: Vec<u8> = text
                .trim_start_matches("#u8(")
                .trim_end_matches(')')
                .split_whitespace()
                .filter_map(|t| u8::from_str_radix(t.trim_start_matches("#x"), 16).ok())
                .collect();
            out.push_str(&format!("B{}", hex(&bytes)));
        }
        SteelVal::Pair(p) => {
            out.push_str("P ");
            dump(&p.car(), out);
            out.push(' ');
            dump(&p.cdr(), out);
        }
        other => {
            let text = catch_unwind(AssertUnwindSafe(|| format!("{}", other))).unwrap_or_else(|_| "<unprintable>".into());
            out.push_str(&format!("O{}", hex(text.as_bytes())));
        }
    }
}

fn dumps(v: &SteelVal) -> String {
    let mut s = String::new();
    dump(v, &mut s);
    s
}

fn syntax_code(msg: &str) -> String {
    let table: &[(&str, &str)] = &[
        ("improper lists can only have a single dot", "dot-twice"),
        ("improper lists must have a car element before the dot", "dot-first"),
        ("vector literals cannot contain dots", "dot-in-vector"),
        ("bytevector literals cannot contain dots", "dot-in-bytes"),
        ("commented-out datum cannot start with a dot", "dot-after-comment"),
        ("improper list must have a single cdr", "dot-cdr"),
        ("bytevector literals can only contain integer literals", "bytes-range"),
        ("invalid datum comment", "bad-datum-comment"),
        ("unfinished commented-out expression", "unfinished-comment"),
        ("unexpected character, expected whitespace or newline", "invalid-ws"),
        ("unexpected char", "unexpected-char"),
        ("invalid escape", "invalid-escape"),
        ("invalid character name", "invalid-char-name"),
        ("invalid character", "invalid-char"),
        ("division by zero is not allowed in rational literals", "zero-denom"),
        ("unclosed hex escape", "unclosed-hex"),
        ("invalid hex escape literal", "invalid-hex-literal"),
        ("invalid code point", "invalid-codepoint"),
    ];
    for (p, c) in table {
        if msg.starts_with(p) {
            return (*c).to_string();
        }
    }
    format!("other:{}", hex(msg.as_bytes()))
}

fn parse_error(e: &ParseError) -> String {
    let sp = e.span();
    let kind = match e {
        ParseError::MismatchedParen(p, _, _) => format!("mismatched:{}", paren(*p)),
        ParseError::UnexpectedEOF(..) => "eof".to_string(),
        ParseError::UnexpectedChar(c, _, _) => format!("unexpected-close:{:x}", *c as u32),
        ParseError::SyntaxError(m, _, _) => format!("syntax:{}", syntax_code(m)),
        ParseError::ArityMismatch(..) => "arity".to_string(),
    };
    format!("err {} {} {}", kind, sp.start, sp.end)
}

/// Every datum of `src` the way `(read)` obtains one: flat parser, then the quoted conversion.
fn read_all(src: &str) -> Result<Vec<SteelVal>, String> {
    let mut out = Vec::new();
    for e in Parser::new_flat(src, None) {
        match e {
            Ok(e) => match TryFromExprKindForSteelVal::try_from_expr_kind_quoted(e) {
                Ok(v) => out.push(v),
                Err(err) => {
                    let first = format!("{}", err);
                    return Err(format!("err convert:{} 0 0", hex(first.lines().next().unwrap_or("").as_bytes())));
                }
            },
            Err(err) => return Err(parse_error(&err)),
        }
    }
    Ok(out)
}

fn do_read(src: &str) -> String {
    match read_all(src) {
        Ok(vs) => {
            let mut s = format!("ok {}", vs.len());
            for v in &vs {
                s.push(' ');
                dump(v, &mut s);
            }
            s
        }
        Err(e) => e,
    }
}

fn do_parse(src: &str) -> String {
    match Parser::parse(src) {
        Ok(v) => format!("ok {}", v.len()),
        Err(e) => parse_error(&e),
    }
}

/// canonical dump of an `ExprKind` tree: constructor tags + atoms, no spans (prefix notation, blank separated)
///   a<token> | I c t e | D name body | F<n>[r] a1..an body | G<n> e.. | T<n> n1 v1 .. body | Q e | S v e
///   L<n>[i] e.. | V<n>[b] e.. | R e | X<hex of Display> (macros, require, syntax-rules)
fn dump_ast(e: &ExprKind, out: &mut Vec<String>) {
    match e {
        ExprKind::Atom(a) => out.push(format!(
            "a{}",
            tok(&a.syn.ty, &|s: &steel_parser::interner::InternedString| s.resolve().to_string())
        )),
        ExprKind::If(i) => {
            out.push("I".into());
            dump_ast(&i.test_expr, out);
            dump_ast(&i.then_expr, out);
            dump_ast(&i.else_expr, out);
        }
        ExprKind::Define(d) => {
            out.push("D".into());
            dump_ast(&d.name, out);
            dump_ast(&d.body, out);
        }
        ExprKind::LambdaFunction(l) => {
            out.push(format!("F{}{}", l.args.len(), if l.rest { "r" } else { "" }));
            for a in l.args.iter() {
                dump_ast(a, out);
            }
            dump_ast(&l.body, out);
        }
        ExprKind::Begin(b) => {
            out.push(format!("G{}", b.exprs.len()));
            for x in b.exprs.iter() {
                dump_ast(x, out);
            }
        }
        ExprKind::Let(l) => {
            out.push(format!("T{}", l.bindings.len()));
            for (n, v) in l.bindings.iter() {
                dump_ast(n, out);
                dump_ast(v, out);
            }
            dump_ast(&l.body_expr, out);
        }
        ExprKind::Quote(q) => {
            out.push("Q".into());
            dump_ast(&q.expr, out);
        }
        ExprKind::Set(x) => {
            out.push("S".into());
            dump_ast(&x.variable, out);
            dump_ast(&x.expr, out);
        }
        ExprKind::List(l) => {
            out.push(format!("L{}{}", l.args.len(), if l.improper { "i" } else { "" }));
            for x in l.args.iter() {
                dump_ast(x, out);
            }
        }
        ExprKind::Vector(v) => {
            out.push(format!("V{}{}", v.args.len(), if v.bytes { "b" } else { "" }));
            for x in v.args.iter() {
                dump_ast(x, out);
            }
        }
        ExprKind::Return(r) => {
            out.push("R".into());
            dump_ast(&r.expr, out);
        }
        other => out.push(format!("X{}", hex(format!("{}", other).as_bytes()))),
    }
}

/// `ast TEXT`: `Parser::parse`, the dump of every tree, the `Display` text of the program, and the dump of the
/// trees obtained by parsing that text again (`back=` - the oracle parse(pretty(ast)) = ast compares the two)
fn do_ast(src: &str) -> String {
    let first: Vec<ExprKind> = match Parser::parse(src) {
        Ok(v) => v,
        Err(e) => return parse_error(&e),
    };
    let dump = |v: &Vec<ExprKind>| {
        let mut out = Vec::new();
        for e in v.iter() {
            dump_ast(e, &mut out);
        }
        out.join("_")
    };
    let text = first.iter().map(|e| format!("{}", e)).collect::<Vec<_>>().join("\n");
    let back = match catch_unwind(AssertUnwindSafe(|| Parser::parse(&text))) {
        Ok(Ok(second)) => format!("ok:{}:{}", second.len(), dump(&second)),
        Ok(Err(e)) => parse_error(&e).replace(' ', "_"),
        Err(_) => "panic".to_string(),
    };
    format!("ok {} ast={} text={} back={}", first.len(), dump(&first), hex(text.as_bytes()), back)
}

fn do_pretty(src: &str) -> String {
    let first: Vec<ExprKind> = match Parser::parse(src) {
        Ok(v) => v,
        Err(e) => return parse_error(&e),
    };
    let mut res = Vec::new();
    for (name, text) in [
        ("display", first.iter().map(|e| format!("{}", e)).collect::<Vec<_>>().join("\n")),
        ("pretty", first.iter().map(|e| e.to_pretty(60)).collect::<Vec<_>>().join("\n")),
    ] {
        // the printed text is new reader input: a panic on it is reported with that text (not as a failure on `src`)
        let reparsed = match catch_unwind(AssertUnwindSafe(|| Parser::parse(&text))) {
            Ok(r) => r,
            Err(_) => {
                res.push(format!("{}=reparse-panic:{}", name, hex(text.as_bytes())));
                continue;
            }
        };
        match reparsed {
            Ok(second) => {
                // `==` on ExprKind compares source locations of lists, so compare the trees through
                // their (location-free) printed form: same number of expressions, same text
                let a: Vec<String> = first.iter().map(|e| format!("{}", e)).collect();
                let b: Vec<String> = second.iter().map(|e| format!("{}", e)).collect();
                if a == b {
                    res.push(format!("{}=same", name));
                } else {
                    res.push(format!("{}=diff:{}", name, hex(text.as_bytes())));
                }
            }
            Err(e) => res.push(format!("{}=reparse-{}:{}", name, parse_error(&e).replace(' ', "_"), hex(text.as_bytes()))),
        }
    }
    format!("ok {} {}", first.len(), res.join(" "))
}

// ------------------------------------------------------------------------------------ values

struct World {
    engine: Engine,
    fresh: bool,
    reader_global: Option<String>,
}

const PRELUDE: &str = r#"
(require-builtin #%private/steel/reader as c12reader.)
(define (c12-write d) (let ((p (open-output-string))) (write d p) (get-output-string p)))
(define (c12-read s) (read (open-input-string s)))
(define (c12-print d) (let ((p (open-output-string))) (print d p) (get-output-string p)))
(define (c12-new-reader) (c12reader.new-reader))
"#;

impl World {
    fn new() -> World {
        let mut engine = Engine::new();
        engine.compile_and_run_raw_program(PRELUDE).expect("prelude");
        let reader_global = engine
            .globals()
            .iter()
            .map(|s| s.resolve().to_string())
            .find(|s| s.ends_with("*reader*") && s.contains("reader"));
        World { engine, fresh: true, reader_global }
    }

    /// `(read)` keeps its text in one module-level reader object shared by all ports: left-over
    /// text of one call would be parsed by the next.  Put a new reader object in that global, which
    /// is the state of a fresh engine.  Returns false when that was not possible.
    fn reset_reader(&mut self) -> bool {
        let Some(name) = self.reader_global.clone() else { return false };
        let Ok(fresh) = self.call("c12-new-reader", vec![]) else { return false };
        self.engine.update_value(&name, fresh).is_some()
    }

    fn call(&mut self, f: &str, args: Vec<SteelVal>) -> Result<SteelVal, String> {
        self.fresh = false;
        self.engine
            .call_function_by_name_with_args(f, args)
            .map_err(|e| format!("{}", e).lines().next().unwrap_or("").to_string())
    }

    fn big(&mut self, digits: &str) -> Result<SteelVal, String> {
        let (neg, digits) = match digits.strip_prefix('-') {
            Some(d) => (true, d),
            None => (false, digits),
        };
        if digits.is_empty() || !digits.bytes().all(|b| b.is_ascii_digit()) {
            return Err(format!("bad integer {}", digits));
        }
        // value = fold of 15-digit chunks with the engine's own exact arithmetic (no reader involved)
        let mut acc = SteelVal::IntV(0);
        let bytes = digits.as_bytes();
        let mut i = 0;
        while i < bytes.len() {
            let j = (i + 15).min(bytes.len());
            let chunk: isize = digits[i..j].parse().unwrap();
            let scale: isize = 10isize.pow((j - i) as u32);
            acc = self.call("*", vec![acc, SteelVal::IntV(scale)])?;
            acc = self.call("+", vec![acc, SteelVal::IntV(chunk)])?;
            i = j;
        }
        if neg {
            acc = self.call("-", vec![acc])?;
        }
        Ok(acc)
    }

    fn build(&mut self, toks: &mut std::slice::Iter<&str>) -> Result<SteelVal, String> {
        let t = *toks.next().ok_or("datum expected")?;
        let (tag, rest) = t.split_at(1);
        match tag {
            "i" => self.big(rest),
            "r" => {
                let (n, d) = rest.split_once('/').ok_or("bad rational")?;
                let n = self.big(n)?;
                let d = self.big(d)?;
                self.call("/", vec![n, d])
            }
            "t" => Ok(SteelVal::BoolV(true)),
            "f" => Ok(SteelVal::BoolV(false)),
            "c" => {
                let cp = u32::from_str_radix(rest, 16).map_err(|_| "bad char")?;
                Ok(SteelVal::CharV(char::from_u32(cp).ok_or("not a scalar value")?))
            }
            "s" => {
                let b = unhex(rest).ok_or("bad hex")?;
                Ok(SteelVal::StringV(String::from_utf8(b).map_err(|_| "not utf8")?.into()))
            }
            "y" => {
                let b = unhex(rest).ok_or("bad hex")?;
                Ok(SteelVal::SymbolV(String::from_utf8(b).map_err(|_| "not utf8")?.into()))
            }
            "F" => {
                let bits = u64::from_str_radix(rest, 16).map_err(|_| "bad float bits")?;
                Ok(SteelVal::NumV(f64::from_bits(bits)))
            }
            "L" | "V" => {
                let n: usize = rest.parse().map_err(|_| "bad count")?;
                let mut items = Vec::with_capacity(n);
                for _ in 0..n {
                    items.push(self.build(toks)?);
                }
                if tag == "L" {
                    Ok(SteelVal::ListV(items.into_iter().collect()))
                } else {
                    Ok(SteelVal::VectorV(items.into_iter().collect::<SteelVector>()))
                }
            }
            "B" => Ok(SteelVal::ByteVector(SteelByteVector::new(unhex(rest).ok_or("bad hex")?))),
            "P" => {
                let a = self.build(toks)?;
                let d = self.build(toks)?;
                self.call("cons", vec![a, d])
            }
            _ => Err(format!("unknown datum tag {}", tag)),
        }
    }

    fn datum(&mut self, spec: &str) -> Result<SteelVal, String> {
        let toks: Vec<&str> = spec.split_whitespace().collect();
        let mut it = toks.iter();
        let v = self.build(&mut it)?;
        if it.next().is_some() {
            return Err("trailing datum tokens".into());
        }
        Ok(v)
    }

    fn write(&mut self, d: &SteelVal) -> Result<String, String> {
        match self.call("c12-write", vec![d.clone()])? {
            SteelVal::StringV(s) => Ok(s.as_str().to_string()),
            other => Err(format!("write produced {}", other)),
        }
    }
}

fn do_write(w: &mut World, spec: &str) -> String {
    let d = match w.datum(spec) {
        Ok(d) => d,
        Err(e) => return format!("bad {}", e),
    };
    match w.write(&d) {
        Ok(t) => format!("text={} built={}", hex(t.as_bytes()), dumps(&d)),
        Err(e) => format!("err write:{}", hex(e.as_bytes())),
    }
}

/// `reset` is set when the engine's (global, shared) reader may hold left-over text.
fn do_roundtrip(w: &mut World, spec: &str, reset: &mut bool) -> String {
    let d = match w.datum(spec) {
        Ok(d) => d,
        Err(e) => return format!("bad {}", e),
    };
    let text = match w.write(&d) {
        Ok(t) => t,
        Err(e) => return format!("err write:{}", hex(e.as_bytes())),
    };
    // what a fresh flat parser makes of the whole text (decides whether the shared reader stays clean)
    let all = catch_unwind(AssertUnwindSafe(|| read_all(&text)));
    let (count, direct) = match &all {
        Ok(Ok(vs)) => (vs.len() as isize, vs.first().map(dumps).unwrap_or_else(|| "none".into())),
        Ok(Err(e)) => (-1, e.replace(' ', "_")),
        Err(_) => (-2, "panic".into()),
    };
    // the first datum alone (what one `(read port)` is expected to return)
    let first = catch_unwind(AssertUnwindSafe(|| match Parser::new_flat(&text, None).next() {
        None => "none".to_string(),
        Some(Err(e)) => parse_error(&e).replace(' ', "_"),
        Some(Ok(e)) => match TryFromExprKindForSteelVal::try_from_expr_kind_quoted(e) {
            Ok(v) => dumps(&v).replace(' ', "_"),
            Err(_) => "err_convert".to_string(),
        },
    }))
    .unwrap_or_else(|_| "panic".into());
    let back = w.call("c12-read", vec![SteelVal::StringV(text.clone().into())]);
    let (back_s, equal) = match &back {
        Ok(b) => {
            let eq = match w.call("equal?", vec![d.clone(), b.clone()]) {
                Ok(SteelVal::BoolV(x)) => x,
                _ => false,
            };
            (dumps(b), eq)
        }
        Err(e) => (format!("E{}", hex(e.as_bytes())), false),
    };
    if !(equal && count == 1) {
        *reset = true;
    }
    format!(
        "text={} built={} back={} equal={} count={} direct={} first={}",
        hex(text.as_bytes()),
        dumps(&d).replace(' ', "_"),
        back_s.replace(' ', "_"),
        equal,
        count,
        direct.replace(' ', "_"),
        first
    )
}

/// `print` then `read`: the printed text is `'d`, so the datum read back must be `(quote d)`.
fn do_printrt(w: &mut World, spec: &str, reset: &mut bool) -> String {
    let d = match w.datum(spec) {
        Ok(d) => d,
        Err(e) => return format!("bad {}", e),
    };
    let text = match w.call("c12-print", vec![d.clone()]) {
        Ok(SteelVal::StringV(s)) => s.as_str().to_string(),
        Ok(other) => return format!("err print:{}", hex(format!("{}", other).as_bytes())),
        Err(e) => return format!("err print:{}", hex(e.as_bytes())),
    };
    let all = catch_unwind(AssertUnwindSafe(|| read_all(&text)));
    let (count, direct) = match &all {
        Ok(Ok(vs)) => (vs.len() as isize, vs.first().map(dumps).unwrap_or_else(|| "none".into())),
        Ok(Err(e)) => (-1, e.replace(' ', "_")),
        Err(_) => (-2, "panic".into()),
    };
    // the printed text is an expression for `d`: `(quote d)`, or `d` itself when `d` evaluates to itself
    let self_evaluating = !matches!(d, SteelVal::SymbolV(_) | SteelVal::ListV(_) | SteelVal::Pair(_));
    let back = w.call("c12-read", vec![SteelVal::StringV(text.clone().into())]);
    let (back_s, equal) = match &back {
        Ok(b) => {
            let quoted: Option<SteelVal> = match b {
                SteelVal::ListV(l) if l.len() == 2 => match l.iter().next() {
                    Some(SteelVal::SymbolV(s)) if s.as_str() == "quote" => l.iter().nth(1).cloned(),
                    _ => None,
                },
                _ => None,
            };
            let (x, allowed) = match quoted {
                Some(x) => (x, true),
                None => (b.clone(), self_evaluating),
            };
            let eq = allowed
                && match w.call("equal?", vec![d.clone(), x]) {
                    Ok(SteelVal::BoolV(x)) => x,
                    _ => false,
                };
            (dumps(b), eq)
        }
        Err(e) => (format!("E{}", hex(e.as_bytes())), false),
    };
    if !(equal && count == 1) {
        *reset = true;
    }
    format!(
        "text={} back={} equal={} count={} direct={}",
        hex(text.as_bytes()),
        back_s.replace(' ', "_"),
        equal,
        count,
        direct.replace(' ', "_")
    )
}

fn unitable() {
    // classification of every scalar value by the two Rust formatters the writer relies on:
    //   S = how `{:?}` of a str prints the char: l(iteral) n(amed backslash escape) u(\u{..})
    //   C = whether `char::escape_debug().len() <= 2` (the character writer prints it literally)
    //   w = `char::is_whitespace`, d = `char::is_ascii_digit` (what the lexer branches on)
    let mut prev: Option<(u32, String)> = None;
    let mut start = 0u32;
    let stdout = std::io::stdout();
    let mut out = stdout.lock();
    for cp in 0..=0x110000u32 {
        let class = match char::from_u32(cp) {
            None => "-".to_string(),
            Some(c) => {
                let dbg = format!("{:?}", c.to_string());
                let inner = &dbg[1..dbg.len() - 1];
                let s = if inner == c.to_string() {
                    "l".to_string()
                } else if inner.starts_with("\\u{") {
                    if inner == format!("\\u{{{:x}}}", cp) { "u".to_string() } else { format!("?{}", inner) }
                } else {
                    format!("n{}", hex(inner.as_bytes()))
                };
                let ch = if c.escape_debug().len() <= 2 { "p" } else { "x" };
                let ws = if c.is_whitespace() { "w" } else { "" };
                let dg = if c.is_ascii_digit() { "d" } else { "" };
                format!("{}{}{}{}", s, ch, ws, dg)
            }
        };
        match &prev {
            Some((_, pc)) if *pc == class && cp != 0x110000 => {}
            _ => {
                if let Some((_, pc)) = &prev {
                    writeln!(out, "{:x} {:x} {}", start, cp - 1, pc).unwrap();
                }
                start = cp;
                prev = Some((cp, class));
            }
        }
    }
}

fn main() {
    std::panic::set_hook(Box::new(|_| {}));
    let args: Vec<String> = std::env::args().collect();
    if args.get(1).map(|s| s.as_str()) == Some("unitable") {
        unitable();
        return;
    }
    if args.get(1).map(|s| s.as_str()) == Some("intlit") {
        // does the integer parser of the tree take `_` between digits (the BigInt fallback of
        // IntLiteral::from_str_radix)?  The translator turns the answer into `Gen.intUnderscoreFallback`.
        let lenient = steel_parser::tokens::IntLiteral::from_str_radix("1_0", 10).is_ok();
        println!("underscore {}", if lenient { 1 } else { 0 });
        return;
    }
    let stdin = std::io::stdin();
    let stdout = std::io::stdout();
    let mut out = stdout.lock();
    let mut world: Option<World> = None;
    for line in stdin.lock().lines() {
        let line = match line {
            Ok(l) => l,
            Err(_) => break,
        };
        let line = line.trim();
        if line.is_empty() || line.starts_with('#') {
            continue;
        }
        let (op, arg) = line.split_once(' ').unwrap_or((line, ""));
        let res = match op {
            "lex" | "read" | "parse" | "pretty" | "ast" => match unhex(arg).map(String::from_utf8) {
                Some(Ok(src)) => {
                    let r = catch_unwind(AssertUnwindSafe(|| match op {
                        "lex" => do_lex(&src),
                        "read" => do_read(&src),
                        "parse" => do_parse(&src),
                        "ast" => do_ast(&src),
                        _ => do_pretty(&src),
                    }));
                    r.unwrap_or_else(panic_msg)
                }
                Some(Err(_)) => "bad not-utf8".to_string(),
                None => "bad hex".to_string(),
            },
            "eval" => match unhex(arg).map(String::from_utf8) {
                Some(Ok(src)) => {
                    if world.is_none() {
                        world = Some(World::new());
                    }
                    let w = world.as_mut().unwrap();
                    let r = catch_unwind(AssertUnwindSafe(|| w.engine.compile_and_run_raw_program(src)));
                    match r {
                        Ok(Ok(vals)) => match vals.last() {
                            Some(v) => format!("ok {}", dumps(v)),
                            None => "ok none".to_string(),
                        },
                        Ok(Err(e)) => format!("err {}", hex(format!("{}", e).lines().next().unwrap_or("").as_bytes())),
                        Err(p) => {
                            world = None;
                            panic_msg(p)
                        }
                    }
                }
                _ => "bad hex".to_string(),
            },
            "write" | "roundtrip" | "printrt" => {
                if world.is_none() {
                    world = Some(World::new());
                }
                let mut reset = false;
                let r = {
                    let w = world.as_mut().unwrap();
                    catch_unwind(AssertUnwindSafe(|| {
                        if op == "write" {
                            do_write(w, arg)
                        } else if op == "printrt" {
                            do_printrt(w, arg, &mut reset)
                        } else {
                            do_roundtrip(w, arg, &mut reset)
                        }
                    }))
                };
                let mut drop_world = false;
                let r = match r {
                    Ok(s) => s,
                    Err(p) => {
                        drop_world = true;
                        panic_msg(p)
                    }
                };
                if drop_world || (reset && !world.as_mut().unwrap().reset_reader()) {
                    world = None;
                }
                r
            }
            _ => "bad op".to_string(),
        };
        writeln!(out, "{}", res).unwrap();
        out.flush().unwrap();
    }
}
