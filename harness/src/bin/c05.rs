//! C05 harness: drives the real `steel_rc::BiasedRc` through a deterministic schedule.
//!
//! stdin: one schedule line per step (see `lean/SteelVerif/C05/Driver.lean` for the same protocol):
//!   spawn T | T new | T clone | T drop | T move U | T unique | T unwrap | T count
//!   T register | T merge | T exit | T step | T run <op> [arg]   (run = start + steps until done)
//! stdout: for every line `<event> | <state>` where event is `yield <site>`, `done <result>`,
//! `blocked`, or `bad <why>` (line not executable) and state is the observable protocol state:
//!   w=<cnt>,<merged>,<queued> b=<biased> o=<some|none> drops=<n> freed=<n> q=<reg>,<unreg> held=<h0,h1,..>
//! (`w`, `b`, `o` are `-` before `new`).  The object memory is quarantined (never returned to the
//! allocator), so reading the word after a free is defined behaviour of the harness.
use std::mem::ManuallyDrop;
use std::sync::atomic::{AtomicUsize, Ordering};
use std::sync::mpsc::{channel, Receiver, Sender};
use std::time::Duration;

use steel_rc::{verif, BiasedRc, QueueHandle};

static DROPS: AtomicUsize = AtomicUsize::new(0);

struct Payload {
    magic: u64,
}
impl Drop for Payload {
    fn drop(&mut self) {
        DROPS.fetch_add(1, Ordering::SeqCst);
        self.magic = 0xdead;
    }
}

type Rc = BiasedRc<Payload>;

enum Cmd {
    Op(String),
    Recv(Rc),
    Give,
    Go,
    Quit,
}
enum Ev {
    Yield(&'static str),
    Done(String),
    Gave(Rc),
}

thread_local! {
    static CHAN: std::cell::RefCell<Option<(Sender<Ev>, Receiver<Cmd>)>> = const { std::cell::RefCell::new(None) };
}

fn yield_cb(site: &'static str) {
    CHAN.with(|c| {
        let c = c.borrow();
        let (tx, rx) = c.as_ref().unwrap();
        tx.send(Ev::Yield(site)).unwrap();
        loop {
            match rx.recv().unwrap() {
                Cmd::Go => break,
                _ => panic!("unexpected command while parked"),
            }
        }
    })
}

fn worker(tx: Sender<Ev>, rx: Receiver<Cmd>, raw: std::sync::Arc<AtomicUsize>, held: std::sync::Arc<AtomicUsize>) {
    CHAN.with(|c| *c.borrow_mut() = Some((tx.clone(), rx)));
    verif::YIELD.with(|y| y.set(Some(yield_cb)));
    let mut refs: Vec<Rc> = Vec::new();
    loop {
        let cmd = CHAN.with(|c| c.borrow().as_ref().unwrap().1.recv().unwrap());
        match cmd {
            Cmd::Quit => {
                // leak whatever is left: the run is over
                for r in refs.drain(..) {
                    std::mem::forget(r);
                }
                return;
            }
            Cmd::Recv(r) => {
                refs.push(r);
                held.store(refs.len(), Ordering::SeqCst);
                tx.send(Ev::Done("ok".into())).unwrap();
            }
            Cmd::Give => {
                let r = refs.pop().unwrap();
                held.store(refs.len(), Ordering::SeqCst);
                tx.send(Ev::Gave(r)).unwrap();
            }
            Cmd::Go => panic!("go while idle"),
            Cmd::Op(op) => {
                let res: String = match op.as_str() {
                    "new" => {
                        let r = BiasedRc::new(Payload { magic: 0xfeed });
                        raw.store(BiasedRc::as_ptr(&r) as usize, Ordering::SeqCst);
                        refs.push(r);
                        "ok".into()
                    }
                    "clone" => {
                        let r = refs.last().unwrap().clone();
                        refs.push(r);
                        "ok".into()
                    }
                    "drop" => {
                        // the reference stops being held when the decrement is linearised, which the
                        // controller cannot see; `held` is updated when the operation completes.
                        let r = refs.pop().unwrap();
                        drop(r);
                        "ok".into()
                    }
                    "unique" => {
                        let r = refs.last_mut().unwrap();
                        let u = BiasedRc::get_mut(r).is_some();
                        format!("{}", u)
                    }
                    "unwrap" => {
                        let r = refs.pop().unwrap();
                        match BiasedRc::try_unwrap(r) {
                            Ok(p) => {
                                let m = p.magic;
                                drop(p);
                                format!("some:{:x}", m)
                            }
                            Err(r) => {
                                refs.push(r);
                                "none".into()
                            }
                        }
                    }
                    "count" => format!("{}", BiasedRc::strong_count(refs.last().unwrap())),
                    "deref" => format!("{:x}", refs.last().unwrap().magic),
                    "register" => {
                        QueueHandle::register_thread();
                        "ok".into()
                    }
                    "merge" => format!("{}", QueueHandle::run_explicit_merge()),
                    "exit" => {
                        QueueHandle::finish_thread_merge();
                        "ok".into()
                    }
                    _ => "unknown".into(),
                };
                held.store(refs.len(), Ordering::SeqCst);
                tx.send(Ev::Done(res)).unwrap();
            }
        }
    }
}

struct Thread {
    tx: Sender<Cmd>,
    rx: Receiver<Ev>,
    held: std::sync::Arc<AtomicUsize>,
    parked: bool,
    op: String,
}

fn main() {
    verif::QUARANTINE.store(true, Ordering::SeqCst);
    let raw = std::sync::Arc::new(AtomicUsize::new(0));
    let mut threads: Vec<Option<Thread>> = Vec::new();
    let stdin = std::io::stdin();
    let mut line = String::new();
    // a thread that does not answer within this time is reported as `blocked` (it waits for a lock);
    // the check re-runs a schedule with a longer limit before it believes a `blocked` (machine load)
    let timeout = Duration::from_millis(
        std::env::var("C05_TIMEOUT_MS").ok().and_then(|v| v.parse().ok()).unwrap_or(2000),
    );
    loop {
        line.clear();
        if stdin.read_line(&mut line).unwrap() == 0 {
            break;
        }
        let toks: Vec<&str> = line.split_whitespace().collect();
        if toks.is_empty() {
            continue;
        }
        if toks[0] == "reset" {
            println!("bad reset-unsupported");
            continue;
        }
        let ev: String = if toks[0] == "spawn" {
            let t: usize = toks[1].parse().unwrap();
            while threads.len() <= t {
                threads.push(None);
            }
            let (ctx, crx) = channel::<Cmd>();
            let (etx, erx) = channel::<Ev>();
            let raw2 = raw.clone();
            let held = std::sync::Arc::new(AtomicUsize::new(0));
            let held2 = held.clone();
            std::thread::spawn(move || worker(etx, crx, raw2, held2));
            threads[t] = Some(Thread { tx: ctx, rx: erx, held, parked: false, op: String::new() });
            "done ok".into()
        } else {
            let t: usize = match toks[0].parse() {
                Ok(t) => t,
                Err(_) => {
                    println!("bad parse");
                    continue;
                }
            };
            if t >= threads.len() || threads[t].is_none() {
                println!("bad no-thread");
                continue;
            }
            let op = toks[1];
            let run_to_end = op == "run";
            let op = if run_to_end { toks[2] } else { op };
            let arg = if run_to_end { toks.get(3) } else { toks.get(2) };
            if op == "move" {
                let u: usize = arg.unwrap().parse().unwrap();
                let th = threads[t].as_ref().unwrap();
                th.tx.send(Cmd::Give).unwrap();
                let r = match th.rx.recv().unwrap() {
                    Ev::Gave(r) => r,
                    _ => panic!(),
                };
                let tu = threads[u].as_ref().unwrap();
                tu.tx.send(Cmd::Recv(r)).unwrap();
                match tu.rx.recv().unwrap() {
                    Ev::Done(_) => {}
                    _ => panic!(),
                }
                "done ok".into()
            } else {
                let th = threads[t].as_mut().unwrap();
                if op == "step" {
                    if !th.parked {
                        println!("bad not-parked");
                        continue;
                    }
                    th.tx.send(Cmd::Go).unwrap();
                } else {
                    if th.parked {
                        println!("bad parked");
                        continue;
                    }
                    th.op = op.to_string();
                    th.tx.send(Cmd::Op(op.to_string())).unwrap();
                }
                let mut out;
                loop {
                    match th.rx.recv_timeout(timeout) {
                        Ok(Ev::Yield(site)) => {
                            th.parked = true;
                            out = format!("yield {}", site);
                            if run_to_end {
                                th.tx.send(Cmd::Go).unwrap();
                                continue;
                            }
                        }
                        Ok(Ev::Done(r)) => {
                            th.parked = false;
                            out = format!("done {}", r);
                        }
                        Ok(Ev::Gave(_)) => panic!(),
                        Err(_) => {
                            out = "blocked".into();
                        }
                    }
                    break;
                }
                out
            }
        };
        // observable state
        let p = raw.load(Ordering::SeqCst);
        let word = if p == 0 {
            "w=- b=- o=-".to_string()
        } else {
            let phantom = ManuallyDrop::new(unsafe { BiasedRc::<Payload>::from_raw(p as *const Payload) });
            let (c, m, q, b, some, _) = verif::debug_word(&phantom);
            format!(
                "w={},{},{} b={} o={}",
                c,
                m as u8,
                q as u8,
                b,
                if some { "some" } else { "none" }
            )
        };
        // a parked `run_explicit_merge` holds a dashmap guard: reading the queues would block
        let guard_held = threads.iter().flatten().any(|t| t.parked && t.op == "merge");
        let q = if guard_held {
            "?,?".to_string()
        } else {
            let (qa, qb) = verif::queue_lengths();
            format!("{},{}", qa, qb)
        };
        let held: Vec<String> = threads
            .iter()
            .map(|t| match t {
                Some(t) => format!("{}", t.held.load(Ordering::SeqCst)),
                None => "-".into(),
            })
            .collect();
        println!(
            "{} | {} drops={} freed={} q={} held={}",
            ev,
            word,
            DROPS.load(Ordering::SeqCst),
            verif::quarantined(),
            q,
            held.join(",")
        );
    }
    for t in threads.iter().flatten() {
        if !t.parked {
            let _ = t.tx.send(Cmd::Quit);
        }
    }
    std::process::exit(0);
}
