//! C07 harness: "no input can crash the host; errors are returned and leave the engine usable", on the REAL engine.
//!
//!   c07 list                   one line per registered built-in: module TAB name TAB kind TAB arity
//!   c07 pool                   one line per pool value: index TAB scheme expression
//!   c07 engines [n]            create, use and drop n (300) engines in this one process: at which count does it fail?
//!   c07 globals                the global names of a fresh engine
//!   c07 probe                  the probe program and the result every probe run must give
//!   c07 texts <out>            stdin = jobs, records are appended to the file <out> (stdout/stderr stay free for
//!                              whatever the evaluated scripts print):
//!        N                     continue on a fresh engine
//!        T <id> <hex>          evaluate the text (bytes given in hex; invalid UTF-8 is converted lossily because the
//!                              engine's API takes &str) inside catch_unwind.  Records:
//!                                B <id>                              about to start (a record-less B = the child died here)
//!                                R <id> ok <n values>
//!                                R <id> err <ErrorKind> | <first line>
//!                                R <id> panic <file:line> | <via> | <message>
//!                              after every err / panic:
//!                                D <id> <frames> <stack>             `(#%verif-stack-depth)` evaluated next on the engine
//!                                Q <id> same | <hex of the probe's result>      the fixed probe program, same engine
//!                              a probe that differs makes the harness continue on a fresh engine (record `N <id>`).
//!        C <id> <hex> [<hex2> ..] callback family: evaluate the text; after an error: `L <id> same|<hex>` (the let-probe),
//!                              the text again, `D`, `Q`, then the handled variant hex2.. (one evaluation each, the last one's value counts): `W <id> <hex of its value>` and
//!                              `E <id> <frames> <stack>` (depth after that evaluation), `U <id> ok|err|panic <frames> <stack>`
//!                              (an unhandled error after handled ones, depth after it)
//!        M <id> <hex>          as T, but the text is written to a file under $C07_MODS and evaluated as a module:
//!                              `(require "<file>")`
//!        X <id> <hex>          evaluate, record `V <id> <hex of the values, Display, separated by U+001F>` (or R err/panic)
//!                              I <id> : the soft time limit passed and the interrupt was requested
//!                              H <id> : the hard limit passed, the process exits with status 3
//!                              O <id> <file:line> | <message> : a panic on a thread other than the evaluating one
//!   c07 builtins <out>         stdin = jobs:
//!        F <name> <module> <arity> <mode> <start> <end> [<in-module>]   apply the built-in to the pool tuples start..end
//!                              (in-module = 1: the applying loop is a procedure of a required module)
//!                              (arity 0..3; mode 0 = exhaustive (tuple k = digits of k in base n), mode 1 = pairwise for
//!                              arity 3: (i, j, (i+j) mod n)).  Records:
//!                                F <name> <arity> <mode> <start> <end>
//!                                P <name> <arity> <mode> <k> <file:line> | <via> | <message>    panic at tuple k
//!                                E <name> <arity> <mode> <k>          the sweep was left at tuple k (non-local exit)
//!                                G <name> <arity> <mode> ok=<n> err=<n> frames=<f> stack=<s> probe=<same|hex>
//!                              H <name> <arity> <mode> <k> after_panic=<0|1> : tuple k did not return in time; exit status 3
//!   c07 phase <out>            stdin = `T <id> <hex>` jobs: records `PH <id> start|read|expand|compile|run` as the text gets
//!                              through the reader, the expander, the compiler and the VM (names the phase that dies)
//!   K <file:line> | <via> | <message>     written by the panic hook at once (the last K before a death names an abort's panic)
//!   END                        last record of a complete run.
//! Environment: C07_SOFT_MS (interrupt after), C07_HARD_MS (give up after), the usual STEEL_* switches.
use std::io::{Read, Write};
use std::panic::{catch_unwind, AssertUnwindSafe};
use std::sync::atomic::{AtomicBool, AtomicI64, AtomicU64, AtomicUsize, Ordering};
use std::sync::Mutex;
use std::time::{Duration, Instant};

use steel::steel_vm::engine::Engine;
use steel::steel_vm::register_fn::RegisterFn;
use steel::SteelVal;

// ------------------------------------------------------------------------------------------- the pool

/// ~60 values: every value kind, boundary magnitudes.  Each is a Scheme expression evaluated on a fresh engine.
const POOL: &[&str] = &[
    // exact integers around the representation boundaries
    "0", "1", "-1", "2", "255", "256", "2147483647", "2147483648", "-2147483648", "-2147483649",
    "4611686018427387904", "9223372036854775807", "-9223372036854775808", "9223372036854775808",
    "18446744073709551616", "(expt 10 40)", "(- (expt 10 40))",
    // rationals with boundary components
    "1/2", "-1/2", "2147483647/2", "1/2147483647", "-2147483647/2147483646", "(/ (expt 10 30) 3)",
    // inexact
    "0.0", "(/ -1.0 +inf.0)", "1.5", "-2.5", "5e-324", "+inf.0", "-inf.0", "+nan.0", "1e308", "9007199254740993.0",
    // complex
    "1+2i",
    // booleans, characters, strings, symbols
    "#t", "#f", "#\\a", "#\\λ", "(integer->char 0)", "\"\"", "\"abc\"", "\"héλλo 😀 漢字\"", "(make-string 3000 #\\x)",
    "'sym", "(string->symbol \"a b\")", "'#:kw",
    // lists, pairs
    "'()", "(list 1 2 3)", "(range 0 3000)", "(cons 1 2)", "'((1 . 2) (3 4) \"s\")",
    // vectors, byte vectors
    "(vector)", "(vector 1 2 3)", "(make-vector 3000 0)", "(immutable-vector 1 2 3)", "(bytes)", "(bytes 1 2 255)",
    // hash maps, sets
    "(hash)", "(hash 'a 1 \"b\" 2)", "(hashset 1 2)",
    // procedures
    "(lambda (x) x)", "(lambda () 1)", "(lambda args args)", "car", "c07-k",
    // boxes, structs, ports, misc
    "(box 1)", "(C07S 1 2)", "(open-input-string \"abc def\")", "(open-output-string)", "void", "(eof-object)",
    "(with-handler (lambda (e) e) (error \"x\"))", "(Some 1)", "(Err 2)", "empty-stream", "(mapping (lambda (x) x))",
    "(make-weak-box (list 1))", "(mutex)", "(instant/now)", "c07-mv", "(string->jsexpr \"{\\\"a\\\": [1, 2.5, null]}\")",
    // small and mid-size integers: indices and counts a little inside / beyond the collections above
    "3", "4", "5", "7", "10", "12", "16", "50", "100", "300",
];

/// collections built afresh for every call (a temporary is uniquely referenced: the in-place fast paths of the
/// primitives are reached) with their lengths; the index arguments of the "indexed" sweep (mode 2) are derived from
/// the length: 0, 1, len-1, len, len+1, 2*len, len+39
const FRESH: &[(&str, usize)] = &[
    ("(string-append \"hello\" \" world\")", 11),
    ("(string-append \"h\u{e9}llo\" \" w\u{f6}rld\")", 11),
    ("(string-append)", 0),
    ("(list 1 2 3)", 3),
    ("(range 0 40)", 40),
    ("(vector 1 2 3)", 3),
    ("(make-vector 5 0)", 5),
    ("(immutable-vector 1 2 3)", 3),
    ("(apply immutable-vector (range 0 70))", 70),
    ("(bytes 1 2 3)", 3),
    ("(hash 'a 1 'b 2)", 2),
    ("(hashset 1 2 3)", 3),
];

/// mode 2: `(f <fresh collection> <index derived from its length> ...)`; the tuple index encodes the choice:
///   arity 1: k = collection;  arity 2: k = (collection*7 + d)*2 + swapped;
///   arity 3: k = collection*70 + x, x < 49: indices (x/7, x%7); x >= 49: index (x-49)/3 and the value (x-49)%3 of 0 #\a 'sym
const IDX_HELPER: &str = r#"
(define (c07-didx d len)
  (cond [(= d 0) 0] [(= d 1) 1] [(= d 2) (- len 1)] [(= d 3) len] [(= d 4) (+ len 1)] [(= d 5) (* 2 len)] [else (+ len 39)]))
(define c07-xvals (vector 0 #\a 'sym))
(define (c07-idx-call f arity k fresh)
  (cond
    [(= arity 1) (let ((e (vector-ref fresh k))) (f ((car e))))]
    [(= arity 2)
     (let* ((swap (remainder k 2)) (d (remainder (quotient k 2) 7)) (e (vector-ref fresh (quotient k 14))))
       (if (= swap 0)
           (f ((car e)) (c07-didx d (cdr e)))
           (f (c07-didx d (cdr e)) ((car e)))))]
    [else
     (let* ((x (remainder k 70)) (e (vector-ref fresh (quotient k 70))))
       (if (< x 49)
           (f ((car e)) (c07-didx (quotient x 7) (cdr e)) (c07-didx (remainder x 7) (cdr e)))
           (f ((car e)) (c07-didx (quotient (- x 49) 3) (cdr e)) (vector-ref c07-xvals (remainder (- x 49) 3)))))]))
;; mode 3 (aliased arguments, arities 3..5): every argument slot holds the collection V, a second instance W of the
;; same constructor, or an index derived from the length.  k = collection * b^arity + x, the digits of x in base
;; b = m + 2 choose the slots (0 = V, 1 = W, 2.. = index), m = 7 index values for arity 3 and 4 (0 1 len-1 len) for
;; arities 4 and 5.  Admitted: one or two collection slots, W only after V (V twice = the same object twice).
(define (c07-didx-m m d len)
  (if (= m 7) (c07-didx d len) (cond [(= d 0) 0] [(= d 1) 1] [(= d 2) (- len 1)] [else len])))
(define (c07-count-digit x b arity d)
  (let loop ((i 0) (x x) (n 0))
    (if (= i arity) n (loop (+ i 1) (quotient x b) (if (= (remainder x b) d) (+ n 1) n)))))
(define (c07-first-digit x b arity d)
  (let loop ((i 0) (x x))
    (cond [(= i arity) arity] [(= (remainder x b) d) i] [else (loop (+ i 1) (quotient x b))])))
(define (c07-alias-admitted? x b arity)
  (let ((nv (c07-count-digit x b arity 0)) (nw (c07-count-digit x b arity 1)))
    (if (< nv 1)
        #f
        (if (> (+ nv nw) 2) #f (< (c07-first-digit x b arity 0) (c07-first-digit x b arity 1))))))
(define (c07-alias-call f arity k fresh)
  (let* ((m (if (= arity 3) 7 4)) (b (+ m 2)) (per (expt b arity))
         (e (vector-ref fresh (quotient k per))) (x (remainder k per)))
    (if (not (c07-alias-admitted? x b arity))
        #f
        (let* ((v ((car e))) (w ((car e))) (len (cdr e))
               (slot (lambda (i) (let ((d (remainder (quotient x (expt b i)) b)))
                                   (cond [(= d 0) v] [(= d 1) w] [else (c07-didx-m m (- d 2) len)])))))
          (cond
            [(= arity 3) (f (slot 0) (slot 1) (slot 2))]
            [(= arity 4) (f (slot 0) (slot 1) (slot 2) (slot 3))]
            [else (f (slot 0) (slot 1) (slot 2) (slot 3) (slot 4))])))))
"#;

fn make_fresh_src() -> String {
    let mut s = String::from("(define (c07-make-fresh) (vector");
    for (e, n) in FRESH {
        s.push_str(&format!("\n  (cons (lambda () {}) {})", e, n));
    }
    s.push_str("))");
    s
}

const PRELUDE: &str = r#"
(struct C07S (a b))
(define c07-mv ((%module-get% %-builtin-module-#%private/steel/mvector 'mutable-vector-from-list) (list 1 2 3)))
(define c07-keep 'kept)
(define (c07-keep-fn x) (list x c07-keep))
"#;

const DEFINE_K: &str = "(define c07-k (call/cc (lambda (k) k)))";

/// The probe: defines, closures, a loop, handlers, a struct, a hash map, call/cc, an earlier definition.
const PROBE: &str = r#"
(define c07-probe-x 41)
(define (c07-probe-add1 n) (+ n 1))
(define c07-probe-counter (let ((n 0)) (lambda () (set! n (+ n 1)) n)))
(define (c07-probe-loop i acc) (if (= i 0) acc (c07-probe-loop (- i 1) (+ acc i))))
(struct C07Probe (a b))
(define c07-probe-result
  (list (c07-probe-add1 c07-probe-x)
        (c07-probe-counter) (c07-probe-counter)
        (c07-probe-loop 1000 0)
        (with-handler (lambda (e) 'handled) (error "x"))
        (with-handler (lambda (e) 'handled2) (car 1))
        (with-handler (lambda (e) 'handled3) (+ 1 (c07-probe-add1 1 2)))
        (C07Probe-b (C07Probe 1 2))
        (hash-ref (hash-insert (hash 'a 1) 'b 2) 'b)
        (call/cc (lambda (k) (+ 1 (k 7))))
        (+ 1 (call/cc (lambda (k) 1)))
        (map (lambda (x) (* x x)) (list 1 2 3))
        (let ((v (vector 1 2 3))) (vector-set! v 0 9) (vector-ref v 0))
        (string-append "a" (number->string 1/2))
        (c07-keep-fn 1)))
c07-probe-result
"#;
const PROBE_EXPECTED: &str = "(42 1 2 500500 handled handled2 handled3 2 2 7 2 (1 4 9) 9 \"a1/2\" (1 kept))";

/// The let-probe: a top-level `let*` / `let` with several variables and calls.  Top-level `let` variables are addressed
/// relative to the start of the operand stack, so operands that a failed evaluation left behind show up as wrong values;
/// the depth hook is read inside, so that the residue is seen before a successful evaluation clears it.  The expected
/// result is whatever a fresh engine answers (computed when the harness starts).
const LET_PROBE: &str = r#"
(let* ((a (c07-keep-fn 5)) (b (+ (car a) 1)) (c (list a b)))
  (let ((d (c07-keep-fn b)) (e (#%verif-stack-depth)) (f (length c)))
    (list a b c d e f)))
"#;
static LET_EXPECTED: std::sync::OnceLock<String> = std::sync::OnceLock::new();

fn let_probe(engine: &mut Engine) -> String {
    let got = match eval(engine, LET_PROBE.to_string()) {
        Out::Ok(v) => v.last().map(|x| format!("{}", x)).unwrap_or_default(),
        Out::Err(e) => format!("err {}", e),
        Out::Panic(p) => format!("panic {}", p),
    };
    let exp = LET_EXPECTED.get_or_init(|| {
        let mut fresh = new_engine();
        match eval(&mut fresh, LET_PROBE.to_string()) {
            Out::Ok(v) => v.last().map(|x| format!("{}", x)).unwrap_or_default(),
            _ => {
                emit("FATAL the let-probe fails on a fresh engine");
                std::process::exit(5);
            }
        }
    });
    if &got == exp {
        "same".to_string()
    } else {
        hex(format!("{} (expected {})", got, exp).as_bytes())
    }
}

// ------------------------------------------------------------------------------------------- panics

struct PanicRec {
    loc: String,
    msg: String,
    via: String,
    thread: std::thread::ThreadId,
}
static PANICS: Mutex<Vec<PanicRec>> = Mutex::new(Vec::new());
static BACKTRACES: AtomicUsize = AtomicUsize::new(0);
static VIA: Mutex<Option<std::collections::HashMap<String, String>>> = Mutex::new(None);

fn short_path(p: &str) -> String {
    if let Some(i) = p.find("/crates/") {
        return p[i + 1..].to_string();
    }
    if let Some(i) = p.find("/registry/src/") {
        let rest = &p[i + 14..];
        if let Some(j) = rest.find('/') {
            return rest[j + 1..].to_string();
        }
    }
    if let Some(i) = p.find("/library/") {
        return p[i + 1..].to_string();
    }
    p.to_string()
}

fn one_line(s: &str) -> String {
    let mut t: String = s.lines().next().unwrap_or("").chars().take(300).collect();
    t = t.replace('|', "/");
    t
}

fn install_hook() {
    std::panic::set_hook(Box::new(|info| {
        let loc = info
            .location()
            .map(|l| format!("{}:{}", short_path(l.file()), l.line()))
            .unwrap_or_else(|| "?".into());
        let msg = if let Some(s) = info.payload().downcast_ref::<String>() {
            s.clone()
        } else if let Some(s) = info.payload().downcast_ref::<&str>() {
            s.to_string()
        } else {
            "?".to_string()
        };
        // first steel frame of the backtrace: tells which primitive a panic inside a dependency came from
        // (symbolising a backtrace costs ~0.1 s: once per panic site)
        let cached = VIA.lock().ok().and_then(|g| g.as_ref().and_then(|m| m.get(&loc).cloned()));
        let via = match cached {
            Some(v) => v,
            None => {
                let mut via = String::new();
                if BACKTRACES.fetch_add(1, Ordering::SeqCst) < 400 {
                    let bt = std::backtrace::Backtrace::force_capture().to_string();
                    for line in bt.lines() {
                        let l = line.trim();
                        if let Some(i) = l.find(": ") {
                            let sym = &l[i + 2..];
                            if sym.starts_with("steel") || sym.starts_with("<steel") || sym.starts_with("im_lists")
                                || sym.starts_with("<im_lists") || sym.starts_with("steel_parser") {
                                via = sym.chars().take(160).collect();
                                break;
                            }
                        }
                    }
                }
                if let Ok(mut g) = VIA.lock() {
                    g.get_or_insert_with(Default::default).insert(loc.clone(), via.clone());
                }
                via
            }
        };
        emit(&format!("K {} | {} | {}", loc, via, one_line(&msg)));
        if let Ok(mut g) = PANICS.lock() {
            g.push(PanicRec { loc, msg: one_line(&msg), via, thread: std::thread::current().id() });
        }
    }));
}

fn take_panics() -> Vec<PanicRec> {
    PANICS.lock().map(|mut g| std::mem::take(&mut *g)).unwrap_or_default()
}

// ------------------------------------------------------------------------------------------- output + watchdog

static OUT: Mutex<Option<std::fs::File>> = Mutex::new(None);
/// `<out>.k`: the index of the tuple being applied, rewritten in place before every application (survives an abort)
static KFILE: std::sync::OnceLock<std::fs::File> = std::sync::OnceLock::new();

fn emit(line: &str) {
    if let Ok(mut g) = OUT.lock() {
        if let Some(f) = g.as_mut() {
            let _ = f.write_all(line.as_bytes());
            let _ = f.write_all(b"\n");
            let _ = f.flush();
        }
    }
}

/// what the evaluating thread is doing: label of the current unit, tuple index, start of the current step (ms), flags
static CUR_LABEL: Mutex<String> = Mutex::new(String::new());
static CUR_K: AtomicI64 = AtomicI64::new(-1);
static STEP_START_MS: AtomicU64 = AtomicU64::new(0);
static RUNNING: AtomicBool = AtomicBool::new(false);
static AFTER_PANIC: AtomicBool = AtomicBool::new(false);
static INTERRUPT_WANTED: AtomicBool = AtomicBool::new(false);
static OKS: AtomicU64 = AtomicU64::new(0);
static ERRS: AtomicU64 = AtomicU64::new(0);

fn now_ms(t0: Instant) -> u64 {
    t0.elapsed().as_millis() as u64
}

fn hex(b: &[u8]) -> String {
    let mut s = String::with_capacity(b.len() * 2);
    for x in b {
        s.push_str(&format!("{:02x}", x));
    }
    s
}

fn unhex(s: &str) -> Vec<u8> {
    let b = s.as_bytes();
    let mut v = Vec::with_capacity(b.len() / 2);
    let d = |c: u8| -> u8 {
        match c {
            b'0'..=b'9' => c - b'0',
            b'a'..=b'f' => c - b'a' + 10,
            b'A'..=b'F' => c - b'A' + 10,
            _ => 0,
        }
    };
    let mut i = 0;
    while i + 1 < b.len() {
        v.push(d(b[i]) * 16 + d(b[i + 1]));
        i += 2;
    }
    v
}

// ------------------------------------------------------------------------------------------- engine helpers

fn kind_of(v: &SteelVal) -> &'static str {
    match v {
        SteelVal::FuncV(_) => "FuncV",
        SteelVal::MutFunc(_) => "MutFunc",
        SteelVal::BuiltIn(_) => "BuiltIn",
        SteelVal::BoxedFunction(_) => "Boxed",
        SteelVal::Closure(_) => "Closure",
        _ => "value",
    }
}

enum Out {
    Ok(Vec<SteelVal>),
    Err(String),
    Panic(String),
}

fn eval(engine: &mut Engine, src: String) -> Out {
    let r = catch_unwind(AssertUnwindSafe(|| engine.compile_and_run_raw_program(src)));
    match r {
        Ok(Ok(v)) => Out::Ok(v),
        Ok(Err(e)) => {
            let msg = format!("{}", e);
            let first = one_line(&msg);
            let first = first.trim_start_matches("Error: ").to_string();
            let kind = first.split(':').next().unwrap_or("").to_string();
            Out::Err(format!("{} | {}", kind, first))
        }
        Err(_) => {
            let me = std::thread::current().id();
            let ps = take_panics();
            let mut s = String::from("? | | ?");
            for p in ps.iter().rev() {
                if p.thread == me {
                    s = format!("{} | {} | {}", p.loc, p.via, p.msg);
                    break;
                }
            }
            // give the others back (reported as O records)
            if let Ok(mut g) = PANICS.lock() {
                for p in ps {
                    if p.thread != me {
                        g.push(p);
                    }
                }
            }
            Out::Panic(s)
        }
    }
}

fn show(vals: &[SteelVal]) -> String {
    vals.iter().map(|v| format!("{}", v)).collect::<Vec<_>>().join("\u{1f}")
}

fn new_engine() -> Engine {
    let mut e = Engine::new();
    e.register_fn("c07-at", |k: isize| -> bool {
        CUR_K.store(k as i64, Ordering::SeqCst);
        if let Some(f) = KFILE.get() {
            use std::os::unix::fs::FileExt;
            let _ = f.write_at(&(k as i64).to_le_bytes(), 0);
        }
        STEP_START_MS.store(now_ms(*T0.get().unwrap()), Ordering::SeqCst);
        true
    });
    e.register_fn("c07-ok", || -> bool {
        OKS.fetch_add(1, Ordering::Relaxed);
        true
    });
    e.register_fn("c07-err", || -> bool {
        ERRS.fetch_add(1, Ordering::Relaxed);
        true
    });
    match eval(&mut e, PRELUDE.to_string()) {
        Out::Ok(_) => {}
        _ => {
            emit("FATAL prelude failed");
            std::process::exit(5);
        }
    }
    let _ = eval(&mut e, DEFINE_K.to_string());
    e
}

static T0: std::sync::OnceLock<Instant> = std::sync::OnceLock::new();
static INTERRUPT_SENT: AtomicBool = AtomicBool::new(false);

fn depth(engine: &mut Engine) -> String {
    match eval(engine, "(#%verif-stack-depth)".to_string()) {
        Out::Ok(v) => match v.last() {
            Some(SteelVal::ListV(l)) => l.iter().map(|x| format!("{}", x)).collect::<Vec<_>>().join(" "),
            other => format!("? {:?}", other.map(|x| format!("{}", x))),
        },
        Out::Err(e) => format!("err {}", e),
        Out::Panic(p) => format!("panic {}", p),
    }
}

fn probe(engine: &mut Engine) -> String {
    match eval(engine, PROBE.to_string()) {
        Out::Ok(v) => {
            let s = v.last().map(|x| format!("{}", x)).unwrap_or_default();
            if s == PROBE_EXPECTED {
                "same".to_string()
            } else {
                hex(s.as_bytes())
            }
        }
        Out::Err(e) => hex(format!("err {}", e).as_bytes()),
        Out::Panic(p) => hex(format!("panic {}", p).as_bytes()),
    }
}

fn report_other_panics(id: &str) {
    let me = std::thread::current().id();
    for p in take_panics() {
        if p.thread != me {
            emit(&format!("O {} {} | {}", id, p.loc, p.msg));
        }
    }
}

// ------------------------------------------------------------------------------------------- texts

fn set_step(label: &str, t0: Instant) {
    if let Ok(mut g) = CUR_LABEL.lock() {
        *g = label.to_string();
    }
    CUR_K.store(-1, Ordering::SeqCst);
    INTERRUPT_SENT.store(false, Ordering::SeqCst);
    STEP_START_MS.store(now_ms(t0), Ordering::SeqCst);
}

fn run_texts(jobs: Vec<String>, t0: Instant) {
    let mut engine = new_engine();
    set_controller(&engine);
    for job in jobs {
        let f: Vec<&str> = job.split(' ').collect();
        match f[0] {
            "N" => {
                engine = new_engine();
                set_controller(&engine);
            }
            "C" if f.len() >= 3 => {
                // callback family: `C <id> <hex text> [<hex handled variant>]`.  The text raises an error inside a
                // callback of a native higher-order procedure (no handler).  After the error: the let-probe (sees
                // stale operands as wrong values), the same text again, then the depth hook and the probe; then the
                // variant in which a handler installed with call-with-exception-handler catches the error: its value
                // (W) and the depth after that successful evaluation (E).
                let id = f[1];
                let text = String::from_utf8_lossy(&unhex(f[2])).into_owned();
                emit(&format!("B {}", id));
                set_step(&format!("T {}", id), t0);
                INTERRUPT_WANTED.store(true, Ordering::SeqCst);
                RUNNING.store(true, Ordering::SeqCst);
                let r = eval(&mut engine, text.clone());
                RUNNING.store(false, Ordering::SeqCst);
                if let Some(c) = CONTROLLER.lock().unwrap().as_ref() {
                    (c.1)();
                }
                report_other_panics(id);
                match &r {
                    Out::Ok(v) => emit(&format!("R {} ok {}", id, v.len())),
                    Out::Err(e) => emit(&format!("R {} err {}", id, e)),
                    Out::Panic(p) => emit(&format!("R {} panic {}", id, p)),
                }
                let mut restart = matches!(r, Out::Panic(_));
                if matches!(r, Out::Err(_)) {
                    set_step(&format!("T {} (probe)", id), t0);
                    INTERRUPT_WANTED.store(false, Ordering::SeqCst);
                    RUNNING.store(true, Ordering::SeqCst);
                    let l = let_probe(&mut engine);
                    emit(&format!("L {} {}", id, l));
                    let again = eval(&mut engine, text);
                    let d = depth(&mut engine);
                    emit(&format!("D {} {}", id, d));
                    if !matches!(again, Out::Err(_)) {
                        emit(&format!("S {} the second evaluation of the same text did not fail", id));
                    }
                    let q = probe(&mut engine);
                    emit(&format!("Q {} {}", id, q));
                    if f.len() > 4 {
                        // (the definitions of the handled variant are evaluations of their own: procedures of one
                        // program may be inlined into each other, which changes the frames that exist)
                        // fields: definitions.., the handled evaluation (W, E), `-` or an evaluation in which an
                        // unhandled error follows the handled ones (U = depth after it)
                        let n_defs = f.len().saturating_sub(2).max(3);
                        for h in &f[3..n_defs] {
                            let _ = eval(&mut engine, String::from_utf8_lossy(&unhex(h)).into_owned());
                        }
                        let handled = String::from_utf8_lossy(&unhex(f[f.len() - 2])).into_owned();
                        match eval(&mut engine, handled) {
                            Out::Ok(v) => emit(&format!("W {} {}", id, hex(v.last().map(|x| format!("{}", x)).unwrap_or_default().as_bytes()))),
                            Out::Err(e) => emit(&format!("W {} {}", id, hex(format!("err {}", e).as_bytes()))),
                            Out::Panic(p) => {
                                emit(&format!("W {} {}", id, hex(format!("panic {}", p).as_bytes())));
                                restart = true;
                            }
                        }
                        let d2 = depth(&mut engine);
                        emit(&format!("E {} {}", id, d2));
                        if d2 != "0 0" {
                            restart = true;
                        }
                        if f[f.len() - 1] != "-" {
                            let then_unhandled = String::from_utf8_lossy(&unhex(f[f.len() - 1])).into_owned();
                            let ru = eval(&mut engine, then_unhandled);
                            let d3 = depth(&mut engine);
                            emit(&format!("U {} {} {}", id, match ru { Out::Ok(_) => "ok", Out::Err(_) => "err", Out::Panic(_) => "panic" }, d3));
                            if d3 != "0 0" || matches!(ru, Out::Panic(_)) {
                                restart = true;
                            }
                        }
                    }
                    RUNNING.store(false, Ordering::SeqCst);
                    if q != "same" || l != "same" || d != "0 0" {
                        restart = true;
                    }
                }
                if restart {
                    engine = new_engine();
                    set_controller(&engine);
                    emit(&format!("N {}", id));
                }
            }
            "T" | "X" | "M" if f.len() >= 2 => {
                let id = f[1];
                // (an empty text has an empty hex field)
                let mut text = String::from_utf8_lossy(&unhex(f.get(2).copied().unwrap_or(""))).into_owned();
                if f[0] == "M" {
                    // module mode: the text becomes a file and is evaluated as `(require "<file>")`, the way
                    // `steel file.scm` runs a program (module-level code takes other compiler / JIT paths)
                    let dir = std::env::var("C07_MODS").unwrap_or_else(|_| "/verif/.build/C07/mods".to_string());
                    let _ = std::fs::create_dir_all(&dir);
                    let path = format!("{}/c07m-{}-{}.scm", dir, std::process::id(), id);
                    let _ = std::fs::write(&path, text.as_bytes());
                    text = format!("(require \"{}\")", path);
                }
                emit(&format!("B {}", id));
                set_step(&format!("T {}", id), t0);
                INTERRUPT_WANTED.store(true, Ordering::SeqCst);
                RUNNING.store(true, Ordering::SeqCst);
                let t_eval = Instant::now();
                let r = eval(&mut engine, text);
                RUNNING.store(false, Ordering::SeqCst);
                emit(&format!("M {} {}", id, t_eval.elapsed().as_millis()));
                if let Some(c) = CONTROLLER.lock().unwrap().as_ref() {
                    (c.1)();
                }
                report_other_panics(id);
                let failed = match &r {
                    Out::Ok(v) => {
                        if f[0] == "X" {
                            emit(&format!("V {} {}", id, hex(show(v).as_bytes())));
                        } else {
                            emit(&format!("R {} ok {}", id, v.len()));
                        }
                        false
                    }
                    Out::Err(e) => {
                        emit(&format!("R {} err {}", id, e));
                        true
                    }
                    Out::Panic(p) => {
                        emit(&format!("R {} panic {}", id, p));
                        true
                    }
                };
                if failed {
                    set_step(&format!("T {} (probe)", id), t0);
                    INTERRUPT_WANTED.store(false, Ordering::SeqCst);
                    RUNNING.store(true, Ordering::SeqCst);
                    let d = depth(&mut engine);
                    emit(&format!("D {} {}", id, d));
                    let q = probe(&mut engine);
                    RUNNING.store(false, Ordering::SeqCst);
                    emit(&format!("Q {} {}", id, q));
                    if q != "same" || matches!(r, Out::Panic(_)) {
                        // a caught panic leaves the VM in an unspecified state: its state is reported (D, Q above)
                        // and the run continues on a fresh engine so that later results are not consequences of it
                        engine = new_engine();
                        set_controller(&engine);
                        emit(&format!("N {}", id));
                    }
                }
            }
            _ => {}
        }
    }
    emit("END");
}

/// (interrupt, resume) of the current engine's controller (its type is not nameable outside the crate)
/// which phase of the pipeline a text gets through (used to name the phase that overflows the native stack)
fn run_phases(jobs: Vec<String>) {
    for job in jobs {
        let f: Vec<&str> = job.split(' ').collect();
        if f[0] != "T" || f.len() < 3 {
            continue;
        }
        let id = f[1];
        let text = String::from_utf8_lossy(&unhex(f[2])).into_owned();
        emit(&format!("PH {} start", id));
        let _ = catch_unwind(AssertUnwindSafe(|| Engine::emit_ast(&text).map(|_| ())));
        emit(&format!("PH {} read", id));
        let mut engine = new_engine();
        let _ = catch_unwind(AssertUnwindSafe(|| engine.emit_expanded_ast(&text, None).map(|_| ())));
        emit(&format!("PH {} expand", id));
        let mut engine = new_engine();
        let prog = catch_unwind(AssertUnwindSafe(|| engine.emit_raw_program_no_path(text.clone())));
        emit(&format!("PH {} compile", id));
        if let Ok(Ok(prog)) = prog {
            let _ = catch_unwind(AssertUnwindSafe(|| engine.run_raw_program(prog).map(|_| ())));
        }
        emit(&format!("PH {} run", id));
    }
    emit("END");
}

static CONTROLLER: Mutex<Option<(Box<dyn Fn() + Send>, Box<dyn Fn() + Send>)>> = Mutex::new(None);

fn set_controller(engine: &Engine) {
    let a = engine.get_thread_state_controller();
    let b = a.clone();
    *CONTROLLER.lock().unwrap() = Some((Box::new(move || a.interrupt()), Box::new(move || b.resume())));
}

// ------------------------------------------------------------------------------------------- builtins

const SWEEP: &str = r#"
(define (c07-sweep f arity mode start end n)
  (define p (c07-make-pool))
  (define fresh (c07-make-fresh))
  (define (at i) (vector-ref p i))
  (let loop ((k start))
    (when (< k end)
      (c07-at k)
      (with-handler (lambda (e) (c07-err))
        (begin
          (cond
            [(= mode 2) (c07-idx-call f arity k fresh)]
            [(= mode 3) (c07-alias-call f arity k fresh)]
            [(= arity 0) (f)]
            [(= arity 1) (f (at k))]
            [(= arity 2) (f (at (quotient k n)) (at (remainder k n)))]
            [(= mode 1) (let ((i (quotient k n)) (j (remainder k n))) (f (at i) (at j) (at (remainder (+ i j) n))))]
            [else (f (at (quotient k (* n n))) (at (remainder (quotient k n) n)) (at (remainder k n)))])
          (c07-ok)))
      (loop (+ k 1)))))
"#;

/// the same loop as a procedure of a module (required from a file): module-level procedures are compiled and jit
/// compiled differently from top-level ones.  Everything it needs is passed in.
const SWEEP_MODULE: &str = r#"
(provide c07-sweep-m)
;;IDX_HELPER
(define (c07-sweep-m f arity mode start end n p c07-at c07-ok c07-err fresh)
  (define (at i) (vector-ref p i))
  (let loop ((k start))
    (when (< k end)
      (c07-at k)
      (with-handler (lambda (e) (c07-err))
        (begin
          (cond
            [(= mode 2) (c07-idx-call f arity k fresh)]
            [(= mode 3) (c07-alias-call f arity k fresh)]
            [(= arity 0) (f)]
            [(= arity 1) (f (at k))]
            [(= arity 2) (f (at (quotient k n)) (at (remainder k n)))]
            [(= mode 1) (let ((i (quotient k n)) (j (remainder k n))) (f (at i) (at j) (at (remainder (+ i j) n))))]
            [else (f (at (quotient k (* n n))) (at (remainder (quotient k n) n)) (at (remainder k n)))])
          (c07-ok)))
      (loop (+ k 1)))))
"#;

fn make_pool_src() -> String {
    format!("(define (c07-make-pool) (vector {}))", POOL.join("\n "))
}

fn sweep_engine() -> Engine {
    let mut e = new_engine();
    let dir = std::env::var("C07_MODS").unwrap_or_else(|_| "/verif/.build/C07/mods".to_string());
    let _ = std::fs::create_dir_all(&dir);
    let path = format!("{}/c07sweep-{}.scm", dir, std::process::id());
    let _ = std::fs::write(&path, SWEEP_MODULE.replace(";;IDX_HELPER", IDX_HELPER).as_bytes());
    for src in [make_pool_src(), make_fresh_src(), IDX_HELPER.to_string(), SWEEP.to_string(), format!("(require \"{}\")", path)] {
        match eval(&mut e, src) {
            Out::Ok(_) => {}
            Out::Err(x) => {
                emit(&format!("FATAL sweep prelude: {}", x));
                std::process::exit(5);
            }
            Out::Panic(x) => {
                emit(&format!("FATAL sweep prelude panic: {}", x));
                std::process::exit(5);
            }
        }
    }
    e
}

fn lookup_builtin(engine: &Engine, module: &str, name: &str) -> Option<SteelVal> {
    let mods = engine.builtin_modules().inner();
    mods.get(module).and_then(|m| m.try_get_ref(name))
}

fn run_builtins(jobs: Vec<String>, t0: Instant) {
    let mut engine = sweep_engine();
    let max_panics: usize = std::env::var("C07_MAX_PANICS").ok().and_then(|s| s.parse().ok()).unwrap_or(24);
    let max_same: usize = std::env::var("C07_MAX_SAME").ok().and_then(|s| s.parse().ok()).unwrap_or(8);
    for job in jobs {
        let f: Vec<&str> = job.split(' ').collect();
        if f[0] != "F" || f.len() < 7 {
            continue;
        }
        let (name, module) = (f[1], f[2]);
        let arity: usize = f[3].parse().unwrap_or(0);
        let mode: usize = f[4].parse().unwrap_or(0);
        let mut start: i64 = f[5].parse().unwrap_or(0);
        let end: i64 = f[6].parse().unwrap_or(0);
        let in_module = f.get(7).map(|x| *x == "1").unwrap_or(false);
        let Some(val) = lookup_builtin(&engine, module, name) else {
            emit(&format!("MISSING {} {}", name, module));
            continue;
        };
        engine.register_value("c07-f", val);
        emit(&format!("F {} {} {} {} {}", name, arity, mode, start, end));
        let t_job = Instant::now();
        OKS.store(0, Ordering::SeqCst);
        ERRS.store(0, Ordering::SeqCst);
        let mut panics = 0usize;
        let mut per_loc: std::collections::HashMap<String, usize> = std::collections::HashMap::new();
        let label = format!("{} {} {}", name, arity, mode);
        while start < end {
            set_step(&label, t0);
            CUR_K.store(start - 1, Ordering::SeqCst);
            RUNNING.store(true, Ordering::SeqCst);
            let src = if in_module {
                format!(
                    "(c07-sweep-m c07-f {} {} {} {} {} (c07-make-pool) c07-at c07-ok c07-err (c07-make-fresh))",
                    arity, mode, start, end, POOL.len()
                )
            } else {
                format!("(c07-sweep c07-f {} {} {} {} {})", arity, mode, start, end, POOL.len())
            };
            let r = eval(&mut engine, src);
            RUNNING.store(false, Ordering::SeqCst);
            let k = CUR_K.load(Ordering::SeqCst);
            report_other_panics(name);
            match r {
                Out::Ok(_) if k + 1 >= end => break,
                Out::Ok(_) | Out::Err(_) => {
                    // the loop was left before its end: a continuation invoked by the built-in, or an error that
                    // with-handler did not see
                    let what = match r {
                        Out::Err(e) => format!(" err {}", e),
                        _ => String::new(),
                    };
                    emit(&format!("E {} {} {} {}{}", name, arity, mode, k, what));
                    let _ = eval(&mut engine, DEFINE_K.to_string());
                }
                Out::Panic(p) => {
                    emit(&format!("P {} {} {} {} {}", name, arity, mode, k, p));
                    AFTER_PANIC.store(true, Ordering::SeqCst);
                    panics += 1;
                    let loc = p.split(" | ").next().unwrap_or("").to_string();
                    let same = {
                        let c = per_loc.entry(loc).or_insert(0);
                        *c += 1;
                        *c
                    };
                    // state of the engine after the caught panic, then continue on a fresh engine
                    set_step(&format!("{} (after panic)", label), t0);
                    CUR_K.store(k, Ordering::SeqCst);
                    RUNNING.store(true, Ordering::SeqCst);
                    let d = depth(&mut engine);
                    let q = probe(&mut engine);
                    RUNNING.store(false, Ordering::SeqCst);
                    emit(&format!("A {} {} {} {} depth={} probe={}", name, arity, mode, k, d.replace(' ', ","), q));
                    engine = sweep_engine();
                    engine.register_value("c07-f", lookup_builtin(&engine, module, name).unwrap_or(SteelVal::Void));
                    AFTER_PANIC.store(false, Ordering::SeqCst);
                    if panics >= max_panics || same >= max_same {
                        emit(&format!("TRUNC {} {} {} {}", name, arity, mode, k));
                        break;
                    }
                }
            }
            start = if k + 1 > start { k + 1 } else { start + 1 };
        }
        set_step(&format!("{} {} {} (probe)", name, arity, mode), t0);
        RUNNING.store(true, Ordering::SeqCst);
        let d = depth(&mut engine);
        let q = probe(&mut engine);
        RUNNING.store(false, Ordering::SeqCst);
        let dd: Vec<&str> = d.split(' ').collect();
        emit(&format!(
            "G {} {} {} ok={} err={} frames={} stack={} probe={} ms={}",
            name, arity, mode, OKS.load(Ordering::SeqCst), ERRS.load(Ordering::SeqCst),
            dd.first().unwrap_or(&"?"), dd.get(1).unwrap_or(&"?"), q, t_job.elapsed().as_millis()
        ));
        if q != "same" {
            engine = sweep_engine();
        }
    }
    emit("END");
}

// ------------------------------------------------------------------------------------------- main

fn main() {
    let args: Vec<String> = std::env::args().collect();
    let cmd = args.get(1).map(|s| s.as_str()).unwrap_or("");
    match cmd {
        "list" => {
            let engine = Engine::new();
            let mods = engine.builtin_modules().inner().clone();
            let mut names: Vec<_> = mods.keys().cloned().collect();
            names.sort();
            for m in names {
                let module = &mods[&m];
                let mut fns = module.names();
                fns.sort();
                for f in fns {
                    let v = module.try_get_ref(&f).unwrap();
                    let ar = module.search(v.clone()).map(|x| format!("{:?}", x.arity)).unwrap_or("?".into());
                    // identity of the procedure: the same procedure is exported by several modules
                    let ident = match &v {
                        SteelVal::FuncV(f) => format!("f{:x}", *f as usize),
                        SteelVal::MutFunc(f) => format!("m{:x}", *f as usize),
                        SteelVal::BuiltIn(f) => format!("b{:x}", *f as usize),
                        SteelVal::BoxedFunction(g) => format!("x{:x}", &**g as *const _ as *const u8 as usize),
                        _ => "-".to_string(),
                    };
                    println!("{}\t{}\t{}\t{}\t{}", m, f, kind_of(&v), ar, ident);
                }
            }
            return;
        }
        "pool" => {
            for (i, p) in POOL.iter().enumerate() {
                println!("{}\t{}", i, p);
            }
            return;
        }
        "fresh" => {
            for (i, (e, n)) in FRESH.iter().enumerate() {
                println!("{}\t{}\t{}", i, n, e);
            }
            return;
        }
        "engines" => {
            // directed probe: an embedder that makes one engine per request.  Engines are created, used for one
            // small procedure and dropped, n times in this one process; records on stdout:
            //   E <i> maps=<lines of /proc/self/maps>      every 10th engine
            //   P <i> <loc | via | msg>                    the first panic (creation or evaluation), then the loop stops
            //   END <engines that worked> maps=<..>
            let n: usize = args.get(2).and_then(|s| s.parse().ok()).unwrap_or(300);
            install_hook();
            let maps = || std::fs::read_to_string("/proc/self/maps").map(|m| m.lines().count()).unwrap_or(0);
            println!("E 0 maps={}", maps());
            let mut done = 0usize;
            for i in 1..=n {
                let r = catch_unwind(AssertUnwindSafe(|| {
                    let mut e = Engine::new();
                    let out = eval(&mut e, format!("(define (f{} x) (+ x 1))\n(f{} 1)", i, i));
                    drop(e);
                    out
                }));
                let bad = match r {
                    Ok(Out::Ok(_)) => None,
                    Ok(Out::Err(x)) => Some(format!("error | | {}", x)),
                    Ok(Out::Panic(x)) => Some(x),
                    Err(_) => {
                        let ps = take_panics();
                        Some(ps.last().map(|p| format!("{} | {} | {}", p.loc, p.via, p.msg)).unwrap_or_else(|| "? | | ?".into()))
                    }
                };
                if let Some(b) = bad {
                    println!("P {} {}", i, one_line(&b));
                    break;
                }
                done = i;
                if i % 10 == 0 || i == 1 {
                    println!("E {} maps={}", i, maps());
                }
            }
            println!("END {} maps={}", done, maps());
            return;
        }
        "globals" => {
            // every global name of a fresh engine (built-ins and prelude): a text that defines one of them changes what
            // the probe means
            let engine = new_engine();
            for g in engine.globals().iter() {
                println!("{}", g.resolve());
            }
            return;
        }
        "probe" => {
            println!("{}", PROBE);
            println!(";;; expected\n{}", PROBE_EXPECTED);
            println!(";;; prelude\n{}\n{}", PRELUDE, DEFINE_K);
            println!(";;; let-probe\n{}", LET_PROBE);
            return;
        }
        "texts" | "builtins" | "phase" => {}
        _ => {
            eprintln!("usage: c07 list|pool|probe|texts <out>|builtins <out>");
            std::process::exit(2);
        }
    }
    let out_path = args.get(2).cloned().unwrap_or_else(|| "/dev/stdout".to_string());
    *OUT.lock().unwrap() = Some(
        std::fs::OpenOptions::new().create(true).append(true).open(&out_path).expect("cannot open the record file"),
    );
    if cmd == "builtins" {
        let _ = KFILE.set(std::fs::OpenOptions::new().create(true).write(true).truncate(true).open(format!("{}.k", out_path)).expect("k file"));
    }
    let mut src = String::new();
    std::io::stdin().read_to_string(&mut src).unwrap();
    let jobs: Vec<String> = src.lines().map(|l| l.trim_end().to_string()).filter(|l| !l.is_empty()).collect();
    install_hook();
    let soft: u64 = std::env::var("C07_SOFT_MS").ok().and_then(|s| s.parse().ok()).unwrap_or(4000);
    let hard: u64 = std::env::var("C07_HARD_MS").ok().and_then(|s| s.parse().ok()).unwrap_or(9000);
    let t0 = Instant::now();
    let _ = T0.set(t0);
    let mode = cmd.to_string();
    let worker = std::thread::Builder::new()
        .name("c07-eval".into())
        .stack_size(8 << 20)
        .spawn(move || {
            if mode == "texts" {
                run_texts(jobs, t0)
            } else if mode == "phase" {
                run_phases(jobs)
            } else {
                run_builtins(jobs, t0)
            }
        })
        .unwrap();
    // watchdog
    loop {
        if worker.is_finished() {
            break;
        }
        std::thread::sleep(Duration::from_millis(25));
        if !RUNNING.load(Ordering::SeqCst) {
            continue;
        }
        let started = STEP_START_MS.load(Ordering::SeqCst);
        let el = now_ms(t0).saturating_sub(started);
        if el > soft && INTERRUPT_WANTED.load(Ordering::SeqCst) {
            if let Ok(g) = CONTROLLER.try_lock() {
                if let Some(c) = g.as_ref() {
                    (c.0)();
                }
            }
            if !INTERRUPT_SENT.swap(true, Ordering::SeqCst) {
                let label = CUR_LABEL.lock().map(|g| g.clone()).unwrap_or_default();
                emit(&format!("I {}", label.trim_start_matches("T ")));
            }
        }
        if el > hard && RUNNING.load(Ordering::SeqCst) && STEP_START_MS.load(Ordering::SeqCst) == started {
            let label = CUR_LABEL.lock().map(|g| g.clone()).unwrap_or_default();
            if cmd == "texts" {
                emit(&format!("H {}", label.trim_start_matches("T ")));
            } else {
                emit(&format!(
                    "H {} {} after_panic={}",
                    label,
                    CUR_K.load(Ordering::SeqCst),
                    AFTER_PANIC.load(Ordering::SeqCst) as u8
                ));
            }
            std::process::exit(3);
        }
    }
    match worker.join() {
        Ok(()) => {}
        Err(_) => {
            emit("FATAL the evaluating thread panicked outside catch_unwind");
            std::process::exit(4);
        }
    }
}
