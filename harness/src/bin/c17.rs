//! C17 harness: interrupt a running evaluation of the REAL `steel::steel_vm::engine::Engine`.
//!
//! stdin, one case per line (fields separated by one TAB):
//!   case <id> <mode> <delay_us> <bound_ms> <program on one line>
//! The program may consist of several evaluations separated by `;;;UNIT;;;` (the request is aimed at the last one).
//! mode
//!   mark   the watcher thread waits until the script has called `(c17-mark!)` (a host function that the
//!          generated programs call once they are inside their loop), then sleeps <delay_us>, then calls
//!          `ThreadStateController::interrupt()` on the controller obtained from
//!          `Engine::get_thread_state_controller()`;
//!   early  the request is issued <delay_us> after the main thread entered `Engine::run` (0 = strictly
//!          before `run` is called, i.e. the request is pending when the evaluation starts);
//!   none   no request (control: the program must finish by itself).
//! The evaluation runs on the main thread.  The bound is counted in CPU time of that thread (read from
//! /proc/self/task/<pid>/stat; the machine may be overloaded): after the request the watcher waits until the main
//! thread has RUN for <bound_ms> without `run` returning (wall-clock cap 12 x <bound_ms>: `hang-parked` if the thread
//! used < 30 ms of CPU in that time - it is parked or blocked -, `starved` otherwise).  If it does not, the watcher issues up to 40 FURTHER requests (one per ~1.3 ms) during a second
//! period of <bound_ms>: a run that returns now had a poll but LOST the earlier request(s); a run that
//! still does not return is stuck in a region without poll (or hangs for another reason) — the watcher
//! prints the verdict and exits(3).
//!
//! stdout, one line per case:
//!   case <id> outcome=<interrupted|lost-then-interrupted|hang|finished|error:<text>|panic>
//!        latency_us=<request -> return> marked=<0|1> requests=<n> probe=<ok|bad:<text>|skipped>
//! `probe`: after `resume()` the same engine evaluates `(+ 1 2)` and `(define c17-probe 5) c17-probe`
//! and a short loop of 1000 iterations (all must give the expected values; a hang is caught by the
//! watcher of the probe).
use std::io::{BufRead, Write};
use std::panic::{catch_unwind, AssertUnwindSafe};
use std::sync::atomic::{AtomicBool, AtomicU64, Ordering};
use std::sync::Arc;
use std::time::{Duration, Instant};

use steel::steel_vm::engine::Engine;
use steel::steel_vm::register_fn::RegisterFn;
use steel::SteelVal;

static MARK: AtomicBool = AtomicBool::new(false);
static MARKS: AtomicU64 = AtomicU64::new(0);

fn mark() {
    MARKS.fetch_add(1, Ordering::SeqCst);
    MARK.store(true, Ordering::SeqCst);
}

fn emit(line: &str) {
    let out = std::io::stdout();
    let mut l = out.lock();
    let _ = writeln!(l, "{line}");
    let _ = l.flush();
}

/// CPU time (user + system, ms) consumed so far by the main thread of this process (= the evaluation thread).
fn main_cpu_ms() -> u64 {
    let pid = std::process::id();
    let txt = match std::fs::read_to_string(format!("/proc/self/task/{pid}/stat")) {
        Ok(t) => t,
        Err(_) => return 0,
    };
    // fields after the `)` that closes the command name: state is field 3, utime 14, stime 15
    let rest = match txt.rfind(')') {
        Some(i) => &txt[i + 1..],
        None => return 0,
    };
    let f: Vec<&str> = rest.split_whitespace().collect();
    if f.len() < 13 {
        return 0;
    }
    let ticks: u64 = f[11].parse::<u64>().unwrap_or(0) + f[12].parse::<u64>().unwrap_or(0);
    ticks * 10 // USER_HZ = 100
}

fn clean(s: &str) -> String {
    s.chars().map(|c| if c == '\n' || c == '\t' || c == ' ' { '_' } else { c }).take(160).collect()
}

fn main() {
    let stdin = std::io::stdin();
    for line in stdin.lock().lines() {
        let line = match line {
            Ok(l) => l,
            Err(_) => break,
        };
        let f: Vec<&str> = line.splitn(6, '\t').collect();
        if f.len() < 6 || f[0] != "case" {
            continue;
        }
        let id = f[1].to_string();
        let mode = f[2].to_string();
        let delay = Duration::from_micros(f[3].parse().unwrap_or(0));
        let bound = Duration::from_millis(f[4].parse().unwrap_or(2000));
        // `;;;UNIT;;;` separates evaluations: all but the last are run first, each by its own `Engine::run` (definitions
        // made in an earlier evaluation are not inlined into the calls of a later one); the request targets the last.
        let mut units: Vec<String> = f[5].split(";;;UNIT;;;").map(|u| u.trim().to_string()).collect();
        let program = units.pop().unwrap_or_default();

        MARK.store(false, Ordering::SeqCst);
        let mut engine = Engine::new();
        engine.register_fn("c17-mark!", mark);
        let controller = engine.get_thread_state_controller();
        let mut setup_err = None;
        for u in units {
            if let Err(e) = engine.run(u) {
                setup_err = Some(clean(&e.to_string()));
                break;
            }
        }
        if let Some(e) = setup_err {
            emit(&format!("case {id} outcome=error:setup:{e} latency_us=-1 marked=0 requests=0 probe=skipped"));
            continue;
        }

        let started = Arc::new(AtomicBool::new(false));
        let done = Arc::new(AtomicBool::new(false));
        let requested_at = Arc::new(AtomicU64::new(0)); // micros since t0, 0 = not requested
        let requests = Arc::new(AtomicU64::new(0));
        let t0 = Instant::now();

        if mode == "early" && delay.is_zero() {
            controller.interrupt();
            requests.fetch_add(1, Ordering::SeqCst);
            requested_at.store(t0.elapsed().as_micros().max(1) as u64, Ordering::SeqCst);
        }

        let watcher = {
            let (started, done, requested_at, requests) =
                (started.clone(), done.clone(), requested_at.clone(), requests.clone());
            let controller = controller.clone();
            let (id, mode) = (id.clone(), mode.clone());
            std::thread::spawn(move || {
                if mode == "none" {
                    // control case: only the overall limit applies
                    let lim = Instant::now();
                    while !done.load(Ordering::SeqCst) {
                        if lim.elapsed() > bound * 4 {
                            emit(&format!(
                                "case {id} outcome=hang latency_us=-1 marked={} requests=0 probe=skipped",
                                MARK.load(Ordering::SeqCst) as u8
                            ));
                            std::process::exit(3);
                        }
                        std::thread::sleep(Duration::from_micros(200));
                    }
                    return;
                }
                // wait for the trigger condition (bounded: a program that never marks is reported)
                let lim = Instant::now();
                loop {
                    if done.load(Ordering::SeqCst) {
                        return;
                    }
                    let ready = if mode == "mark" {
                        MARK.load(Ordering::SeqCst)
                    } else {
                        started.load(Ordering::SeqCst)
                    };
                    if ready {
                        break;
                    }
                    if lim.elapsed() > bound * 5 {
                        emit(&format!(
                            "case {id} outcome=hang latency_us=-1 marked=0 requests=0 probe=skipped"
                        ));
                        std::process::exit(3);
                    }
                    std::hint::spin_loop();
                }
                if !(mode == "early" && delay.is_zero()) {
                    let w = Instant::now();
                    while w.elapsed() < delay {
                        std::hint::spin_loop();
                    }
                    if done.load(Ordering::SeqCst) {
                        return;
                    }
                    controller.interrupt();
                    requests.fetch_add(1, Ordering::SeqCst);
                    requested_at.store(t0.elapsed().as_micros().max(1) as u64, Ordering::SeqCst);
                }
                // The bound is counted in CPU TIME OF THE EVALUATION THREAD (the property bounds script steps, and the
                // machine may be overloaded): period 1 ends when the main thread has run for `bound` since the request.
                // `wall_max` protects against a thread that does not run at all.
                let wall_max = bound * 12;
                let cpu0 = main_cpu_ms();
                let w = Instant::now();
                let mut verdict = "";
                loop {
                    if done.load(Ordering::SeqCst) {
                        return;
                    }
                    let cpu = main_cpu_ms().saturating_sub(cpu0);
                    if cpu >= bound.as_millis() as u64 {
                        break; // ran for the whole bound without returning: the request was lost (or there is no poll)
                    }
                    if w.elapsed() > wall_max {
                        verdict = if cpu < 30 { "hang-parked" } else { "starved" };
                        break;
                    }
                    std::thread::sleep(Duration::from_micros(200));
                }
                if !verdict.is_empty() {
                    emit(&format!(
                        "case {id} outcome={verdict} latency_us=-1 marked={} requests={} probe=skipped cpu_ms={}",
                        MARK.load(Ordering::SeqCst) as u8,
                        requests.load(Ordering::SeqCst),
                        main_cpu_ms().saturating_sub(cpu0)
                    ));
                    std::process::exit(3);
                }
                // period 2: further requests (one per ~1.3 ms of wall time, up to 40): distinguishes a LOST request (the
                // loop polls, a later request gets through) from a region without poll (no request ever gets through)
                let cpu1 = main_cpu_ms();
                let w = Instant::now();
                let mut k: u64 = 0;
                loop {
                    if done.load(Ordering::SeqCst) {
                        return;
                    }
                    if k < 40 && w.elapsed() >= Duration::from_micros(1300 * k + 37 * (k % 7)) {
                        controller.interrupt();
                        requests.fetch_add(1, Ordering::SeqCst);
                        k += 1;
                    }
                    let cpu = main_cpu_ms().saturating_sub(cpu1);
                    if k >= 40 && cpu >= bound.as_millis() as u64 {
                        break;
                    }
                    if w.elapsed() > wall_max {
                        break;
                    }
                    std::thread::sleep(Duration::from_micros(100));
                }
                let cpu = main_cpu_ms().saturating_sub(cpu1);
                emit(&format!(
                    "case {id} outcome={} latency_us=-1 marked={} requests={} probe=skipped cpu_ms={cpu}",
                    if cpu < 30 { "hang-parked" } else { "hang" },
                    MARK.load(Ordering::SeqCst) as u8,
                    requests.load(Ordering::SeqCst)
                ));
                std::process::exit(3);
            })
        };

        started.store(true, Ordering::SeqCst);
        let res = catch_unwind(AssertUnwindSafe(|| engine.run(program.clone())));
        let t_ret = t0.elapsed().as_micros() as u64;
        done.store(true, Ordering::SeqCst);
        let _ = watcher.join();

        let req_at = requested_at.load(Ordering::SeqCst);
        let nreq = requests.load(Ordering::SeqCst);
        let latency: i64 = if req_at == 0 { -1 } else { t_ret as i64 - req_at as i64 };
        let outcome = match &res {
            Err(_) => "panic".to_string(),
            Ok(Ok(_)) => "finished".to_string(),
            Ok(Err(e)) => {
                let s = e.to_string();
                if s.contains("Interrupted by user") {
                    if nreq >= 2 {
                        "lost-then-interrupted".to_string()
                    } else {
                        "interrupted".to_string()
                    }
                } else {
                    format!("error:{}", clean(&s))
                }
            }
        };

        // resume + probe (under its own watchdog)
        controller.resume();
        let pdone = Arc::new(AtomicBool::new(false));
        let pw = {
            let pdone = pdone.clone();
            let (id, outcome) = (id.clone(), outcome.clone());
            let marked = MARK.load(Ordering::SeqCst) as u8;
            std::thread::spawn(move || {
                let w = Instant::now();
                while w.elapsed() < bound * 2 {
                    if pdone.load(Ordering::SeqCst) {
                        return;
                    }
                    std::thread::sleep(Duration::from_micros(200));
                }
                emit(&format!(
                    "case {id} outcome={outcome} latency_us={latency} marked={marked} requests={nreq} probe=bad:hang"
                ));
                std::process::exit(4);
            })
        };
        let probe = catch_unwind(AssertUnwindSafe(|| {
            let mut bad = Vec::new();
            match engine.run("(+ 1 2)".to_string()) {
                Ok(v) if v.len() == 1 && v[0] == SteelVal::IntV(3) => {}
                Ok(v) => bad.push(format!("add={:?}", v)),
                Err(e) => bad.push(format!("add-err={}", e)),
            }
            match engine.run("(define c17-probe 5) c17-probe".to_string()) {
                Ok(v) if v.last() == Some(&SteelVal::IntV(5)) => {}
                Ok(v) => bad.push(format!("define={:?}", v)),
                Err(e) => bad.push(format!("define-err={}", e)),
            }
            match engine.run(
                "(define (c17-count n acc) (if (= n 0) acc (c17-count (- n 1) (+ acc 2)))) (c17-count 1000 0)"
                    .to_string(),
            ) {
                Ok(v) if v.last() == Some(&SteelVal::IntV(2000)) => {}
                Ok(v) => bad.push(format!("loop={:?}", v)),
                Err(e) => bad.push(format!("loop-err={}", e)),
            }
            bad
        }));
        pdone.store(true, Ordering::SeqCst);
        let _ = pw.join();
        let probe = match probe {
            Ok(b) if b.is_empty() => "ok".to_string(),
            Ok(b) => format!("bad:{}", clean(&b.join(";"))),
            Err(_) => "bad:panic".to_string(),
        };
        emit(&format!(
            "case {id} outcome={outcome} latency_us={latency} marked={} requests={nreq} probe={probe}",
            MARK.load(Ordering::SeqCst) as u8
        ));
    }
}
