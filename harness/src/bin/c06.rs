//! C06 harness.
//!   c06 hist : stdin lines are pieces of Steel source (one top-level evaluation each, on one engine);
//!              `reset` starts a fresh engine.  Output per piece: `ok v1|v2…` (non-void values, Display)
//!              or `err <ErrorKind>`, followed by ` ## s=<shadowed> f=<free> t=<threshold> e=<epoch>`.
//!   c06 unit : stdin lines drive the real `SymbolMap`: add <name> | get <name> | len | rollback <n> |
//!              free <slot> | state | reset.
use std::io::BufRead;
use std::panic::{catch_unwind, AssertUnwindSafe};

use steel::compiler::map::SymbolMap;
use steel::steel_vm::engine::Engine;

fn main() {
    let mode = std::env::args().nth(1).unwrap_or_else(|| "hist".into());
    std::panic::set_hook(Box::new(|info| {
        if std::env::var("C06_SHOW_PANICS").is_ok() {
            eprintln!("panic: {}", info);
        }
    }));
    if mode == "unit" {
        unit()
    } else {
        hist()
    }
}

fn hist() {
    let stdin = std::io::stdin();
    let mut engine = Engine::new();
    let init = |engine: &Engine| {
        let (sh, fr, t, e) = engine.verif_free_list();
        println!("init ## s={} f={} t={} e={}", sh.len(), fr.len(), t, e);
    };
    init(&engine);
    for line in stdin.lock().lines() {
        let line = line.unwrap();
        if line.trim() == "reset" {
            engine = Engine::new();
            println!("reset");
            init(&engine);
            continue;
        }
        let r = catch_unwind(AssertUnwindSafe(|| engine.compile_and_run_raw_program(line.clone())));
        let (sh, fr, t, e) = engine.verif_free_list();
        let tail = format!(" ## s={} f={} t={} e={}", sh.len(), fr.len(), t, e);
        match r {
            Ok(Ok(vals)) => {
                let s: Vec<String> = vals
                    .iter()
                    .map(|v| format!("{}", v))
                    .filter(|s| s != "#<void>")
                    .collect();
                println!("ok {}{}", s.join("|"), tail);
            }
            Ok(Err(e)) => {
                let msg = format!("{}", e);
                let first = msg.lines().next().unwrap_or("");
                let kind = first
                    .trim_start_matches("Error: ")
                    .split(':')
                    .next()
                    .unwrap_or("")
                    .to_string();
                println!("err {}{}", kind, tail);
            }
            Err(_) => println!("panic{}", tail),
        }
    }
}

fn unit() {
    let stdin = std::io::stdin();
    let mut m = SymbolMap::new();
    let mut marks: Vec<usize> = Vec::new();
    for line in stdin.lock().lines() {
        let line = line.unwrap();
        let toks: Vec<&str> = line.split_whitespace().collect();
        if toks.is_empty() {
            continue;
        }
        match toks[0] {
            "reset" => {
                m = SymbolMap::new();
                marks.clear();
                println!("reset");
            }
            // `mark` remembers the current length (what the engine does before a build), `rollbackmark`
            // rolls back to the most recent mark (what it does when the build fails)
            "mark" => {
                marks.push(m.len());
                println!("{}", m.len());
            }
            "rollbackmark" => {
                if let Some(k) = marks.pop() {
                    m.roll_back(k);
                }
                println!("ok");
            }
            "add" => {
                let i = m.add(&toks[1].into());
                println!("{}", i);
            }
            "get" => match m.get(&toks[1].into()) {
                Ok(i) => println!("{}", i),
                Err(_) => println!("err"),
            },
            "len" => println!("{}", m.len()),
            "rollback" => {
                m.roll_back(toks[1].parse().unwrap());
                println!("ok");
            }
            "free" => {
                m.verif_push_free(toks[1].parse().unwrap());
                println!("ok");
            }
            "recycle" => {
                // `recycle k1 k2 …`: a recycler run in which the listed shadowed slots turned out to be live
                let live: Vec<usize> = toks[1..].iter().filter_map(|t| t.parse().ok()).collect();
                m.verif_recycle(&live);
                println!("ok");
            }
            "state" => {
                let vals: Vec<String> = m.values().iter().map(|v| v.resolve().to_string()).collect();
                let mut mp: Vec<(String, usize)> =
                    m.map().iter().map(|(k, v)| (k.resolve().to_string(), *v)).collect();
                mp.sort();
                let mp: Vec<String> = mp.iter().map(|(k, v)| format!("{}={}", k, v)).collect();
                let (sh, fr, _, _) = m.verif_free_list();
                println!(
                    "values=[{}] map=[{}] shadowed={:?} free={:?}",
                    vals.join(","),
                    mp.join(","),
                    sh,
                    fr
                );
            }
            _ => println!("bad"),
        }
    }
}
