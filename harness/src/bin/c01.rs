//! C01 harness: runs whole programs on the real engine, one fresh `Engine` per program.
//! stdin: programs separated by a line `;;;===`.  For every program:
//!   \x1eB                      (then whatever the script writes to stdout)
//!   \x1eV v1\x1fv2…            values of the top-level forms (Display), or
//!   \x1eE <ErrorKind>          the evaluation returned an error, or
//!   \x1eP <message>            the engine panicked.
//! Environment: the usual STEEL_* switches are read by the engine itself (used by C02).
use std::io::{Read, Write};
use std::panic::{catch_unwind, AssertUnwindSafe};

fn main() {
    let mut src = String::new();
    std::io::stdin().read_to_string(&mut src).unwrap();
    std::panic::set_hook(Box::new(|_| {}));
    let reuse = std::env::args().any(|a| a == "--one-engine");
    // `--module`: every program is written to a file and evaluated as `(require "<file>")`: this is how
    // `steel file.scm` runs a script, and module-level code takes other compiler / JIT paths than top-level code.
    // The values of top-level forms are not observable then; output and outcome are.
    let as_module = std::env::args().any(|a| a == "--module");
    let mod_dir = format!("/verif/.build/C01/mods/{}", std::process::id());
    if as_module {
        let _ = std::fs::create_dir_all(&mod_dir);
    }
    let mut counter = 0usize;
    let mut shared = if reuse { Some(steel::steel_vm::engine::Engine::new()) } else { None };
    for prog in src.split("\n;;;===\n") {
        if prog.trim().is_empty() {
            continue;
        }
        println!("\u{1e}B");
        std::io::stdout().flush().ok();
        counter += 1;
        let prog = if as_module {
            let path = format!("{}/m{}.scm", mod_dir, counter);
            let _ = std::fs::write(&path, prog);
            format!("(require \"{}\")", path)
        } else {
            prog.to_string()
        };
        let r = catch_unwind(AssertUnwindSafe(|| match shared.as_mut() {
            Some(e) => e.compile_and_run_raw_program(prog),
            None => steel::steel_vm::engine::Engine::new().compile_and_run_raw_program(prog),
        }));
        std::io::stdout().flush().ok();
        match r {
            Ok(Ok(vals)) => {
                let s: Vec<String> = vals.iter().map(|v| format!("{}", v)).collect();
                println!("\n\u{1e}V {}", s.join("\u{1f}"));
            }
            Ok(Err(e)) => {
                let msg = format!("{}", e);
                let first = msg.lines().next().unwrap_or("").to_string();
                let kind = first.trim_start_matches("Error: ").split(':').next().unwrap_or("").to_string();
                println!("\n\u{1e}E {} | {}", kind, first);
            }
            Err(p) => {
                let msg = if let Some(s) = p.downcast_ref::<String>() {
                    s.clone()
                } else if let Some(s) = p.downcast_ref::<&str>() {
                    s.to_string()
                } else {
                    "?".into()
                };
                println!("\n\u{1e}P {}", msg.lines().next().unwrap_or(""));
            }
        }
    }
    if as_module {
        let _ = std::fs::remove_dir_all(&mod_dir);
    }
}
