//! C01 harness: runs whole programs on the real engine, one fresh `Engine` per program.
//! stdin: programs separated by a line `;;;===`.  For every program:
//!   \x1eB                      (then whatever the script writes to stdout)
//!   \x1eV v1\x1fv2…            values of the top-level forms (Display), or
//!   \x1eE <ErrorKind>          the evaluation returned an error, or
//!   \x1eP <message>            the engine panicked.
//! Environment: the usual STEEL_* switches are read by the engine itself (used by C02).
//!
//! `--bc`: bytecode mode.  A program may consist of several compilation units separated by a line `;;;---`
//! (one engine per program, the units are compiled and run one after the other, like REPL inputs).  Per unit:
//!   \x1eU
//!   the listing of every top-level expression of the unit, exactly what `Engine::debug_build_strings` returns
//!   (index, op code, payload, text of the constant / name), each listing followed by a line `----`
//!   \x1eX                      (end of the listings; the unit runs now, its output follows)
//!   \x1eR ok v1\x1fv2…  |  \x1eR err <ErrorKind> | <first line>  |  \x1eR panic <message>
//! and after the last unit (or the first failing one) the usual \x1eV / \x1eE / \x1eP line for the whole program.
use std::io::{Read, Write};
use std::panic::{catch_unwind, AssertUnwindSafe};

fn main() {
    let mut src = String::new();
    std::io::stdin().read_to_string(&mut src).unwrap();
    std::panic::set_hook(Box::new(|_| {}));
    let reuse = std::env::args().any(|a| a == "--one-engine");
    // `--module`: every program is written to a file and evaluated as `(require "<file>")`: this is how
    // `steel file.scm` runs a script, and module-level code takes other compiler / JIT paths than top-level code.
    // The values of top-level forms are not observable then; output and outcome are.
    let as_module = std::env::args().any(|a| a == "--module");
    let mod_dir = format!("/verif/.build/C01/mods/{}", std::process::id());
    if as_module {
        let _ = std::fs::create_dir_all(&mod_dir);
    }
    let bc = std::env::args().any(|a| a == "--bc");
    if bc {
        for prog in src.split("\n;;;===\n") {
            if prog.trim().is_empty() {
                continue;
            }
            run_bc(prog);
        }
        return;
    }
    let mut counter = 0usize;
    let mut shared = if reuse { Some(steel::steel_vm::engine::Engine::new()) } else { None };
    for prog in src.split("\n;;;===\n") {
        if prog.trim().is_empty() {
            continue;
        }
        println!("\u{1e}B");
        std::io::stdout().flush().ok();
        counter += 1;
        let prog = if as_module {
            let path = format!("{}/m{}.scm", mod_dir, counter);
            let _ = std::fs::write(&path, prog);
            format!("(require \"{}\")", path)
        } else {
            prog.to_string()
        };
        let r = catch_unwind(AssertUnwindSafe(|| match shared.as_mut() {
            Some(e) => e.compile_and_run_raw_program(prog),
            None => steel::steel_vm::engine::Engine::new().compile_and_run_raw_program(prog),
        }));
        std::io::stdout().flush().ok();
        match r {
            Ok(Ok(vals)) => {
                let s: Vec<String> = vals.iter().map(|v| format!("{}", v)).collect();
                println!("\n\u{1e}V {}", s.join("\u{1f}"));
            }
            Ok(Err(e)) => {
                let msg = format!("{}", e);
                let first = msg.lines().next().unwrap_or("").to_string();
                let kind = first.trim_start_matches("Error: ").split(':').next().unwrap_or("").to_string();
                println!("\n\u{1e}E {} | {}", kind, first);
            }
            Err(p) => {
                let msg = if let Some(s) = p.downcast_ref::<String>() {
                    s.clone()
                } else if let Some(s) = p.downcast_ref::<&str>() {
                    s.to_string()
                } else {
                    "?".into()
                };
                println!("\n\u{1e}P {}", msg.lines().next().unwrap_or(""));
            }
        }
    }
    if as_module {
        let _ = std::fs::remove_dir_all(&mod_dir);
    }
}

/// Names of the built-in procedures whose global slots the model VM needs to know (a superset is harmless).
const MODELLED_PRIMS: &[&str] = &[
    "+", "-", "*", "<", "<=", "=", ">", ">=", "car", "cdr", "cons", "list", "null?", "not", "length", "pair?",
    "list?", "eq?", "equal?", "zero?", "void", "empty?", "first", "rest", "append", "reverse",
];

fn panic_msg(p: Box<dyn std::any::Any + Send>) -> String {
    let msg = if let Some(s) = p.downcast_ref::<String>() {
        s.clone()
    } else if let Some(s) = p.downcast_ref::<&str>() {
        s.to_string()
    } else {
        "?".into()
    };
    msg.lines().next().unwrap_or("").to_string()
}

fn err_line(e: &steel::SteelErr) -> String {
    let msg = format!("{}", e);
    let first = msg.lines().next().unwrap_or("").to_string();
    let kind = first.trim_start_matches("Error: ").split(':').next().unwrap_or("").to_string();
    format!("{} | {}", kind, first)
}

/// Bytecode mode: listing of every unit (what the VM is about to execute) + the result of running it.
fn run_bc(prog: &str) {
    println!("\u{1e}B");
    let mut engine = steel::steel_vm::engine::Engine::new();
    let mut all: Vec<String> = Vec::new();
    {
        // slots of the primitives the model knows (first registration = the built-in)
        let g = engine.globals();
        println!("\u{1e}K #builtins {}", g.len());
        for name in MODELLED_PRIMS {
            if let Some(i) = g.iter().position(|x| x.resolve() == *name) {
                println!("\u{1e}K {} {}", name, i);
            }
        }
    }
    for unit in prog.split("\n;;;---\n") {
        if unit.trim().is_empty() {
            continue;
        }
        println!("\u{1e}U");
        let base = engine.globals().len();
        let unit = unit.to_string();
        let r = catch_unwind(AssertUnwindSafe(|| {
            let p = match engine.emit_raw_program_no_path(unit) {
                Ok(p) => p,
                Err(e) => {
                    println!("\u{1e}X");
                    return Err(e);
                }
            };
            match engine.debug_build_strings(p.clone()) {
                Ok(v) => {
                    for s in v {
                        println!("{}\n----", s.trim_end_matches('\n'));
                    }
                }
                Err(e) => println!("=> listing failed: {}", err_line(&e)),
            }
            println!("\u{1e}X");
            std::io::stdout().flush().ok();
            engine.run_raw_program(p)
        }));
        std::io::stdout().flush().ok();
        {
            // symbol-table rows added by this unit (listing clone + real build): provisional slot -> real slot
            let g = engine.globals();
            let names: Vec<String> = g.iter().skip(base).map(|x| x.resolve().to_string()).collect();
            println!("\n\u{1e}G {}\u{1f}{}", base, names.join("\u{1f}"));
        }
        match r {
            Ok(Ok(vals)) => {
                let s: Vec<String> = vals.iter().map(|v| format!("{}", v)).collect();
                println!("\u{1e}R ok {}", s.join("\u{1f}"));
                all.extend(s);
            }
            Ok(Err(e)) => {
                println!("\n\u{1e}R err {}", err_line(&e));
                println!("\u{1e}E {}", err_line(&e));
                return;
            }
            Err(p) => {
                let m = panic_msg(p);
                println!("\n\u{1e}R panic {}", m);
                println!("\u{1e}P {}", m);
                return;
            }
        }
    }
    println!("\u{1e}V {}", all.join("\u{1f}"));
}
