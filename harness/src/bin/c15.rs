//! C15 harness: run REAL script threads of the real engine under a FORCED interleaving of the safepoint
//! handshake, through the `cfg(steel_verif)` yield points of steel-core (`steel::steel_vm::verif`).
//!
//! stdin (one scenario):
//!   prog <scheme program on one line>
//!   <tid> <site>        let logical thread <tid> run until it reaches yield site <site>, hold it there
//!   <tid> go <site>     release it towards <site> without waiting (it will be held there)
//!   <tid> at <site>     wait until it is held at <site>
//!   <tid> free          let it run freely from now on
//!   <tid> probe <site> <ms>   release it towards <site> and wait at most <ms> for it to be held there (`ok` / `timeout`): for sites a
//!                       thread must NOT be able to reach (it stays parked) without paying the full step timeout
//!   dispatch on|off     enable the yield point `vm.dispatch` (before every instruction of every thread)
//!   hint                spawn a HOST thread (logical thread 7) that calls `interrupt()`; it is held at its first yield
//!                       point (`ctl.interrupt.paused`), so `7 ctl.interrupt.state` stops it between its two stores
//!   int                 call `ThreadStateController::interrupt()` on the engine's controller (from the scheduler)
//!   wait <ms>           let everything that is not held run for <ms>
//!   end <bound_ms>      release every thread and wait for the evaluation to return (at most <bound_ms>)
//! Logical thread 0 is the thread that calls `Engine::run`; a spawned thread becomes logical thread k by calling
//! the host function `(c15-id! k)` first thing; it is then held at its first `sp.exit.load` (published, before the exit
//! check of a safepoint) until the schedule names it.  `(c15-mark!)` / `(c15-mark2!)` are yield points of the script itself
//! (sites `mark`, `mark2`; a thread inside them is inside a primitive's safepoint, i.e. published).  A thread with a logical id is HELD at the first yield point it meets until the schedule names it.
//! Yield sites: see /repo/crates/steel-core/src/steel_vm/verif.rs (sp.enter, sp.exit.load, sp.exit.state,
//! sp.exit.park, sp.exit.retract, poll.state, poll.publish, poll.exit.load, poll.exit.park, poll.retract, stop.self,
//! stop.thread, scan.spin, scan.begin, scan.end, resume.self, resume.thread, resume.unpark, env.drain, env.thunk,
//! env.update_own, ctl.<op>.paused, ctl.<op>.state).
//!
//! HOST-SIDE scenario (first line `hostprog <program>` instead of `prog`): the program is run first (it may leave script
//! threads alive, e.g. servers blocked on a channel), then the lines are executed one after the other ON THE HOST THREAD:
//!   update <name> <int>    Engine::update_value(name, int)          regval <name> <int>   Engine::register_value(name, int)
//!   regfn <name> <int>     Engine::register_fn(name, move || int)   run <expression>      Engine::run(expression)
//! Output: `h <k> <op> value=<text|-> <ok|error:text>` per line, then the `result` line (value = value of the last `run`).
//! A watchdog prints `result outcome=hang …` and exits(3) after `HOST_BOUND_MS` (default 20000).
//!
//! stdout: one line per schedule line (`ok <tid> <site>` / `timeout <tid> <site> last=<site it is held at>`), then
//!   result outcome=<finished|error:<text>|panic|hang> value=<text> dispatched=… stops=i/c gcs=s/f envs=s/f
//!          scanviol=<n> threadpanics=<n>
//! `scanviol` = dispatches that ran while the dispatching thread was being scanned (the property's violation).
use std::cell::Cell;
use std::io::{BufRead, Write};
use std::panic::{catch_unwind, AssertUnwindSafe};
use std::sync::atomic::{AtomicBool, AtomicU64, Ordering};
use std::sync::{Arc, Condvar, Mutex};
use std::time::{Duration, Instant};

use steel::steel_vm::engine::Engine;
use steel::steel_vm::register_fn::RegisterFn;
use steel::steel_vm::verif;

const NT: usize = 8;

struct Ctl {
    stop_at: Option<String>, // Some("*") = the first yield point
    held: Option<String>,    // the site the thread is held at
    go: bool,
    free: bool,
}

struct Slot {
    m: Mutex<Ctl>,
    cv: Condvar,
}

static SLOTS: std::sync::OnceLock<Vec<Slot>> = std::sync::OnceLock::new();
static PANICS: AtomicU64 = AtomicU64::new(0);
static DEBUG: AtomicBool = AtomicBool::new(false);

thread_local! {
    static TID: Cell<Option<usize>> = const { Cell::new(None) };
}

fn slots() -> &'static Vec<Slot> {
    SLOTS.get_or_init(|| {
        (0..NT)
            .map(|_| Slot {
                m: Mutex::new(Ctl { stop_at: Some("*".into()), held: None, go: false, free: false }),
                cv: Condvar::new(),
            })
            .collect()
    })
}

fn on_yield(site: &'static str, _key: usize) {
    let tid = match TID.try_with(|t| t.get()) {
        Ok(Some(t)) if t < NT => t,
        _ => return,
    };
    let s = &slots()[tid];
    let mut c = s.m.lock().unwrap();
    if DEBUG.load(Ordering::Relaxed) {
        eprintln!("yield tid={tid} site={site} stop_at={:?} free={}", c.stop_at, c.free);
    }
    if c.free {
        return;
    }
    let stop = match &c.stop_at {
        Some(x) => x == "*" || x == site,
        None => false,
    };
    if !stop {
        return;
    }
    c.held = Some(site.to_string());
    c.stop_at = None;
    c.go = false; // a `go` given while the thread was not held is stale
    s.cv.notify_all();
    while !c.go && !c.free {
        c = s.cv.wait(c).unwrap();
    }
    c.go = false;
    c.held = None;
}

fn set_id(k: usize) {
    if k > 0 && k < NT - 1 {
        // a spawned thread is first held at a point where it is published: before the exit check of a safepoint
        let mut c = slots()[k].m.lock().unwrap();
        if c.stop_at.as_deref() == Some("*") {
            c.stop_at = Some("sp.exit.load".into());
        }
    }
    TID.with(|t| t.set(Some(k)));
}

fn mark() {
    on_yield("mark", 0);
}

/// Consume a pending unpark token of the calling thread (a thread's own `resume_threads()` unparks itself).
fn drain_token() {
    std::thread::park_timeout(Duration::from_millis(0));
}

fn mark2() {
    on_yield("mark2", 0);
}

fn emit(line: &str) {
    let out = std::io::stdout();
    let mut l = out.lock();
    let _ = writeln!(l, "{line}");
    let _ = l.flush();
}

fn counters_text() -> String {
    let (d, si, sc, gs, gf, es, ef) = verif::counters();
    format!(
        "dispatched={d} stops={si}/{sc} gcs={gs}/{gf} envs={es}/{ef} scanviol={} threadpanics={}",
        verif::scan_violations(),
        PANICS.load(Ordering::SeqCst)
    )
}

/// Let `tid` run to `site`; returns the site it is held at (or None on timeout).
fn run_to(tid: usize, site: &str, timeout: Duration) -> Result<(), String> {
    let s = &slots()[tid];
    let mut c = s.m.lock().unwrap();
    if c.held.as_deref() == Some(site) {
        return Ok(());
    }
    c.stop_at = Some(site.to_string());
    c.go = true;
    c.held = None;
    s.cv.notify_all();
    let t0 = Instant::now();
    loop {
        if let Some(h) = &c.held {
            if h == site {
                return Ok(());
            }
        }
        let left = timeout.checked_sub(t0.elapsed()).unwrap_or(Duration::ZERO);
        if left.is_zero() {
            return Err(c.held.clone().unwrap_or_else(|| "-".into()));
        }
        let (g, _) = s.cv.wait_timeout(c, left.min(Duration::from_millis(20))).unwrap();
        c = g;
    }
}

fn free(tid: usize) {
    let s = &slots()[tid];
    let mut c = s.m.lock().unwrap();
    c.free = true;
    c.go = true;
    s.cv.notify_all();
}

fn clean(s: &str) -> String {
    s.replace(['\n', ' ', '\t'], "_").chars().take(160).collect()
}

/// Host-side scenario: script threads left alive by an earlier `run`, then host calls that define / assign globals.
fn host_scenario(prog: String, steps: Vec<String>) {
    let bound: u64 = std::env::var("HOST_BOUND_MS").ok().and_then(|x| x.parse().ok()).unwrap_or(20000);
    let done = Arc::new(AtomicBool::new(false));
    {
        let done = done.clone();
        std::thread::spawn(move || {
            let t0 = Instant::now();
            while !done.load(Ordering::SeqCst) {
                if t0.elapsed() > Duration::from_millis(bound) {
                    emit(&format!("result outcome=hang value=- {}", counters_text()));
                    std::process::exit(3);
                }
                std::thread::sleep(Duration::from_millis(5));
            }
        });
    }
    verif::reset();
    let mut engine = Engine::new();
    let mut last = "-".to_string();
    let mut outcome = "finished".to_string();
    match catch_unwind(AssertUnwindSafe(|| engine.run(prog.clone()))) {
        Ok(Ok(_)) => emit("h 0 hostprog value=- ok"),
        Ok(Err(e)) => {
            emit(&format!("h 0 hostprog value=- error:{}", clean(&e.to_string())));
            outcome = "error:hostprog".into();
        }
        Err(_) => {
            emit("h 0 hostprog value=- panic");
            outcome = "panic".into();
        }
    }
    for (k, l) in steps.iter().enumerate() {
        if outcome != "finished" {
            break;
        }
        let k = k + 1;
        let (op, rest) = match l.split_once(' ') {
            Some(x) => x,
            None => (l.as_str(), ""),
        };
        let r = catch_unwind(AssertUnwindSafe(|| -> Result<String, String> {
            match op {
                "update" | "regval" | "regfn" => {
                    let (name, v) = rest.split_once(' ').ok_or("bad line")?;
                    let v: isize = v.trim().parse().map_err(|_| "bad int")?;
                    match op {
                        "update" => {
                            engine.update_value(name, steel::SteelVal::IntV(v)).ok_or("update_value: no such global")?;
                        }
                        "regval" => {
                            engine.register_value(name, steel::SteelVal::IntV(v));
                        }
                        _ => {
                            let name: &'static str = Box::leak(name.to_string().into_boxed_str());
                            engine.register_fn(name, move || v);
                        }
                    }
                    Ok("-".into())
                }
                "run" => match engine.run(rest.to_string()) {
                    Ok(v) => Ok(v.last().map(|x| clean(&x.to_string())).unwrap_or_else(|| "-".into())),
                    Err(e) => Err(clean(&e.to_string())),
                },
                _ => Err("bad-line".into()),
            }
        }));
        match r {
            Ok(Ok(v)) => {
                if op == "run" {
                    last = v.clone();
                }
                emit(&format!("h {k} {op} value={v} ok"));
            }
            Ok(Err(e)) => emit(&format!("h {k} {op} value=- error:{e}")),
            Err(_) => {
                emit(&format!("h {k} {op} value=- panic"));
                outcome = "panic".into();
            }
        }
    }
    done.store(true, Ordering::SeqCst);
    emit(&format!("result outcome={outcome} value={last} {}", counters_text()));
    // script threads may still be blocked on a channel: do not wait for them
    std::process::exit(0);
}

fn main() {
    DEBUG.store(std::env::var("C15_DEBUG").is_ok(), Ordering::Relaxed);
    let mut prog = String::new();
    let mut host_mode = false;
    let mut sched: Vec<String> = Vec::new();
    for line in std::io::stdin().lock().lines() {
        let line = match line {
            Ok(l) => l,
            Err(_) => break,
        };
        let l = line.trim();
        if l.is_empty() || l.starts_with('#') {
            continue;
        }
        if let Some(p) = l.strip_prefix("hostprog ") {
            prog = p.to_string();
            host_mode = true;
        } else if let Some(p) = l.strip_prefix("prog ") {
            prog = p.to_string();
        } else {
            sched.push(l.to_string());
        }
    }
    let prev = std::panic::take_hook();
    std::panic::set_hook(Box::new(move |info| {
        PANICS.fetch_add(1, Ordering::SeqCst);
        prev(info);
    }));
    if host_mode {
        host_scenario(prog, sched);
        return;
    }
    let mut engine = Engine::new();
    engine.register_fn("c15-id!", set_id);
    engine.register_fn("c15-mark!", mark);
    engine.register_fn("c15-mark2!", mark2);
    engine.register_fn("c15-drain!", drain_token);
    let controller = engine.get_thread_state_controller();
    verif::reset();
    let _ = slots();
    verif::set_yield(Some(on_yield));
    set_id(0);

    let done = Arc::new(AtomicBool::new(false));
    let sch = {
        let done = done.clone();
        std::thread::spawn(move || {
            let step_to = Duration::from_millis(6000);
            for l in sched {
                let f: Vec<&str> = l.split_whitespace().collect();
                match f.as_slice() {
                    ["dispatch", v] => {
                        verif::DISPATCH_YIELD.store(*v == "on", Ordering::SeqCst);
                        emit(&format!("ok dispatch {v}"));
                    }
                    ["hint"] => {
                        let c = controller.clone();
                        std::thread::spawn(move || {
                            set_id(7);
                            c.interrupt();
                        });
                        emit("ok hint");
                    }
                    ["int"] => {
                        controller.interrupt();
                        emit("ok int");
                    }
                    ["wait", ms] => {
                        std::thread::sleep(Duration::from_millis(ms.parse().unwrap_or(10)));
                        emit(&format!("ok wait {ms}"));
                    }
                    ["end", ms] => {
                        for t in 0..NT {
                            free(t);
                        }
                        let bound = Duration::from_millis(ms.parse().unwrap_or(3000));
                        let t0 = Instant::now();
                        while !done.load(Ordering::SeqCst) {
                            if t0.elapsed() > bound {
                                emit(&format!("result outcome=hang value=- {}", counters_text()));
                                std::process::exit(3);
                            }
                            std::thread::sleep(Duration::from_millis(2));
                        }
                        return;
                    }
                    [tid, "go", site] => {
                        let t: usize = tid.parse().unwrap_or(0);
                        let s = &slots()[t];
                        let mut c = s.m.lock().unwrap();
                        if c.held.as_deref() != Some(*site) {
                            c.stop_at = Some(site.to_string());
                            c.go = true;
                            c.held = None;
                            s.cv.notify_all();
                        }
                        drop(c);
                        emit(&format!("ok {tid} go {site}"));
                    }
                    [tid, "at", site] => {
                        let t: usize = tid.parse().unwrap_or(0);
                        let s = &slots()[t];
                        let mut c = s.m.lock().unwrap();
                        let t0 = Instant::now();
                        let mut okk = false;
                        loop {
                            if c.held.as_deref() == Some(*site) {
                                okk = true;
                                break;
                            }
                            if t0.elapsed() > step_to {
                                break;
                            }
                            let (g, _) = s.cv.wait_timeout(c, Duration::from_millis(20)).unwrap();
                            c = g;
                        }
                        let h = c.held.clone().unwrap_or_else(|| "-".into());
                        drop(c);
                        if okk {
                            emit(&format!("ok {tid} at {site}"));
                        } else {
                            emit(&format!("timeout {tid} at {site} last={h}"));
                        }
                    }
                    [tid, "probe", site, ms] => {
                        let t: usize = tid.parse().unwrap_or(0);
                        let lim = Duration::from_millis(ms.parse().unwrap_or(200));
                        match run_to(t, site, lim) {
                            Ok(()) => emit(&format!("ok {tid} probe {site}")),
                            Err(h) => emit(&format!("timeout {tid} probe {site} last={h}")),
                        }
                    }
                    [tid, "free"] => {
                        free(tid.parse().unwrap_or(0));
                        emit(&format!("ok {tid} free"));
                    }
                    [tid, site] => {
                        let t: usize = tid.parse().unwrap_or(0);
                        match run_to(t, site, step_to) {
                            Ok(()) => emit(&format!("ok {tid} {site}")),
                            Err(h) => emit(&format!("timeout {tid} {site} last={h}")),
                        }
                    }
                    _ => emit(&format!("bad-line {l}")),
                }
            }
            // schedule without `end`: release everything, generous bound
            for t in 0..NT {
                free(t);
            }
            let t0 = Instant::now();
            while !done.load(Ordering::SeqCst) {
                if t0.elapsed() > Duration::from_millis(5000) {
                    emit(&format!("result outcome=hang value=- {}", counters_text()));
                    std::process::exit(3);
                }
                std::thread::sleep(Duration::from_millis(2));
            }
        })
    };

    let res = catch_unwind(AssertUnwindSafe(|| engine.run(prog.clone())));
    done.store(true, Ordering::SeqCst);
    for t in 0..NT {
        free(t);
    }
    let _ = sch.join();
    let (outcome, value) = match &res {
        Err(_) => ("panic".to_string(), "-".to_string()),
        Ok(Ok(v)) => (
            "finished".to_string(),
            v.last().map(|x| x.to_string().replace(['\n', ' '], "_")).unwrap_or_else(|| "-".into()),
        ),
        Ok(Err(e)) => (
            format!("error:{}", e.to_string().replace(['\n', ' ', '\t'], "_").chars().take(120).collect::<String>()),
            "-".to_string(),
        ),
    };
    emit(&format!("result outcome={outcome} value={value} {}", counters_text()));
}
