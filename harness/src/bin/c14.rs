//! C14 harness: generated module graphs on the real `steel::steel_vm::engine::Engine`.
//!
//! stdin: cases in the line protocol of `lean/SteelVerif/C14/Driver.lean`
//!   case <id> | module <k> | def <n> | prov <n> | cprov <n> | req <spec> | view <n>… | end
//!           | mac <n> | mprov <n> | fsprov <n>   (define-syntax; provide it as an identifier / as (for-syntax n))
//!   request | req <spec> | def <n> | use <n>… (the program refers to these names) | mode ok|reader|macrodef|syntax|freeid|runtime|form:<kw> | obs <n>… | end | poke | endcase
//!   <spec> ::= <k>[~<spelling>] | p:<prefix>:<spec> | o:<id>[=<to>],…:<spec>
//!   inside a module: `dir <sub/dir>` puts the module's file into that sub-directory of the case.
//!   <spelling> selects how the (relative) path in the require form is written: 0 shortest, 1 with a
//!   leading "./", 2 up to the case root, through "zz/.." and down again, 3 through a symbolic link
//!   (`ln_<dir>` -> dir, `lnroot` -> .).  All spellings name the same file: the module's identity is
//!   its canonical path.
//! argv[1] (optional): directory under which the module files are written (default
//!   /verif/.build/C14/mods); every case gets its own sub-directory `<id>` holding `m<k>.scm`.
//!
//! For every case ONE engine is created and the requests are evaluated on it in order.  Every define of
//! module k is bound to the tag `'(mk . name)` (names starting with f/g: a one-argument function
//! returning the tag; names h2..h6: a function of that many parameters whose first parameter is a
//! callback it applies to 1, contract `(->/c (->/c c14-int? c14-int?) c14-int? … any/c)` (`c14-int?` = `int?`
//! that counts its evaluations: `#<n>` in the output) when provided through
//! contract/out), top-level defines of request i to `'(topi . name)`.  Each module body calls the
//! host function `(c14-bump! k)` and registers, per `view` name, a probe closure with `(c14-probe! k (lambda () …))`
//! that reports, through `(c14-report! k "name" value)`, what the name is bound to.
//! stdout, per request (same canonical form as the driver):
//!   req <i> <ok|err:read|err:syntax|err:free-id|err:runtime|err:other:<Kind>>
//!   obs <name>=<value|err:free-id> …
//!   view <k> <name>=<value> …            for every module whose body ran (ascending k)
//!   cnt <k>:<body evaluations> …
//! and per case a last line `mangle ok <n>` / `mangle bad …` (every private define is found under
//! `CompiledModule::prefix() ++ name`, and the prefix has the shape "##mm" digits "__%#__"), and with
//! `poke` a line `poke <result of evaluating |<prefix of module 0><first define>| at top level>`.
use std::cell::RefCell;
use std::collections::BTreeMap;
use std::io::{Read, Write};
use std::panic::{catch_unwind, AssertUnwindSafe};
use std::path::PathBuf;

use steel::rerrs::ErrorKind;
use steel::steel_vm::engine::Engine;
use steel::steel_vm::register_fn::RegisterFn;
use steel::SteelVal;

thread_local! {
    static BUMPS: RefCell<Vec<usize>> = const { RefCell::new(Vec::new()) };
    static PROBES: RefCell<BTreeMap<usize, Vec<SteelVal>>> = const { RefCell::new(BTreeMap::new()) };
    static REPORT: RefCell<Vec<(usize, String, String)>> = const { RefCell::new(Vec::new()) };
    /// evaluations of the contract predicate `c14-int?` since the last `(c14-reset!)`
    static CHECKS: RefCell<usize> = const { RefCell::new(0) };
}

#[derive(Clone, Debug)]
enum Spec {
    Path(usize, u8),
    Prefix(String, Box<Spec>),
    Only(Vec<(String, Option<String>)>, Box<Spec>),
}

fn parse_spec(fields: &[&str]) -> Option<Spec> {
    match fields {
        [n] => {
            let (k, style) = match n.split_once('~') {
                Some((k, st)) => (k, st.parse().ok()?),
                None => (*n, 0u8),
            };
            k.parse().ok().map(|k| Spec::Path(k, style))
        }
        ["p", pfx, rest @ ..] => Some(Spec::Prefix(pfx.to_string(), Box::new(parse_spec(rest)?))),
        ["o", ids, rest @ ..] => {
            let ids = ids
                .split(',')
                .filter(|s| !s.is_empty())
                .map(|f| match f.split_once('=') {
                    Some((a, b)) => (a.to_string(), Some(b.to_string())),
                    None => (f.to_string(), None),
                })
                .collect();
            Some(Spec::Only(ids, Box::new(parse_spec(rest)?)))
        }
        _ => None,
    }
}

fn comps(d: &str) -> Vec<&str> {
    d.split('/').filter(|c| !c.is_empty()).collect()
}

/// The string written in `(require "…")` by a file in directory `from` for module `k` in directory `to`.
fn rel_path(from: &str, to: &str, k: usize, style: u8) -> String {
    let (f, t) = (comps(from), comps(to));
    let file = format!("m{k}.scm");
    let up_all = "../".repeat(f.len());
    let down_all: String = t.iter().map(|c| format!("{c}/")).collect();
    match style {
        2 => format!("{up_all}zz/../{down_all}{file}"),
        3 => {
            if t.is_empty() {
                format!("{up_all}lnroot/{file}")
            } else {
                format!("{up_all}ln_{}/{file}", t.join("_"))
            }
        }
        _ => {
            let c = f.iter().zip(t.iter()).take_while(|(a, b)| a == b).count();
            let up = "../".repeat(f.len() - c);
            let down: String = t[c..].iter().map(|x| format!("{x}/")).collect();
            format!("{}{up}{down}{file}", if style == 1 { "./" } else { "" })
        }
    }
}

fn spec_sexp(s: &Spec, from: &str, dirs: &[String]) -> String {
    match s {
        Spec::Path(k, style) => {
            let to = dirs.get(*k).map(|d| d.as_str()).unwrap_or("");
            format!("\"{}\"", rel_path(from, to, *k, *style))
        }
        Spec::Prefix(p, s) => format!("(prefix-in {} {})", p, spec_sexp(s, from, dirs)),
        Spec::Only(ids, s) => {
            let mut out = format!("(only-in {}", spec_sexp(s, from, dirs));
            for (a, b) in ids {
                match b {
                    Some(b) => out.push_str(&format!(" ({a} {b})")),
                    None => out.push_str(&format!(" {a}")),
                }
            }
            out.push(')');
            out
        }
    }
}

#[derive(Default, Clone, Debug)]
struct Module {
    dir: String,
    defs: Vec<String>,
    provs: Vec<(String, bool)>,
    reqs: Vec<Spec>,
    views: Vec<String>,
    macs: Vec<String>,
    mprovs: Vec<String>,
    fsprovs: Vec<String>,
}

#[derive(Default, Clone, Debug)]
struct Request {
    reqs: Vec<Spec>,
    defs: Vec<String>,
    mode: String,
    obs: Vec<String>,
    uses: Vec<String>,
}

#[derive(Default, Clone, Debug)]
struct Case {
    id: String,
    mods: Vec<Module>,
    reqs: Vec<Request>,
    poke: bool,
}

fn is_fn(name: &str) -> bool {
    name.starts_with('f') || name.starts_with('g')
}

/// `h2` .. `h6` (possibly behind prefixes ending in `.` or `-`, possibly with an alias suffix, e.g.
/// `a.h4x`): higher-order function of that many parameters.  (`function-arity` cannot be used: it does
/// not report the arity of a contracted function reliably.)
fn hof_arity(name: &str) -> Option<usize> {
    let base = name.rsplit(|c| c == '.' || c == '-').next().unwrap_or(name);
    let b = base.as_bytes();
    if b.len() >= 2 && b[0] == b'h' && (b'2'..=b'6').contains(&b[1]) {
        Some((b[1] - b'0') as usize)
    } else {
        None
    }
}

/// A name whose last component (after the last `.` or `-`) starts with `m` is a macro: `(define-syntax name
/// (syntax-rules () [(_ a) '(mk . name)]))`, observed by expanding `(name 1)`.
fn is_mac(name: &str) -> bool {
    name.rsplit(|c| c == '.' || c == '-').next().unwrap_or(name).starts_with('m')
}

fn define_text(tag: &str, name: &str) -> String {
    if let Some(n) = hof_arity(name) {
        let params: Vec<String> = (1..n).map(|i| format!("a{i}")).collect();
        format!("(define ({name} cb {}) (cb 1) '({tag} . {name}))", params.join(" "))
    } else if is_fn(name) {
        format!("(define ({name} n) '({tag} . {name}))")
    } else {
        format!("(define {name} '({tag} . {name}))")
    }
}

fn contract_text(name: &str) -> String {
    match hof_arity(name) {
        Some(n) => format!("(->/c (->/c c14-int? c14-int?) {}any/c)", "c14-int? ".repeat(n - 1)),
        None => "(->/c c14-int? any/c)".to_string(),
    }
}

/// The expression that reveals what `name` is bound to: a tag; a one-parameter function (how often the
/// contract predicate `c14-int?` is evaluated during a good call, its tag, and whether a call with a string
/// argument is rejected by a contract); or, for the names h2..h6, a function of that many parameters (the
/// number of predicate evaluations and the tag for a good call, and whether a callback that returns a
/// string and a string in the last position are rejected).
fn obs_expr(name: &str) -> String {
    if is_mac(name) {
        return format!("({name} 1)");
    }
    if let Some(n) = hof_arity(name) {
        let ints: Vec<String> = (1..n).map(|i| i.to_string()).collect();
        let mut bad = ints.clone();
        *bad.last_mut().unwrap() = "\"s\"".to_string();
        return format!(
            "(let ((c14-v {name})) (if (function? c14-v) (let* ((c14-r (begin (c14-reset!) (with-handler (lambda (e) 'cerr) (c14-v (lambda (x) x) {good})))) (c14-n (c14-count))) (list 'hof c14-n c14-r (with-handler (lambda (e) 'cerr) (c14-v (lambda (x) \"s\") {good})) (with-handler (lambda (e) 'cerr) (c14-v (lambda (x) x) {bad})))) c14-v))",
            good = ints.join(" "),
            bad = bad.join(" ")
        );
    }
    format!(
        "(let ((c14-v {name})) (if (function? c14-v) (let* ((c14-r (begin (c14-reset!) (c14-v 0))) (c14-n (c14-count))) (list 'func c14-n c14-r (with-handler (lambda (e) 'cerr) (c14-v \"s\")))) c14-v))"
    )
}

/// `(m3 . x)` -> `m3.x`; `(func 1 (m0 . f) cerr)` -> `fn:m0.f:c#1`; `(func 0 (m0 . f) (m0 . f))` -> `fn:m0.f:p#0`.
fn canon(text: &str) -> String {
    fn tag(t: &str) -> Option<String> {
        let t = t.trim();
        let inner = t.strip_prefix('(')?.strip_suffix(')')?;
        let (a, b) = inner.split_once(" . ")?;
        if a.contains(' ') || b.contains(' ') || a.contains('(') || b.contains('(') {
            return None;
        }
        Some(format!("{a}.{b}"))
    }
    let t = text.trim();
    // (func <n> …) / (hof <n> …): <n> = evaluations of c14-int? during the good call
    let (t, count): (String, String) = {
        let mut out = (t.to_string(), String::new());
        for head in ["(func ", "(hof "] {
            if let Some(rest) = t.strip_prefix(head) {
                if let Some((n, tail)) = rest.split_once(' ') {
                    if !n.is_empty() && n.chars().all(|c| c.is_ascii_digit()) {
                        out = (format!("{head}{tail}"), format!("#{n}"));
                    }
                }
            }
        }
        out
    };
    let t = t.as_str();
    if let Some(rest) = t.strip_prefix("(hof ") {
        // (hof <good> <bad callback> <bad last argument>)
        if let Some(close) = rest.find(')') {
            if let Some(tg) = tag(&rest[..=close]) {
                let tail = rest[close + 1..].trim();
                let same = format!("{} {})", &rest[..=close], &rest[..=close]);
                let kind = if tail == "cerr cerr)" {
                    "c".to_string()
                } else if tail == same {
                    "p".to_string()
                } else {
                    format!("?{}", tail.replace(' ', "_"))
                };
                return format!("fn:{tg}:{kind}{count}");
            }
        }
        return format!("val:{}", t.replace(' ', "_"));
    }
    if let Some(rest) = t.strip_prefix("(func ") {
        if let Some(close) = rest.find(')') {
            if let Some(tg) = tag(&rest[..=close]) {
                let tail = rest[close + 1..].trim();
                let kind = if tail == "cerr)" {
                    "c".to_string()
                } else if tag(tail.strip_suffix(')').unwrap_or("")).as_deref() == Some(tg.as_str()) {
                    "p".to_string()
                } else {
                    format!("?{}", tail.replace(' ', "_"))
                };
                return format!("fn:{tg}:{kind}{count}");
            }
        }
    }
    tag(t).unwrap_or_else(|| format!("val:{}", t.replace(' ', "_")))
}

fn err_kind(e: &steel::SteelErr) -> String {
    match e.kind() {
        ErrorKind::FreeIdentifier => "err:free-id".into(),
        ErrorKind::BadSyntax => "err:syntax".into(),
        ErrorKind::Parse => "err:read".into(),
        ErrorKind::Generic => "err:runtime".into(),
        k => format!("err:other:{k:?}"),
    }
}

fn module_text(k: usize, m: &Module, dirs: &[String]) -> String {
    let mut s = String::new();
    for r in &m.reqs {
        s.push_str(&format!("(require {})\n", spec_sexp(r, &m.dir, dirs)));
    }
    if !m.provs.is_empty() || !m.mprovs.is_empty() || !m.fsprovs.is_empty() {
        s.push_str("(provide");
        for (n, c) in &m.provs {
            if *c {
                s.push_str(&format!(" (contract/out {n} {})", contract_text(n)));
            } else {
                s.push_str(&format!(" {n}"));
            }
        }
        for n in &m.mprovs {
            s.push_str(&format!(" {n}"));
        }
        for n in &m.fsprovs {
            s.push_str(&format!(" (for-syntax {n})"));
        }
        s.push_str(")\n");
    }
    for d in &m.defs {
        s.push_str(&define_text(&format!("m{k}"), d));
        s.push('\n');
    }
    for d in &m.macs {
        s.push_str(&format!("(define-syntax {d} (syntax-rules () [(_ a) '(m{k} . {d})]))\n"));
    }
    s.push_str(&format!("(c14-bump! {k})\n"));
    // one probe closure per name, each its own top-level expression: what one name expands / resolves to must
    // not depend on which other names the same expression mentions
    s.push_str(&format!("(c14-probe! {k} (lambda () (c14-report! {k} \"\" 0)))\n"));
    for v in &m.views {
        s.push_str(&format!("(c14-probe! {k} (lambda () (c14-report! {k} \"{v}\" {})))\n", obs_expr(v)));
    }
    s
}

fn request_text(i: usize, r: &Request, dirs: &[String]) -> String {
    let mut s = String::new();
    for q in &r.reqs {
        s.push_str(&format!("(require {})\n", spec_sexp(q, "", dirs)));
    }
    for d in &r.defs {
        s.push_str(&define_text(&format!("top{i}"), d));
        s.push('\n');
    }
    if !r.uses.is_empty() {
        // the program itself refers to these names: an unbound one is a free identifier when it is built
        s.push_str(&format!("(list {})\n", r.uses.join(" ")));
    }
    if let Some(form) = r.mode.strip_prefix("form:") {
        // a require with a list form `parse_require_object_inner` has no arm for
        let target = spec_sexp(&Spec::Path(0, 0), "", dirs);
        match form {
            "for-syntax-spec" => s.push_str(&format!("(require (for-syntax (only-in {target} x)))\n")),
            kw => s.push_str(&format!("(require ({kw} {target} (x y)))\n")),
        }
    }
    match r.mode.as_str() {
        // rejected by the reader: nothing of the program is evaluated
        "reader" => s.push_str("(define c14-unfinished (\n"),
        // rejected while the program's macro definitions are extracted (before its requires are looked at):
        // a repeated pattern variable / two ellipses in one pattern, alternating
        "macrodef" if i % 2 == 0 => s.push_str("(define-syntax c14-md (syntax-rules () [(_ a a) a]))\n"),
        "macrodef" => s.push_str("(define-syntax c14-md (syntax-rules () [(_ a ... b ...) a]))\n"),
        "syntax" => s.push_str("(c14-bad-macro 1 2)\n"),
        "freeid" => s.push_str("c14-this-identifier-is-not-defined\n"),
        "runtime" => s.push_str("(error \"c14-boom\")\n"),
        _ => {}
    }
    s
}

fn run_case(c: &Case, root: &PathBuf, out: &mut Vec<String>) {
    let dir = root.join(&c.id);
    let _ = std::fs::remove_dir_all(&dir);
    std::fs::create_dir_all(&dir).unwrap();
    let dirs: Vec<String> = c.mods.iter().map(|m| m.dir.clone()).collect();
    // a directory to detour through, and a symbolic link to every directory that holds a module
    std::fs::create_dir_all(dir.join("zz")).unwrap();
    let _ = std::os::unix::fs::symlink(".", dir.join("lnroot"));
    for (k, m) in c.mods.iter().enumerate() {
        let sub = comps(&m.dir);
        let mdir = sub.iter().fold(dir.clone(), |d, c| d.join(c));
        std::fs::create_dir_all(&mdir).unwrap();
        if !sub.is_empty() {
            let _ = std::os::unix::fs::symlink(sub.join("/"), dir.join(format!("ln_{}", sub.join("_"))));
        }
        std::fs::write(mdir.join(format!("m{k}.scm")), module_text(k, m, &dirs)).unwrap();
    }
    // `(require "m0.scm")` in a program without a path is resolved against the current directory
    // (ModuleBuilder::main: `std::env::current_dir()`), inside a module against the module's directory.
    std::env::set_current_dir(&dir).unwrap();
    BUMPS.with(|b| b.borrow_mut().clear());
    PROBES.with(|p| p.borrow_mut().clear());
    REPORT.with(|p| p.borrow_mut().clear());

    let mut engine = Engine::new();
    engine.register_fn("c14-bump!", |k: usize| BUMPS.with(|b| b.borrow_mut().push(k)));
    engine.register_fn("c14-probe!", |k: usize, f: SteelVal| {
        PROBES.with(|p| {
            p.borrow_mut().entry(k).or_default().push(f);
        })
    });
    engine.register_fn("c14-int?", |v: SteelVal| -> bool {
        CHECKS.with(|c| *c.borrow_mut() += 1);
        matches!(v, SteelVal::IntV(_))
    });
    engine.register_fn("c14-reset!", || CHECKS.with(|c| *c.borrow_mut() = 0));
    engine.register_fn("c14-count", || -> usize { CHECKS.with(|c| *c.borrow()) });
    engine.register_fn("c14-report!", |k: usize, name: String, v: SteelVal| {
        REPORT.with(|r| r.borrow_mut().push((k, name, format!("{v}"))))
    });
    engine
        .compile_and_run_raw_program("(define-syntax c14-bad-macro (syntax-rules () [(_ a) a]))".to_string())
        .unwrap();

    out.push(format!("case {}", c.id));
    for (i, r) in c.reqs.iter().enumerate() {
        let text = request_text(i, r, &dirs);
        std::fs::write(dir.join(format!("request{i}.scm")), &text).ok();
        let status = match engine.compile_and_run_raw_program(text) {
            Ok(_) => "ok".to_string(),
            Err(e) => {
                if std::env::var("C14_VERBOSE").is_ok() {
                    eprintln!("case {} req {i}: {}", c.id, format!("{e}").lines().next().unwrap_or(""));
                }
                err_kind(&e)
            }
        };
        out.push(format!("req {i} {status}"));
        let mut obs = Vec::new();
        for n in &r.obs {
            let v = match engine.compile_and_run_raw_program(obs_expr(n)) {
                Ok(vals) => vals.last().map(|v| canon(&format!("{v}"))).unwrap_or_else(|| "val:none".into()),
                Err(e) => err_kind(&e),
            };
            obs.push(format!("{n}={v}"));
        }
        out.push(format!("obs {}", obs.join(" ")).trim_end().to_string());
        let probes: Vec<(usize, Vec<SteelVal>)> =
            PROBES.with(|p| p.borrow().iter().map(|(k, v)| (*k, v.clone())).collect());
        for (k, fs) in probes {
            REPORT.with(|p| p.borrow_mut().clear());
            let mut res = Ok(SteelVal::Void);
            for f in fs {
                let r = engine.call_function_with_args(f, vec![]);
                if r.is_err() {
                    res = r;
                }
            }
            let mut items = Vec::new();
            REPORT.with(|p| {
                for (kk, n, v) in p.borrow().iter() {
                    if *kk == k && !n.is_empty() {
                        items.push(format!("{n}={}", canon(v)));
                    }
                }
            });
            if let Err(e) = res {
                items.push(format!("probe-failed:{}", err_kind(&e)));
            }
            out.push(format!("view {k} {}", items.join(" ")).trim_end().to_string());
        }
        let cnt: Vec<String> = (0..c.mods.len())
            .map(|k| format!("{k}:{}", BUMPS.with(|b| b.borrow().iter().filter(|x| **x == k).count())))
            .collect();
        out.push(format!("cnt {}", cnt.join(" ")).trim_end().to_string());
    }

    // the real mangling: every define of an instantiated module lives under prefix ++ name
    let mut checked = 0usize;
    let mut bad: Vec<String> = Vec::new();
    let mut prefixes: BTreeMap<usize, String> = BTreeMap::new();
    {
        let mods = engine.modules();
        for (path, m) in mods.iter() {
            let stem = path.file_stem().and_then(|s| s.to_str()).unwrap_or("");
            if !path.starts_with(std::fs::canonicalize(&dir).unwrap_or(dir.clone())) {
                continue;
            }
            if let Some(k) = stem.strip_prefix('m').and_then(|s| s.parse::<usize>().ok()) {
                prefixes.insert(k, m.prefix().to_string());
            }
        }
    }
    let ran: Vec<usize> = PROBES.with(|p| p.borrow().keys().cloned().collect());
    for k in ran {
        let Some(prefix) = prefixes.get(&k) else {
            bad.push(format!("m{k}:no-compiled-module"));
            continue;
        };
        let shape_ok = prefix
            .strip_prefix("##mm")
            .and_then(|r| r.strip_suffix("__%#__"))
            .map(|d| !d.is_empty() && d.chars().all(|c| c.is_ascii_digit()))
            .unwrap_or(false);
        if !shape_ok {
            bad.push(format!("m{k}:prefix-shape:{prefix}"));
        }
        for d in &c.mods[k].defs {
            checked += 1;
            let key = format!("{prefix}{d}");
            match engine.extract_value(&key) {
                Ok(v) => {
                    let shown = format!("{v}");
                    if !is_fn(d) && hof_arity(d).is_none() && canon(&shown) != format!("m{k}.{d}") {
                        bad.push(format!("m{k}.{d}:holds:{}", canon(&shown)));
                    }
                }
                Err(_) => bad.push(format!("m{k}.{d}:not-under:{key}")),
            }
        }
    }
    if bad.is_empty() {
        out.push(format!("mangle ok {checked}"));
    } else {
        out.push(format!("mangle bad {}", bad.join(" ")));
    }
    if c.poke {
        if let (Some(prefix), Some(d)) = (prefixes.get(&0), c.mods.first().and_then(|m| m.defs.first())) {
            let r = match engine.compile_and_run_raw_program(format!("|{prefix}{d}|")) {
                Ok(vals) => vals.last().map(|v| canon(&format!("{v}"))).unwrap_or_default(),
                Err(e) => err_kind(&e),
            };
            out.push(format!("poke {r}"));
        } else {
            out.push("poke no-module-0".into());
        }
    }
    out.push("endcase".into());
}

/// `c14 --raw <dir>`: free-form experiments / replays.  stdin: `file <relative path>` … `.` writes a file
/// under <dir>, `run` … `.` evaluates a program on the one engine of the session (current directory = <dir>);
/// prints `ok <last value>` or `<error kind> <first line of the message>` per program, `cnt <bumps>` after each.
fn raw_mode(dir: &str) {
    let root = PathBuf::from(dir);
    let _ = std::fs::remove_dir_all(&root);
    std::fs::create_dir_all(&root).unwrap();
    std::env::set_current_dir(&root).unwrap();
    let mut src = String::new();
    std::io::stdin().read_to_string(&mut src).unwrap();
    let mut engine = Engine::new();
    engine.register_fn("c14-bump!", |k: usize| BUMPS.with(|b| b.borrow_mut().push(k)));
    let mut lines = src.lines();
    while let Some(l) = lines.next() {
        let toks: Vec<&str> = l.split_whitespace().collect();
        let mut body = String::new();
        if matches!(toks.as_slice(), ["file", _] | ["run"]) {
            for b in lines.by_ref() {
                if b.trim() == "." {
                    break;
                }
                body.push_str(b);
                body.push('\n');
            }
        }
        match toks.as_slice() {
            ["file", path] => {
                let p = root.join(path);
                if let Some(d) = p.parent() {
                    std::fs::create_dir_all(d).unwrap();
                }
                std::fs::write(p, body).unwrap();
            }
            ["run"] => {
                let res = catch_unwind(AssertUnwindSafe(|| engine.compile_and_run_raw_program(body.clone())));
                match res {
                    Ok(Ok(vals)) => println!("ok {}", vals.last().map(|v| format!("{v}")).unwrap_or_default()),
                    Ok(Err(e)) => println!("{} {}", err_kind(&e), format!("{e}").lines().next().unwrap_or("")),
                    Err(_) => println!("panic"),
                }
                let b: Vec<String> = BUMPS.with(|b| b.borrow().iter().map(|k| k.to_string()).collect());
                println!("cnt {}", b.join(" "));
            }
            _ => {}
        }
    }
}

fn main() {
    let args: Vec<String> = std::env::args().collect();
    if args.get(1).map(|s| s.as_str()) == Some("--raw") {
        std::panic::set_hook(Box::new(|_| {}));
        raw_mode(args.get(2).map(|s| s.as_str()).unwrap_or("/verif/.build/C14/raw"));
        return;
    }
    let root = PathBuf::from(args.get(1).cloned().unwrap_or_else(|| "/verif/.build/C14/mods".into()));
    std::fs::create_dir_all(&root).unwrap();
    let root = std::fs::canonicalize(&root).unwrap();
    let mut src = String::new();
    std::io::stdin().read_to_string(&mut src).unwrap();
    std::panic::set_hook(Box::new(|_| {}));

    let mut cases: Vec<Case> = Vec::new();
    let mut cur = Case::default();
    let mut m = Module::default();
    let mut r = Request::default();
    let mut ctx = 0; // 0 none, 1 module, 2 request
    for line in src.lines() {
        let toks: Vec<&str> = line.split_whitespace().collect();
        match (toks.as_slice(), ctx) {
            ([], _) => {}
            (["#", ..], _) => {}
            (["case", id], _) => {
                cur = Case { id: id.to_string(), ..Default::default() };
                ctx = 0;
            }
            (["module", _], _) => {
                m = Module::default();
                ctx = 1;
            }
            (["request"], _) => {
                r = Request { mode: "ok".into(), ..Default::default() };
                ctx = 2;
            }
            (["dir", d], 1) => m.dir = d.trim_matches('/').to_string(),
            (["def", n], 1) => m.defs.push(n.to_string()),
            (["prov", n], 1) => m.provs.push((n.to_string(), false)),
            (["cprov", n], 1) => m.provs.push((n.to_string(), true)),
            (["mac", n], 1) => m.macs.push(n.to_string()),
            (["mprov", n], 1) => m.mprovs.push(n.to_string()),
            (["fsprov", n], 1) => m.fsprovs.push(n.to_string()),
            (["view", ns @ ..], 1) => m.views.extend(ns.iter().map(|s| s.to_string())),
            (["req", s], 1) => match parse_spec(&s.split(':').collect::<Vec<_>>()) {
                Some(sp) => m.reqs.push(sp),
                None => eprintln!("c14: bad spec {s}"),
            },
            (["end"], 1) => {
                cur.mods.push(m.clone());
                ctx = 0;
            }
            (["def", n], 2) => r.defs.push(n.to_string()),
            (["req", s], 2) => match parse_spec(&s.split(':').collect::<Vec<_>>()) {
                Some(sp) => r.reqs.push(sp),
                None => eprintln!("c14: bad spec {s}"),
            },
            (["mode", md], 2) => r.mode = md.to_string(),
            (["obs", ns @ ..], 2) => r.obs.extend(ns.iter().map(|s| s.to_string())),
            (["use", ns @ ..], 2) => r.uses.extend(ns.iter().map(|s| s.to_string())),
            (["end"], 2) => {
                cur.reqs.push(r.clone());
                ctx = 0;
            }
            (["poke"], _) => cur.poke = true,
            (["endcase"], _) => {
                cases.push(cur.clone());
                ctx = 0;
            }
            _ => eprintln!("c14: bad line {line}"),
        }
    }

    let stdout = std::io::stdout();
    for c in &cases {
        let mut out = Vec::new();
        let res = catch_unwind(AssertUnwindSafe(|| run_case(c, &root, &mut out)));
        if let Err(p) = res {
            let msg = if let Some(s) = p.downcast_ref::<String>() {
                s.clone()
            } else if let Some(s) = p.downcast_ref::<&str>() {
                s.to_string()
            } else {
                "?".to_string()
            };
            out.push(format!("panic {}", msg.lines().next().unwrap_or("")));
            out.push("endcase".into());
        }
        let mut lock = stdout.lock();
        for l in out {
            writeln!(lock, "{l}").unwrap();
        }
        lock.flush().unwrap();
    }
}
