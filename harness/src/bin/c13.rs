//! C13 harness: the REAL syntax-rules machinery of /repo.
//!
//!   c13 unit  : stdin lines `<macro definition source>\t<use form source>` (tab separated, one case per
//!               line).  The definition is parsed with steel's parser (`without_lowering` +
//!               `lower_macro_and_require_definitions`, exactly what the compiler does), turned into a
//!               `SteelMacro` through `LocalMacroManager::from_exprs` (= `SteelMacro::parse_from_ast_macro`:
//!               pattern compilation, template verification, definition-time renaming) and the use form is
//!               expanded with `LocalMacroManager::expand` (= `expand_visitor::expand`: `match_case`,
//!               `collect_bindings`, `replace_identifiers`, re-expansion of the result).  Output per line:
//!               `ok <expansion as S-expression>` | `err <ErrorKind>` | `panic`.
//!   c13 prog  : stdin lines are whole programs (one per line); every program runs on a fresh Engine.
//!               A line may contain several pieces separated by ` ;;;--- ` (separate evaluations on the same
//!               engine).  Output: `ok <last non-void value>` | `err <ErrorKind>` | `panic` | `timeout`.
//!               With env C13_MODDIR set, the engine's working directory is that directory so that
//!               `(require "m.scm")` finds generated modules.
//!   c13 ast   : like prog but prints the expanded AST (without optimisations) of the last piece.
//!
//! prog/ast/unit run every case in-process under catch_unwind; `c13 prog` is itself re-executed by the
//! parent (`c13 prog` = supervisor) as `c13 prog-child` per batch with a wall-clock limit so that an
//! expansion loop or native stack overflow costs one batch (then bisected to the single case).
use std::io::{BufRead, Read, Write};
use std::panic::{catch_unwind, AssertUnwindSafe};
use std::process::{Command, Stdio};
use std::time::{Duration, Instant};

use steel::parser::ast::ExprKind;
use steel::parser::expander::LocalMacroManager;
use steel::parser::parser::{lower_macro_and_require_definitions, Parser};
use steel::steel_vm::engine::Engine;

fn main() {
    let mode = std::env::args().nth(1).unwrap_or_else(|| "prog".into());
    std::panic::set_hook(Box::new(|_| {}));
    match mode.as_str() {
        "unit" => supervise("unit-child"),
        "unit-child" => unit(),
        "prog" => supervise("prog-child"),
        "prog-child" => prog(false),
        "ast" => prog(true),
        "hist" => supervise("hist-child"),
        "hist-child" => hist(),
        _ => {
            eprintln!("c13: unknown mode");
            std::process::exit(2)
        }
    }
}

// ------------------------------------------------------------------------------------------------
// supervisor: batches of lines, each in a child with a time limit; a failing batch is bisected.

fn run_child(mode: &str, lines: &[String], limit: Duration) -> Option<Vec<String>> {
    let exe = std::env::current_exe().unwrap();
    let mut child = Command::new(exe)
        .arg(mode)
        .stdin(Stdio::piped())
        .stdout(Stdio::piped())
        .stderr(Stdio::null())
        .spawn()
        .ok()?;
    {
        let mut si = child.stdin.take().unwrap();
        let text = lines.join("\n") + "\n";
        // write from a thread so a child that never reads cannot block us
        std::thread::spawn(move || {
            let _ = si.write_all(text.as_bytes());
        });
    }
    let mut so = child.stdout.take().unwrap();
    let reader = std::thread::spawn(move || {
        let mut s = String::new();
        let _ = so.read_to_string(&mut s);
        s
    });
    let t0 = Instant::now();
    loop {
        match child.try_wait() {
            Ok(Some(_)) => break,
            Ok(None) => {
                if t0.elapsed() > limit {
                    let _ = child.kill();
                    let _ = child.wait();
                    break;
                }
                std::thread::sleep(Duration::from_millis(5));
            }
            Err(_) => break,
        }
    }
    let out = reader.join().ok()?;
    let res: Vec<String> = out.lines().map(|s| s.to_string()).collect();
    if res.len() == lines.len() {
        Some(res)
    } else {
        None
    }
}

fn solve(mode: &str, lines: &[String], out: &mut Vec<String>) {
    if lines.is_empty() {
        return;
    }
    let limit = Duration::from_millis(15000 + 1000 * lines.len() as u64);
    if let Some(res) = run_child(mode, lines, limit) {
        out.extend(res);
        return;
    }
    if lines.len() == 1 {
        // one case killed its child: retry alone with a generous limit (machine load), then give up:
        // abort, stack overflow or hang
        if let Some(res) = run_child(mode, lines, Duration::from_secs(60)) {
            out.extend(res);
            return;
        }
        out.push("timeout-or-abort".to_string());
        return;
    }
    let mid = lines.len() / 2;
    solve(mode, &lines[..mid], out);
    solve(mode, &lines[mid..], out);
}

fn supervise(child_mode: &str) {
    let stdin = std::io::stdin();
    let lines: Vec<String> = stdin.lock().lines().map(|l| l.unwrap()).collect();
    let batch: usize = std::env::var("C13_BATCH").ok().and_then(|s| s.parse().ok()).unwrap_or(8);
    let nthreads: usize = std::env::var("C13_JOBS").ok().and_then(|s| s.parse().ok()).unwrap_or(16);
    let chunks: Vec<Vec<String>> = lines.chunks(batch).map(|c| c.to_vec()).collect();
    let results = std::sync::Mutex::new(vec![Vec::new(); chunks.len()]);
    let next = std::sync::atomic::AtomicUsize::new(0);
    std::thread::scope(|s| {
        for _ in 0..nthreads {
            s.spawn(|| loop {
                let i = next.fetch_add(1, std::sync::atomic::Ordering::SeqCst);
                if i >= chunks.len() {
                    break;
                }
                let mut out = Vec::new();
                solve(child_mode, &chunks[i], &mut out);
                results.lock().unwrap()[i] = out;
            });
        }
    });
    let stdout = std::io::stdout();
    let mut so = stdout.lock();
    for r in results.into_inner().unwrap() {
        for l in r {
            writeln!(so, "{}", l).unwrap();
        }
    }
}

// ------------------------------------------------------------------------------------------------

fn err_kind(msg: &str) -> String {
    let first = msg.lines().next().unwrap_or("");
    first
        .trim_start_matches("Error: ")
        .split(':')
        .next()
        .unwrap_or("")
        .trim()
        .to_string()
}

fn parse_all(src: &str) -> Result<Vec<ExprKind>, String> {
    let parsed: Result<Vec<ExprKind>, _> = Parser::new(src, None)
        .without_lowering()
        .map(|x| x.and_then(lower_macro_and_require_definitions))
        .collect();
    parsed.map_err(|e| err_kind(&format!("{}", steel::SteelErr::from(e))))
}

fn unit_case(def: &str, form: &str) -> String {
    let defs = match parse_all(def) {
        Ok(d) => d,
        Err(e) => return format!("err def-parse {}", e),
    };
    let mgr = match LocalMacroManager::from_exprs(defs) {
        Ok(m) => m,
        Err(e) => return format!("err def {}", err_kind(&format!("{}", e))),
    };
    let mut forms = match parse_all(form) {
        Ok(f) => f,
        Err(e) => return format!("err form-parse {}", e),
    };
    match mgr.expand(&mut forms) {
        Ok(()) => {
            let s: Vec<String> = forms.iter().map(|f| format!("{}", f)).collect();
            format!("ok {}", s.join(" "))
        }
        Err(e) => format!("err {}", err_kind(&format!("{}", e))),
    }
}

fn unit() {
    let stdin = std::io::stdin();
    for line in stdin.lock().lines() {
        let line = line.unwrap();
        let mut it = line.splitn(2, '\t');
        let def = it.next().unwrap_or("").to_string();
        let form = it.next().unwrap_or("").to_string();
        let r = catch_unwind(AssertUnwindSafe(|| unit_case(&def, &form)));
        match r {
            Ok(s) => println!("{}", s.replace('\n', " ")),
            Err(_) => println!("panic"),
        }
        std::io::stdout().flush().ok();
    }
}

/// histories: the pieces of a line (separator ` ;;;--- `) are evaluated one after the other on ONE engine and the
/// history goes on after a piece that raised an error; output = the results of all pieces joined by ` | `.
fn hist() {
    if let Ok(d) = std::env::var("C13_MODDIR") {
        let _ = std::env::set_current_dir(d);
    }
    let stdin = std::io::stdin();
    for line in stdin.lock().lines() {
        let line = line.unwrap();
        let pieces: Vec<String> = line.split(" ;;;--- ").map(|s| s.to_string()).collect();
        let r = catch_unwind(AssertUnwindSafe(|| {
            let mut engine = Engine::new();
            let mut outs: Vec<String> = Vec::new();
            for p in pieces.iter() {
                let one = catch_unwind(AssertUnwindSafe(|| match engine.compile_and_run_raw_program(p.clone()) {
                    Ok(vals) => {
                        let s: Vec<String> = vals
                            .iter()
                            .map(|v| format!("{}", v))
                            .filter(|s| s != "#<void>")
                            .collect();
                        format!("ok {}", s.last().cloned().unwrap_or_default())
                    }
                    Err(e) => format!("err {}", err_kind(&format!("{}", e))),
                }));
                outs.push(one.unwrap_or_else(|_| "panic".to_string()));
            }
            outs.join(" | ")
        }));
        match r {
            Ok(s) => println!("{}", s.replace('\n', " ").trim_end()),
            Err(_) => println!("panic"),
        }
        std::io::stdout().flush().ok();
    }
}

fn prog(ast: bool) {
    if let Ok(d) = std::env::var("C13_MODDIR") {
        let _ = std::env::set_current_dir(d);
    }
    let stdin = std::io::stdin();
    for line in stdin.lock().lines() {
        let line = line.unwrap();
        let pieces: Vec<String> = line.split(" ;;;--- ").map(|s| s.to_string()).collect();
        let r = catch_unwind(AssertUnwindSafe(|| {
            let mut engine = Engine::new();
            let mut last = String::from("ok");
            let n = pieces.len();
            for (i, p) in pieces.iter().enumerate() {
                if ast && i + 1 == n {
                    return match engine.emit_expanded_ast_without_optimizations(p, None) {
                        Ok(es) => {
                            let s: Vec<String> = es.iter().map(|e| format!("{}", e)).collect();
                            format!("ok {}", s.join(" "))
                        }
                        Err(e) => format!("err {}", err_kind(&format!("{}", e))),
                    };
                }
                match engine.compile_and_run_raw_program(p.clone()) {
                    Ok(vals) => {
                        let s: Vec<String> = vals
                            .iter()
                            .map(|v| format!("{}", v))
                            .filter(|s| s != "#<void>")
                            .collect();
                        last = format!("ok {}", s.last().cloned().unwrap_or_default());
                    }
                    Err(e) => {
                        return format!("err {}", err_kind(&format!("{}", e)));
                    }
                }
            }
            last
        }));
        match r {
            Ok(s) => println!("{}", s.replace('\n', " ").trim_end()),
            Err(_) => println!("panic"),
        }
        std::io::stdout().flush().ok();
    }
}
