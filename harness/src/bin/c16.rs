//! C16 / C15 program-level harness: run a multi-threaded script on the REAL engine under a watchdog.
//!
//! stdin, one case per line (TAB separated):  case <id> <bound_ms> <expected> <program on one line>
//!   <expected> = the `Display` text of the value of the LAST top-level expression, or `-` (not checked).
//! The evaluation runs on the main thread.  A watcher thread samples the verification counters of steel-core
//! (`steel::steel_vm::verif::counters()`, cfg steel_verif) every 5 ms; when the program has not returned after
//! <bound_ms> it prints the verdict with the last counter samples and exits(3):
//!   hang-stuck     no instruction was dispatched by any thread during the last 40% of the bound and a stop
//!                  request is outstanding (stops issued > completed): the rendezvous does not finish;
//!   hang-blocked   no instruction dispatched, no stop request outstanding (threads block each other at script
//!                  level — or a primitive never returns);
//!   hang-running   instructions are still being dispatched (a long or endless computation).
//! Delay injection: with env `C16_JITTER=<seed>` a yield callback is installed that busy-waits a pseudo-random
//! 0..40 us at the yield points of the handshake that border its narrow windows (sp.exit.retract, poll.retract,
//! scan.spin, stop.thread, resume.thread, env.thunk) — the schedule stays the OS's, the windows get wider.
//! stdout, one line per case:
//!   case <id> outcome=<finished|error:<text>|panic|hang-…> value=<text|-> ok=<1|0> ms=<wall>
//!        dispatched=<n> stops=<issued>/<completed> gcs=<started>/<finished> envs=<started>/<finished>
//!        scanviol=<dispatches that ran while the dispatching thread was being scanned>
use std::io::{BufRead, Write};
use std::panic::{catch_unwind, AssertUnwindSafe};
use std::sync::atomic::{AtomicBool, Ordering};
use std::sync::Arc;
use std::time::{Duration, Instant};

use steel::steel_vm::engine::Engine;
use steel::steel_vm::verif;

static JSEED: std::sync::atomic::AtomicU64 = std::sync::atomic::AtomicU64::new(0);
thread_local! {
    static RNG: std::cell::Cell<u64> = const { std::cell::Cell::new(0) };
}

fn jitter(site: &'static str, key: usize) {
    match site {
        "sp.exit.retract" | "poll.retract" | "scan.spin" | "stop.thread" | "resume.thread" | "env.thunk" => {}
        _ => return,
    }
    let r = RNG.with(|c| {
        let mut x = c.get();
        if x == 0 {
            x = JSEED.load(Ordering::Relaxed) ^ (key as u64).wrapping_mul(0x9E3779B97F4A7C15) | 1;
        }
        x ^= x << 13;
        x ^= x >> 7;
        x ^= x << 17;
        c.set(x);
        x
    });
    if r % 4 == 0 {
        let us = (r >> 8) % 40;
        let t = Instant::now();
        while t.elapsed() < Duration::from_micros(us) {
            std::hint::spin_loop();
        }
    }
}

fn emit(line: &str) {
    let out = std::io::stdout();
    let mut l = out.lock();
    let _ = writeln!(l, "{line}");
    let _ = l.flush();
}

fn clean(s: &str) -> String {
    s.chars().map(|c| if c == '\n' || c == '\t' { ' ' } else { c }).take(300).collect()
}

fn counters_text() -> String {
    let (d, si, sc, gs, gf, es, ef) = verif::counters();
    format!(
        "dispatched={d} stops={si}/{sc} gcs={gs}/{gf} envs={es}/{ef} scanviol={}",
        verif::scan_violations()
    )
}

fn main() {
    if let Ok(seed) = std::env::var("C16_JITTER") {
        JSEED.store(seed.parse().unwrap_or(1), Ordering::Relaxed);
        verif::set_yield(Some(jitter));
    }
    let stdin = std::io::stdin();
    for line in stdin.lock().lines() {
        let line = match line {
            Ok(l) => l,
            Err(_) => break,
        };
        let f: Vec<&str> = line.splitn(5, '\t').collect();
        if f.len() < 5 || f[0] != "case" {
            continue;
        }
        let id = f[1].to_string();
        let bound = Duration::from_millis(f[2].parse().unwrap_or(5000));
        let expected = f[3].to_string();
        let program = f[4].to_string();

        let mut engine = Engine::new();
        verif::reset();
        let base = verif::counters();
        let done = Arc::new(AtomicBool::new(false));
        let t0 = Instant::now();
        let watcher = {
            let done = done.clone();
            let id = id.clone();
            std::thread::spawn(move || {
                let mut samples: Vec<(u128, u64, u64, u64)> = Vec::new();
                loop {
                    if done.load(Ordering::SeqCst) {
                        return;
                    }
                    let c = verif::counters();
                    samples.push((t0.elapsed().as_millis(), c.0, c.1, c.2));
                    if t0.elapsed() > bound {
                        // classify the hang from the samples of the last 40% of the bound
                        let cut = (bound.as_millis() * 6) / 10;
                        let tail: Vec<_> = samples.iter().filter(|s| s.0 >= cut).collect();
                        let moved = tail.first().map(|a| a.1) != tail.last().map(|a| a.1);
                        let outstanding = c.1 > c.2;
                        let kind = if moved {
                            "hang-running"
                        } else if outstanding {
                            "hang-stuck"
                        } else {
                            "hang-blocked"
                        };
                        emit(&format!(
                            "case {id} outcome={kind} value=- ok=0 ms={} {}",
                            t0.elapsed().as_millis(),
                            counters_text()
                        ));
                        std::process::exit(3);
                    }
                    std::thread::sleep(Duration::from_millis(5));
                }
            })
        };
        let res = catch_unwind(AssertUnwindSafe(|| engine.run(program.clone())));
        done.store(true, Ordering::SeqCst);
        let _ = watcher.join();
        let ms = t0.elapsed().as_millis();
        let (outcome, value) = match &res {
            Err(_) => ("panic".to_string(), "-".to_string()),
            Ok(Ok(v)) => (
                "finished".to_string(),
                v.last().map(|x| clean(&x.to_string())).unwrap_or_else(|| "-".to_string()),
            ),
            Ok(Err(e)) => (format!("error:{}", clean(&e.to_string()).replace(' ', "_")), "-".to_string()),
        };
        let ok = outcome == "finished" && (expected == "-" || expected == value);
        let _ = base;
        emit(&format!(
            "case {id} outcome={outcome} value={} ok={} ms={ms} {}",
            value.replace(' ', "_"),
            ok as u8,
            counters_text()
        ));
    }
}
