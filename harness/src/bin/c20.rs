//! C20 harness: the REAL host boundary of steel-core on the line protocol of
//! `lean/SteelVerif/C20/Driver.lean` (one output line per input line).
//!
//!   into <ty> <hv>            IntoSteelVal::into_steelval              -> ok <sval> | err:<kind> | bad range
//!   intofrom <ty> <hv>        SteelVal::from (the `From` impls)        -> ok <sval>
//!   from <ty> <sval>          FromSteelVal::from_steelval on a value built by evaluating steel
//!                             source for <sval>                         -> ok <hv> | err:<kind>
//!   fromsrc <ty> <n> <src..>  FromSteelVal on the value of the steel expression <src> (model: integer n)
//!   roundtrip <ty> <hv>       from(into(x))                              -> ok <hv> | err:<kind>
//!   call <shape> <sval>*      script call `(f a0 .. ak)` of a recording host fn registered with
//!                             Engine::register_fn                        -> ok recv=<hv;..> | err:<kind> called=<yes|no>
//!   lend <rw|ro>+ / copy / drop / get / getro / set / derive / end      borrowed references (see below)
//!   slice <eng|mod> <h> <c> <sval>*   `(node-sum-<v> REF a..)`: a host fn `Fn(&mut SELF, &[isize], isize)` registered through
//!                             Engine::register_fn / BuiltInModule::register_fn (hand-written wrappers of register_fn.rs)
//!   mkstruct <sval>*          constructor + getters of a struct registered the way `#[derive(Steel)]` does  -> ok list:[..] | err:<kind>
//!   dstruct <T|N|V|W><mask> <sval>* constructor + every accessor of a struct / enum variant registered through the real
//!                             #[derive(Steel)] with #[steel(ignore)] on the fields of <mask>   -> ok 0=<sval|none>;..;3=.. | err:<kind>
//!   copy places: global closure list vector mvector hashmap box struct nested promise param hashset thread restargs cont
//!   reset                     fresh engine
//!
//! <hv>  host values:   123 | t | f | c65 | g<f32 bits> | b<f64 bits> | s<hex> | u | n | S(<hv>) | [a,b] | (a,b) | {k=v,..} | <a,b> | O(x) | E(x) | R7
//! <sval> script values: int:5 big:5 num:<bits> bool:t char:65 str:<hex> sym:<hex> void list:[..] vec:[..] mvec:[..]
//!                       map:{k=v,..} set:{a,b} okv:(v) errv:(v) custom:rec:7 custom:other:7
use std::cell::RefCell;
use std::collections::{HashMap, HashSet};
use std::io::{BufRead, Write};
use std::panic::{catch_unwind, AssertUnwindSafe};

use steel::gc::unsafe_erased_pointers::CustomReference;
use steel::rerrs::ErrorKind;
use steel::rvals::{Custom, FromSteelVal, IntoSteelVal};
use steel::steel_vm::engine::Engine;
use steel::steel_vm::builtin::BuiltInModule;
use steel::steel_vm::register_fn::{MarkerWrapper6, MarkerWrapper7, MarkerWrapper8, RegisterFn};
use steel::{SteelErr, SteelVal};

// ------------------------------------------------------------------------------------------------
// small parser over a token
struct P<'a> {
    s: &'a [u8],
    i: usize,
}
impl<'a> P<'a> {
    fn new(s: &'a str) -> Self {
        P { s: s.as_bytes(), i: 0 }
    }
    fn peek(&self) -> Option<u8> {
        self.s.get(self.i).copied()
    }
    fn eat(&mut self, c: u8) -> bool {
        if self.peek() == Some(c) {
            self.i += 1;
            true
        } else {
            false
        }
    }
    fn lit(&mut self, l: &str) -> bool {
        if self.s[self.i..].starts_with(l.as_bytes()) {
            self.i += l.len();
            true
        } else {
            false
        }
    }
    fn int_text(&mut self) -> Option<String> {
        let st = self.i;
        if self.peek() == Some(b'-') {
            self.i += 1;
        }
        while matches!(self.peek(), Some(b'0'..=b'9')) {
            self.i += 1;
        }
        if self.i == st || (self.i == st + 1 && self.s[st] == b'-') {
            return None;
        }
        Some(String::from_utf8_lossy(&self.s[st..self.i]).to_string())
    }
    fn hex(&mut self) -> Option<String> {
        let st = self.i;
        while matches!(self.peek(), Some(b'0'..=b'9') | Some(b'a'..=b'f')) {
            self.i += 1;
        }
        let h = &self.s[st..self.i];
        if h.len() % 2 != 0 {
            return None;
        }
        let mut out = Vec::new();
        for k in (0..h.len()).step_by(2) {
            out.push(u8::from_str_radix(std::str::from_utf8(&h[k..k + 2]).ok()?, 16).ok()?);
        }
        String::from_utf8(out).ok()
    }
    fn done(&self) -> bool {
        self.i == self.s.len()
    }
}
fn hexs(s: &str) -> String {
    s.bytes().map(|b| format!("{:02x}", b)).collect()
}

// ------------------------------------------------------------------------------------------------
// host values
#[derive(Debug)]
enum PErr {
    Syntax,
    Range,
}
trait HV: Sized {
    fn parse(p: &mut P) -> Result<Self, PErr>;
    fn show(&self) -> String;
}
macro_rules! hv_int {
    ($($t:ty),*) => {$(
        impl HV for $t {
            fn parse(p: &mut P) -> Result<Self, PErr> {
                let t = p.int_text().ok_or(PErr::Syntax)?;
                if let Ok(v) = t.parse::<i128>() {
                    <$t>::try_from(v).map_err(|_| PErr::Range)
                } else if let Ok(v) = t.parse::<u128>() {
                    <$t>::try_from(v).map_err(|_| PErr::Range)
                } else {
                    Err(PErr::Range)
                }
            }
            fn show(&self) -> String { format!("{}", self) }
        }
    )*};
}
hv_int!(i8, i16, i32, i64, isize, u8, u16, u32, u64, usize, u128);
impl HV for bool {
    fn parse(p: &mut P) -> Result<Self, PErr> {
        if p.eat(b't') {
            Ok(true)
        } else if p.eat(b'f') {
            Ok(false)
        } else {
            Err(PErr::Syntax)
        }
    }
    fn show(&self) -> String {
        if *self { "t".into() } else { "f".into() }
    }
}
impl HV for char {
    fn parse(p: &mut P) -> Result<Self, PErr> {
        if !p.eat(b'c') {
            return Err(PErr::Syntax);
        }
        let t = p.int_text().ok_or(PErr::Syntax)?;
        let n: u32 = t.parse().map_err(|_| PErr::Range)?;
        char::from_u32(n).ok_or(PErr::Range)
    }
    fn show(&self) -> String {
        format!("c{}", *self as u32)
    }
}
impl HV for String {
    fn parse(p: &mut P) -> Result<Self, PErr> {
        if !p.eat(b's') {
            return Err(PErr::Syntax);
        }
        p.hex().ok_or(PErr::Syntax)
    }
    fn show(&self) -> String {
        format!("s{}", hexs(self))
    }
}
impl HV for () {
    fn parse(p: &mut P) -> Result<Self, PErr> {
        if p.eat(b'u') { Ok(()) } else { Err(PErr::Syntax) }
    }
    fn show(&self) -> String {
        "u".into()
    }
}
impl HV for f64 {
    fn parse(p: &mut P) -> Result<Self, PErr> {
        if !p.eat(b'b') {
            return Err(PErr::Syntax);
        }
        let t = p.int_text().ok_or(PErr::Syntax)?;
        Ok(f64::from_bits(t.parse::<u64>().map_err(|_| PErr::Range)?))
    }
    fn show(&self) -> String {
        format!("b{}", self.to_bits())
    }
}
impl HV for f32 {
    fn parse(p: &mut P) -> Result<Self, PErr> {
        if !p.eat(b'g') {
            return Err(PErr::Syntax);
        }
        let t = p.int_text().ok_or(PErr::Syntax)?;
        Ok(f32::from_bits(t.parse::<u32>().map_err(|_| PErr::Range)?))
    }
    fn show(&self) -> String {
        format!("g{}", self.to_bits())
    }
}
impl<T: HV> HV for Option<T> {
    fn parse(p: &mut P) -> Result<Self, PErr> {
        if p.lit("S(") {
            let v = T::parse(p)?;
            if !p.eat(b')') {
                return Err(PErr::Syntax);
            }
            Ok(Some(v))
        } else if p.eat(b'n') {
            Ok(None)
        } else {
            Err(PErr::Syntax)
        }
    }
    fn show(&self) -> String {
        match self {
            None => "n".into(),
            Some(x) => format!("S({})", x.show()),
        }
    }
}
impl<T: HV, E: HV> HV for Result<T, E> {
    fn parse(p: &mut P) -> Result<Self, PErr> {
        if p.lit("O(") {
            let v = T::parse(p)?;
            if !p.eat(b')') {
                return Err(PErr::Syntax);
            }
            Ok(Ok(v))
        } else if p.lit("E(") {
            let v = E::parse(p)?;
            if !p.eat(b')') {
                return Err(PErr::Syntax);
            }
            Ok(Err(v))
        } else {
            Err(PErr::Syntax)
        }
    }
    fn show(&self) -> String {
        match self {
            Ok(x) => format!("O({})", x.show()),
            Err(x) => format!("E({})", x.show()),
        }
    }
}
fn parse_seq<T: HV>(p: &mut P, open: u8, close: u8) -> Result<Vec<T>, PErr> {
    if !p.eat(open) {
        return Err(PErr::Syntax);
    }
    let mut out = Vec::new();
    if p.eat(close) {
        return Ok(out);
    }
    loop {
        out.push(T::parse(p)?);
        if p.eat(close) {
            return Ok(out);
        }
        if !p.eat(b',') {
            return Err(PErr::Syntax);
        }
    }
}
impl<T: HV> HV for Vec<T> {
    fn parse(p: &mut P) -> Result<Self, PErr> {
        parse_seq(p, b'[', b']')
    }
    fn show(&self) -> String {
        format!("[{}]", self.iter().map(|x| x.show()).collect::<Vec<_>>().join(","))
    }
}
impl<A: HV, B: HV> HV for (A, B) {
    fn parse(p: &mut P) -> Result<Self, PErr> {
        if !p.eat(b'(') {
            return Err(PErr::Syntax);
        }
        let a = A::parse(p)?;
        if !p.eat(b',') {
            return Err(PErr::Syntax);
        }
        let b = B::parse(p)?;
        if !p.eat(b')') {
            return Err(PErr::Syntax);
        }
        Ok((a, b))
    }
    fn show(&self) -> String {
        format!("({},{})", self.0.show(), self.1.show())
    }
}
struct KV<K, V>(K, V);
impl<K: HV, V: HV> HV for KV<K, V> {
    fn parse(p: &mut P) -> Result<Self, PErr> {
        let k = K::parse(p)?;
        if !p.eat(b'=') {
            return Err(PErr::Syntax);
        }
        Ok(KV(k, V::parse(p)?))
    }
    fn show(&self) -> String {
        format!("{}={}", self.0.show(), self.1.show())
    }
}
impl<K: HV + Eq + std::hash::Hash, V: HV> HV for HashMap<K, V> {
    fn parse(p: &mut P) -> Result<Self, PErr> {
        let v: Vec<KV<K, V>> = parse_seq(p, b'{', b'}')?;
        Ok(v.into_iter().map(|KV(k, v)| (k, v)).collect())
    }
    fn show(&self) -> String {
        let mut v: Vec<String> = self.iter().map(|(k, v)| format!("{}={}", k.show(), v.show())).collect();
        v.sort();
        format!("{{{}}}", v.join(","))
    }
}
impl<K: HV + Eq + std::hash::Hash> HV for HashSet<K> {
    fn parse(p: &mut P) -> Result<Self, PErr> {
        let v: Vec<K> = parse_seq(p, b'<', b'>')?;
        Ok(v.into_iter().collect())
    }
    fn show(&self) -> String {
        let mut v: Vec<String> = self.iter().map(|k| k.show()).collect();
        v.sort();
        format!("<{}>", v.join(","))
    }
}

#[derive(Clone, Debug, PartialEq)]
struct Rec {
    id: i64,
}
impl Custom for Rec {}
#[derive(Clone, Debug, PartialEq)]
struct Other {
    id: i64,
}
impl Custom for Other {}
/// a struct as `#[derive(Steel)] #[steel(constructors, getters)]` registers it (steel-derive `derive_steel_impl`):
/// `impl Custom`, a constructor closure over the fields, one `|value: &T| value.f.clone().into_steelval()` per field,
/// all through `BuiltInModule::register_fn`
#[derive(Clone, Debug, PartialEq)]
struct Rec2 {
    a: i32,
    name: String,
    tags: Vec<u8>,
    opt: Option<bool>,
}
impl Custom for Rec2 {}
impl HV for Rec {
    fn parse(p: &mut P) -> Result<Self, PErr> {
        if !p.eat(b'R') {
            return Err(PErr::Syntax);
        }
        Ok(Rec { id: i64::parse(p)? })
    }
    fn show(&self) -> String {
        format!("R{}", self.id)
    }
}

// ------------------------------------------------------------------------------------------------
// structs and enums registered through the REAL `#[derive(Steel)]` (crates/steel-derive), constructors + getters, with
// `#[steel(ignore)]` on every subset of the four fields (GENERATED block: T<mask> tuple structs, N<mask> named
// structs, EV::V<mask> tuple variants, EW::W<mask> named variants; mask digit k = 1: field k is ignored)
mod derived {
    use steel_derive::Steel;
    #[derive(Clone, Debug, Steel, PartialEq)]
    #[steel(getters, constructors)]
    pub struct T0000(pub i32, pub String, pub Vec<u8>, pub Option<bool>);
    #[derive(Clone, Debug, Steel, PartialEq)]
    #[steel(getters, constructors)]
    pub struct N0000 { pub a: i32, pub b: String, pub c: Vec<u8>, pub d: Option<bool> }
    #[derive(Clone, Debug, Steel, PartialEq)]
    #[steel(getters, constructors)]
    pub struct T0001(pub i32, pub String, pub Vec<u8>, #[steel(ignore)] pub Option<bool>);
    #[derive(Clone, Debug, Steel, PartialEq)]
    #[steel(getters, constructors)]
    pub struct N0001 { pub a: i32, pub b: String, pub c: Vec<u8>, #[steel(ignore)] pub d: Option<bool> }
    #[derive(Clone, Debug, Steel, PartialEq)]
    #[steel(getters, constructors)]
    pub struct T0010(pub i32, pub String, #[steel(ignore)] pub Vec<u8>, pub Option<bool>);
    #[derive(Clone, Debug, Steel, PartialEq)]
    #[steel(getters, constructors)]
    pub struct N0010 { pub a: i32, pub b: String, #[steel(ignore)] pub c: Vec<u8>, pub d: Option<bool> }
    #[derive(Clone, Debug, Steel, PartialEq)]
    #[steel(getters, constructors)]
    pub struct T0011(pub i32, pub String, #[steel(ignore)] pub Vec<u8>, #[steel(ignore)] pub Option<bool>);
    #[derive(Clone, Debug, Steel, PartialEq)]
    #[steel(getters, constructors)]
    pub struct N0011 { pub a: i32, pub b: String, #[steel(ignore)] pub c: Vec<u8>, #[steel(ignore)] pub d: Option<bool> }
    #[derive(Clone, Debug, Steel, PartialEq)]
    #[steel(getters, constructors)]
    pub struct T0100(pub i32, #[steel(ignore)] pub String, pub Vec<u8>, pub Option<bool>);
    #[derive(Clone, Debug, Steel, PartialEq)]
    #[steel(getters, constructors)]
    pub struct N0100 { pub a: i32, #[steel(ignore)] pub b: String, pub c: Vec<u8>, pub d: Option<bool> }
    #[derive(Clone, Debug, Steel, PartialEq)]
    #[steel(getters, constructors)]
    pub struct T0101(pub i32, #[steel(ignore)] pub String, pub Vec<u8>, #[steel(ignore)] pub Option<bool>);
    #[derive(Clone, Debug, Steel, PartialEq)]
    #[steel(getters, constructors)]
    pub struct N0101 { pub a: i32, #[steel(ignore)] pub b: String, pub c: Vec<u8>, #[steel(ignore)] pub d: Option<bool> }
    #[derive(Clone, Debug, Steel, PartialEq)]
    #[steel(getters, constructors)]
    pub struct T0110(pub i32, #[steel(ignore)] pub String, #[steel(ignore)] pub Vec<u8>, pub Option<bool>);
    #[derive(Clone, Debug, Steel, PartialEq)]
    #[steel(getters, constructors)]
    pub struct N0110 { pub a: i32, #[steel(ignore)] pub b: String, #[steel(ignore)] pub c: Vec<u8>, pub d: Option<bool> }
    #[derive(Clone, Debug, Steel, PartialEq)]
    #[steel(getters, constructors)]
    pub struct T0111(pub i32, #[steel(ignore)] pub String, #[steel(ignore)] pub Vec<u8>, #[steel(ignore)] pub Option<bool>);
    #[derive(Clone, Debug, Steel, PartialEq)]
    #[steel(getters, constructors)]
    pub struct N0111 { pub a: i32, #[steel(ignore)] pub b: String, #[steel(ignore)] pub c: Vec<u8>, #[steel(ignore)] pub d: Option<bool> }
    #[derive(Clone, Debug, Steel, PartialEq)]
    #[steel(getters, constructors)]
    pub struct T1000(#[steel(ignore)] pub i32, pub String, pub Vec<u8>, pub Option<bool>);
    #[derive(Clone, Debug, Steel, PartialEq)]
    #[steel(getters, constructors)]
    pub struct N1000 { #[steel(ignore)] pub a: i32, pub b: String, pub c: Vec<u8>, pub d: Option<bool> }
    #[derive(Clone, Debug, Steel, PartialEq)]
    #[steel(getters, constructors)]
    pub struct T1001(#[steel(ignore)] pub i32, pub String, pub Vec<u8>, #[steel(ignore)] pub Option<bool>);
    #[derive(Clone, Debug, Steel, PartialEq)]
    #[steel(getters, constructors)]
    pub struct N1001 { #[steel(ignore)] pub a: i32, pub b: String, pub c: Vec<u8>, #[steel(ignore)] pub d: Option<bool> }
    #[derive(Clone, Debug, Steel, PartialEq)]
    #[steel(getters, constructors)]
    pub struct T1010(#[steel(ignore)] pub i32, pub String, #[steel(ignore)] pub Vec<u8>, pub Option<bool>);
    #[derive(Clone, Debug, Steel, PartialEq)]
    #[steel(getters, constructors)]
    pub struct N1010 { #[steel(ignore)] pub a: i32, pub b: String, #[steel(ignore)] pub c: Vec<u8>, pub d: Option<bool> }
    #[derive(Clone, Debug, Steel, PartialEq)]
    #[steel(getters, constructors)]
    pub struct T1011(#[steel(ignore)] pub i32, pub String, #[steel(ignore)] pub Vec<u8>, #[steel(ignore)] pub Option<bool>);
    #[derive(Clone, Debug, Steel, PartialEq)]
    #[steel(getters, constructors)]
    pub struct N1011 { #[steel(ignore)] pub a: i32, pub b: String, #[steel(ignore)] pub c: Vec<u8>, #[steel(ignore)] pub d: Option<bool> }
    #[derive(Clone, Debug, Steel, PartialEq)]
    #[steel(getters, constructors)]
    pub struct T1100(#[steel(ignore)] pub i32, #[steel(ignore)] pub String, pub Vec<u8>, pub Option<bool>);
    #[derive(Clone, Debug, Steel, PartialEq)]
    #[steel(getters, constructors)]
    pub struct N1100 { #[steel(ignore)] pub a: i32, #[steel(ignore)] pub b: String, pub c: Vec<u8>, pub d: Option<bool> }
    #[derive(Clone, Debug, Steel, PartialEq)]
    #[steel(getters, constructors)]
    pub struct T1101(#[steel(ignore)] pub i32, #[steel(ignore)] pub String, pub Vec<u8>, #[steel(ignore)] pub Option<bool>);
    #[derive(Clone, Debug, Steel, PartialEq)]
    #[steel(getters, constructors)]
    pub struct N1101 { #[steel(ignore)] pub a: i32, #[steel(ignore)] pub b: String, pub c: Vec<u8>, #[steel(ignore)] pub d: Option<bool> }
    #[derive(Clone, Debug, Steel, PartialEq)]
    #[steel(getters, constructors)]
    pub struct T1110(#[steel(ignore)] pub i32, #[steel(ignore)] pub String, #[steel(ignore)] pub Vec<u8>, pub Option<bool>);
    #[derive(Clone, Debug, Steel, PartialEq)]
    #[steel(getters, constructors)]
    pub struct N1110 { #[steel(ignore)] pub a: i32, #[steel(ignore)] pub b: String, #[steel(ignore)] pub c: Vec<u8>, pub d: Option<bool> }
    #[derive(Clone, Debug, Steel, PartialEq)]
    #[steel(getters, constructors)]
    pub struct T1111(#[steel(ignore)] pub i32, #[steel(ignore)] pub String, #[steel(ignore)] pub Vec<u8>, #[steel(ignore)] pub Option<bool>);
    #[derive(Clone, Debug, Steel, PartialEq)]
    #[steel(getters, constructors)]
    pub struct N1111 { #[steel(ignore)] pub a: i32, #[steel(ignore)] pub b: String, #[steel(ignore)] pub c: Vec<u8>, #[steel(ignore)] pub d: Option<bool> }
    #[derive(Clone, Debug, Steel, PartialEq)]
    #[steel(getters, constructors)]
    pub enum EV {
        V0000(i32, String, Vec<u8>, Option<bool>),
        V0001(i32, String, Vec<u8>, #[steel(ignore)] Option<bool>),
        V0010(i32, String, #[steel(ignore)] Vec<u8>, Option<bool>),
        V0011(i32, String, #[steel(ignore)] Vec<u8>, #[steel(ignore)] Option<bool>),
        V0100(i32, #[steel(ignore)] String, Vec<u8>, Option<bool>),
        V0101(i32, #[steel(ignore)] String, Vec<u8>, #[steel(ignore)] Option<bool>),
        V0110(i32, #[steel(ignore)] String, #[steel(ignore)] Vec<u8>, Option<bool>),
        V0111(i32, #[steel(ignore)] String, #[steel(ignore)] Vec<u8>, #[steel(ignore)] Option<bool>),
        V1000(#[steel(ignore)] i32, String, Vec<u8>, Option<bool>),
        V1001(#[steel(ignore)] i32, String, Vec<u8>, #[steel(ignore)] Option<bool>),
        V1010(#[steel(ignore)] i32, String, #[steel(ignore)] Vec<u8>, Option<bool>),
        V1011(#[steel(ignore)] i32, String, #[steel(ignore)] Vec<u8>, #[steel(ignore)] Option<bool>),
        V1100(#[steel(ignore)] i32, #[steel(ignore)] String, Vec<u8>, Option<bool>),
        V1101(#[steel(ignore)] i32, #[steel(ignore)] String, Vec<u8>, #[steel(ignore)] Option<bool>),
        V1110(#[steel(ignore)] i32, #[steel(ignore)] String, #[steel(ignore)] Vec<u8>, Option<bool>),
        V1111(#[steel(ignore)] i32, #[steel(ignore)] String, #[steel(ignore)] Vec<u8>, #[steel(ignore)] Option<bool>),
    }
    #[derive(Clone, Debug, Steel, PartialEq)]
    #[steel(getters, constructors)]
    pub enum EW {
        W0000 { a: i32, b: String, c: Vec<u8>, d: Option<bool> },
        W0001 { a: i32, b: String, c: Vec<u8>, #[steel(ignore)] d: Option<bool> },
        W0010 { a: i32, b: String, #[steel(ignore)] c: Vec<u8>, d: Option<bool> },
        W0011 { a: i32, b: String, #[steel(ignore)] c: Vec<u8>, #[steel(ignore)] d: Option<bool> },
        W0100 { a: i32, #[steel(ignore)] b: String, c: Vec<u8>, d: Option<bool> },
        W0101 { a: i32, #[steel(ignore)] b: String, c: Vec<u8>, #[steel(ignore)] d: Option<bool> },
        W0110 { a: i32, #[steel(ignore)] b: String, #[steel(ignore)] c: Vec<u8>, d: Option<bool> },
        W0111 { a: i32, #[steel(ignore)] b: String, #[steel(ignore)] c: Vec<u8>, #[steel(ignore)] d: Option<bool> },
        W1000 { #[steel(ignore)] a: i32, b: String, c: Vec<u8>, d: Option<bool> },
        W1001 { #[steel(ignore)] a: i32, b: String, c: Vec<u8>, #[steel(ignore)] d: Option<bool> },
        W1010 { #[steel(ignore)] a: i32, b: String, #[steel(ignore)] c: Vec<u8>, d: Option<bool> },
        W1011 { #[steel(ignore)] a: i32, b: String, #[steel(ignore)] c: Vec<u8>, #[steel(ignore)] d: Option<bool> },
        W1100 { #[steel(ignore)] a: i32, #[steel(ignore)] b: String, c: Vec<u8>, d: Option<bool> },
        W1101 { #[steel(ignore)] a: i32, #[steel(ignore)] b: String, c: Vec<u8>, #[steel(ignore)] d: Option<bool> },
        W1110 { #[steel(ignore)] a: i32, #[steel(ignore)] b: String, #[steel(ignore)] c: Vec<u8>, d: Option<bool> },
        W1111 { #[steel(ignore)] a: i32, #[steel(ignore)] b: String, #[steel(ignore)] c: Vec<u8>, #[steel(ignore)] d: Option<bool> },
    }
    pub fn register(m: &mut steel::steel_vm::builtin::BuiltInModule) {
        T0000::register_type(m);
        N0000::register_type(m);
        T0001::register_type(m);
        N0001::register_type(m);
        T0010::register_type(m);
        N0010::register_type(m);
        T0011::register_type(m);
        N0011::register_type(m);
        T0100::register_type(m);
        N0100::register_type(m);
        T0101::register_type(m);
        N0101::register_type(m);
        T0110::register_type(m);
        N0110::register_type(m);
        T0111::register_type(m);
        N0111::register_type(m);
        T1000::register_type(m);
        N1000::register_type(m);
        T1001::register_type(m);
        N1001::register_type(m);
        T1010::register_type(m);
        N1010::register_type(m);
        T1011::register_type(m);
        N1011::register_type(m);
        T1100::register_type(m);
        N1100::register_type(m);
        T1101::register_type(m);
        N1101::register_type(m);
        T1110::register_type(m);
        N1110::register_type(m);
        T1111::register_type(m);
        N1111::register_type(m);
        EV::register_enum_variants(m);
        EW::register_enum_variants(m);
    }
}

// ------------------------------------------------------------------------------------------------
// script values: printing a SteelVal, and steel source for an <sval>
fn show_sv(v: &SteelVal) -> String {
    match v {
        SteelVal::IntV(i) => format!("int:{}", i),
        SteelVal::BigNum(b) => format!("big:{}", **b),
        SteelVal::NumV(f) => format!("num:{}", f.to_bits()),
        SteelVal::BoolV(b) => format!("bool:{}", if *b { "t" } else { "f" }),
        SteelVal::CharV(c) => format!("char:{}", *c as u32),
        SteelVal::StringV(s) => format!("str:{}", hexs(s.as_str())),
        SteelVal::SymbolV(s) => format!("sym:{}", hexs(s.as_str())),
        SteelVal::Void => "void".into(),
        SteelVal::ListV(l) => format!("list:[{}]", l.iter().map(show_sv).collect::<Vec<_>>().join(",")),
        SteelVal::VectorV(l) => format!("vec:[{}]", l.iter().map(show_sv).collect::<Vec<_>>().join(",")),
        SteelVal::HashMapV(m) => {
            let mut e: Vec<String> = m.iter().map(|(k, v)| format!("{}={}", show_sv(k), show_sv(v))).collect();
            e.sort();
            format!("map:{{{}}}", e.join(","))
        }
        SteelVal::HashSetV(m) => {
            let mut e: Vec<String> = m.iter().map(show_sv).collect();
            e.sort();
            format!("set:{{{}}}", e.join(","))
        }
        SteelVal::Custom(_) => {
            if let Ok(r) = Rec::from_steelval(v) {
                format!("custom:rec:{}", r.id)
            } else if let Ok(r) = Other::from_steelval(v) {
                format!("custom:other:{}", r.id)
            } else {
                "custom:?".into()
            }
        }
        SteelVal::Reference(_) => "ref".into(),
        other => format!("other:{}", hexs(&format!("{}", other))),
    }
}

/// steel source text that evaluates to the script value written as <sval>
fn sv_source(p: &mut P) -> Option<String> {
    fn seq(p: &mut P, open: u8, close: u8) -> Option<Vec<String>> {
        if !p.eat(open) {
            return None;
        }
        let mut out = Vec::new();
        if p.eat(close) {
            return Some(out);
        }
        loop {
            out.push(sv_source(p)?);
            if p.eat(b'=') {
                out.push(sv_source(p)?);
            }
            if p.eat(close) {
                return Some(out);
            }
            if !p.eat(b',') {
                return None;
            }
        }
    }
    if p.lit("int:") {
        let t = p.int_text()?;
        // a host-made IntV (also reachable from source as a literal when it fits)
        Some(format!("(c20-int \"{}\")", t))
    } else if p.lit("lit:") {
        p.int_text()
    } else if p.lit("big:") {
        Some(format!("(c20-big \"{}\")", p.int_text()?))
    } else if p.lit("num:") {
        Some(format!("(c20-f64 \"{}\")", p.int_text()?))
    } else if p.lit("bool:") {
        if p.eat(b't') {
            Some("#t".into())
        } else if p.eat(b'f') {
            Some("#f".into())
        } else {
            None
        }
    } else if p.lit("char:") {
        Some(format!("(integer->char {})", p.int_text()?))
    } else if p.lit("str:") {
        Some(format!("(c20-unhex \"{}\")", hexs(&p.hex()?)))
    } else if p.lit("sym:") {
        Some(format!("(string->symbol (c20-unhex \"{}\"))", hexs(&p.hex()?)))
    } else if p.lit("void") {
        Some("void".into())
    } else if p.lit("list:") {
        Some(format!("(list {})", seq(p, b'[', b']')?.join(" ")))
    } else if p.lit("vec:") {
        Some(format!("(immutable-vector {})", seq(p, b'[', b']')?.join(" ")))
    } else if p.lit("mvec:") {
        Some(format!("(vector {})", seq(p, b'[', b']')?.join(" ")))
    } else if p.lit("map:") {
        Some(format!("(hash {})", seq(p, b'{', b'}')?.join(" ")))
    } else if p.lit("set:") {
        Some(format!("(hashset {})", seq(p, b'{', b'}')?.join(" ")))
    } else if p.lit("okv:") {
        Some(format!("(Ok {})", seq(p, b'(', b')')?.join(" ")))
    } else if p.lit("errv:") {
        Some(format!("(Err {})", seq(p, b'(', b')')?.join(" ")))
    } else if p.lit("custom:rec:") {
        Some(format!("(c20-rec {})", p.int_text()?))
    } else if p.lit("custom:other:") {
        Some(format!("(c20-other {})", p.int_text()?))
    } else {
        None
    }
}

fn err_class(e: &SteelErr) -> String {
    let msg = format!("{}", e);
    match e.kind() {
        ErrorKind::ArityMismatch => "err:arity".into(),
        ErrorKind::ConversionError => "err:conversion".into(),
        ErrorKind::TypeMismatch => "err:type".into(),
        ErrorKind::FreeIdentifier => "err:free-id".into(),
        ErrorKind::Generic => {
            if msg.contains("already borrowed") {
                "err:borrowed".into()
            } else if msg.contains("dropped before use") {
                "err:stale-reference".into()
            } else {
                "err:generic".into()
            }
        }
        k => format!("err:other:{:?}", k),
    }
}

// ------------------------------------------------------------------------------------------------
// recording host functions
thread_local! {
    static RECV: RefCell<Option<String>> = const { RefCell::new(None) };
}
fn record(parts: Vec<String>) -> String {
    let s = parts.join(";");
    RECV.with(|r| *r.borrow_mut() = Some(s.clone()));
    s
}

macro_rules! reg_f {
    ($e:expr, $tab:expr, $shape:literal, $name:literal, ($($a:ident : $t:ty),*)) => {
        $e.register_fn($name, |$($a: $t),*| -> String { record(vec![$($a.show()),*]) });
        $tab.insert($shape.to_string(), $name.to_string());
    };
}
macro_rules! reg_m {
    ($e:expr, $tab:expr, $shape:literal, $name:literal, ($($a:ident : $t:ty),*)) => {
        $e.register_fn($name, |s: &Rec $(, $a: $t)*| -> String { record(vec![s.show() $(, $a.show())*]) });
        $tab.insert($shape.to_string(), $name.to_string());
    };
}
macro_rules! reg_mm {
    ($e:expr, $tab:expr, $shape:literal, $name:literal, ($($a:ident : $t:ty),*)) => {
        $e.register_fn($name, |s: &mut Rec $(, $a: $t)*| -> String { record(vec![s.show() $(, $a.show())*]) });
        $tab.insert($shape.to_string(), $name.to_string());
    };
}

static ENTERED: std::sync::atomic::AtomicBool = std::sync::atomic::AtomicBool::new(false);
static RELEASE: std::sync::atomic::AtomicBool = std::sync::atomic::AtomicBool::new(false);

struct Node {
    v: usize,
    child: Option<Box<Node>>,
}
impl CustomReference for Node {}
steel::custom_reference!(Node);
impl Node {
    fn chain(obj: usize, depth: usize) -> Box<Node> {
        let mut cur: Option<Box<Node>> = None;
        for d in (0..depth).rev() {
            cur = Some(Box::new(Node { v: 100 * obj + d, child: cur }));
        }
        cur.unwrap()
    }
    fn poison(&mut self) {
        self.v += 100000;
        if let Some(c) = self.child.as_mut() {
            c.poison()
        }
    }
    fn get(&mut self) -> usize {
        self.v
    }
    fn get_ro(&self) -> usize {
        self.v
    }
    /// a host function that is still running when the lending call returns (used by `threaduse`)
    fn slow_get(&mut self) -> usize {
        use std::sync::atomic::Ordering::SeqCst;
        ENTERED.store(true, SeqCst);
        let t0 = std::time::Instant::now();
        while !RELEASE.load(SeqCst) && t0.elapsed().as_secs() < 5 {
            std::thread::sleep(std::time::Duration::from_millis(1));
        }
        self.v
    }
    fn set(&mut self, v: usize) {
        self.v = v
    }
    /// shape `Fn(&mut SELF, &[INNER], F) -> RET` (hand-written wrappers of register_fn.rs, one for `Engine`, one for `BuiltInModule`)
    fn sum(&mut self, xs: &[isize], k: isize) -> String {
        record(vec![self.v.show(), xs.to_vec().show(), k.show()])
    }
    fn child(&mut self) -> &mut Node {
        self.child.as_mut().expect("c20: chain too short")
    }
    fn child_ro(&mut self) -> &Node {
        self.child.as_ref().expect("c20: chain too short")
    }
}

fn new_engine(tab: &mut HashMap<String, String>) -> Engine {
    let mut e = Engine::new();
    tab.clear();
    // value constructors used by the source form of <sval>
    e.register_fn("c20-int", |s: String| -> SteelVal { SteelVal::IntV(s.parse::<isize>().unwrap()) });
    e.register_fn("c20-big", |s: String| -> SteelVal {
        SteelVal::BigNum(steel::gc::Gc::new(s.parse().unwrap()))
    });
    e.register_fn("c20-f64", |s: String| -> SteelVal { SteelVal::NumV(f64::from_bits(s.parse::<u64>().unwrap())) });
    e.register_fn("c20-unhex", |s: String| -> String { P::new(&s).hex().unwrap() });
    e.register_fn("c20-rec", |n: i64| -> Rec { Rec { id: n } });
    e.register_fn("c20-other", |n: i64| -> Other { Other { id: n } });
    // recording functions, one per signature shape
    e.register_fn("f0", || -> String { record(vec![]) });
    tab.insert("f:".to_string(), "f0".to_string());
    reg_f!(e, tab, "f:f32", "f1_f32", (a: f32));
    reg_f!(e, tab, "f:i8", "f1_i8", (a: i8));
    reg_f!(e, tab, "f:i16", "f1_i16", (a: i16));
    reg_f!(e, tab, "f:i32", "f1_i32", (a: i32));
    reg_f!(e, tab, "f:i64", "f1_i64", (a: i64));
    reg_f!(e, tab, "f:isize", "f1_isize", (a: isize));
    reg_f!(e, tab, "f:u8", "f1_u8", (a: u8));
    reg_f!(e, tab, "f:u16", "f1_u16", (a: u16));
    reg_f!(e, tab, "f:u32", "f1_u32", (a: u32));
    reg_f!(e, tab, "f:u64", "f1_u64", (a: u64));
    reg_f!(e, tab, "f:usize", "f1_usize", (a: usize));
    reg_f!(e, tab, "f:bool", "f1_bool", (a: bool));
    reg_f!(e, tab, "f:char", "f1_char", (a: char));
    reg_f!(e, tab, "f:string", "f1_string", (a: String));
    reg_f!(e, tab, "f:unit", "f1_unit", (a: ()));
    reg_f!(e, tab, "f:opt(i32)", "f1_opt_i32", (a: Option<i32>));
    reg_f!(e, tab, "f:opt(bool)", "f1_opt_bool", (a: Option<bool>));
    reg_f!(e, tab, "f:vec(i32)", "f1_vec_i32", (a: Vec<i32>));
    reg_f!(e, tab, "f:vec(u8)", "f1_vec_u8", (a: Vec<u8>));
    reg_f!(e, tab, "f:pair(i32,string)", "f1_pair", (a: (i32, String)));
    reg_f!(e, tab, "f:map(string,i32)", "f1_map", (a: HashMap<String, i32>));
    reg_f!(e, tab, "f:set(i32)", "f1_set", (a: HashSet<i32>));
    reg_f!(e, tab, "f:rec", "f1_rec", (a: Rec));
    reg_f!(e, tab, "f:pair(i32,i32)", "f1_pair_ii", (a: (i32, i32)));
    reg_f!(e, tab, "f:vec(pair(i32,i32))", "f1_vec_pair", (a: Vec<(i32, i32)>));
    reg_f!(e, tab, "f:opt(pair(i32,i32))", "f1_opt_pair", (a: Option<(i32, i32)>));
    reg_f!(e, tab, "f:res(pair(i32,i32),string)", "f1_res_pair", (a: Result<(i32, i32), String>));
    reg_f!(e, tab, "f:i32;pair(i32,i32)", "f2_i32_pair", (a: i32, b: (i32, i32)));
    reg_m!(e, tab, "m:rec;pair(i32,i32)", "m2_pair", (a: (i32, i32)));
    reg_f!(e, tab, "f:i32;string", "f2_i32_string", (a: i32, b: String));
    reg_f!(e, tab, "f:u8;i64", "f2_u8_i64", (a: u8, b: i64));
    reg_f!(e, tab, "f:string;bool", "f2_string_bool", (a: String, b: bool));
    reg_f!(e, tab, "f:opt(i32);vec(u8)", "f2_opt_vec", (a: Option<i32>, b: Vec<u8>));
    reg_f!(e, tab, "f:usize;u64", "f2_usize_u64", (a: usize, b: u64));
    reg_f!(e, tab, "f:i32;string;bool", "f3_a", (a: i32, b: String, c: bool));
    reg_f!(e, tab, "f:u8;u16;u32", "f3_b", (a: u8, b: u16, c: u32));
    reg_f!(e, tab, "f:i64;opt(i32);char", "f3_c", (a: i64, b: Option<i32>, c: char));
    reg_m!(e, tab, "m:rec", "m1", ());
    reg_mm!(e, tab, "mm:rec", "mm1", ());
    reg_m!(e, tab, "m:rec;i32", "m2", (a: i32));
    reg_mm!(e, tab, "mm:rec;u8", "mm2", (a: u8));
    reg_m!(e, tab, "m:rec;i32;string", "m3", (a: i32, b: String));
    reg_mm!(e, tab, "mm:rec;string;i64", "mm3", (a: String, b: i64));
    // every arity of the positional wrapper (index tables of impl_register_fn!)
    reg_f!(e, tab, "f:isize;isize", "a2", (a: isize, b: isize));
    reg_f!(e, tab, "f:isize;isize;isize", "a3", (a: isize, b: isize, c: isize));
    reg_f!(e, tab, "f:isize;isize;isize;isize", "a4", (a: isize, b: isize, c: isize, d: isize));
    reg_f!(e, tab, "f:isize;isize;isize;isize;isize", "a5", (a: isize, b: isize, c: isize, d: isize, e5: isize));
    reg_f!(e, tab, "f:isize;isize;isize;isize;isize;isize", "a6", (a: isize, b: isize, c: isize, d: isize, e5: isize, f: isize));
    reg_f!(e, tab, "f:isize;isize;isize;isize;isize;isize;isize", "a7", (a: isize, b: isize, c: isize, d: isize, e5: isize, f: isize, g: isize));
    reg_f!(e, tab, "f:isize;isize;isize;isize;isize;isize;isize;isize", "a8", (a: isize, b: isize, c: isize, d: isize, e5: isize, f: isize, g: isize, h: isize));
    reg_f!(e, tab, "f:isize;isize;isize;isize;isize;isize;isize;isize;isize", "a9", (a: isize, b: isize, c: isize, d: isize, e5: isize, f: isize, g: isize, h: isize, i: isize));
    reg_f!(e, tab, "f:isize;isize;isize;isize;isize;isize;isize;isize;isize;isize", "a10", (a: isize, b: isize, c: isize, d: isize, e5: isize, f: isize, g: isize, h: isize, i: isize, j: isize));
    reg_f!(e, tab, "f:isize;isize;isize;isize;isize;isize;isize;isize;isize;isize;isize", "a11", (a: isize, b: isize, c: isize, d: isize, e5: isize, f: isize, g: isize, h: isize, i: isize, j: isize, k: isize));
    reg_f!(e, tab, "f:isize;isize;isize;isize;isize;isize;isize;isize;isize;isize;isize;isize", "a12", (a: isize, b: isize, c: isize, d: isize, e5: isize, f: isize, g: isize, h: isize, i: isize, j: isize, k: isize, l: isize));
    reg_f!(e, tab, "f:isize;isize;isize;isize;isize;isize;isize;isize;isize;isize;isize;isize;isize", "a13", (a: isize, b: isize, c: isize, d: isize, e5: isize, f: isize, g: isize, h: isize, i: isize, j: isize, k: isize, l: isize, m: isize));
    reg_f!(e, tab, "f:isize;isize;isize;isize;isize;isize;isize;isize;isize;isize;isize;isize;isize;isize", "a14", (a: isize, b: isize, c: isize, d: isize, e5: isize, f: isize, g: isize, h: isize, i: isize, j: isize, k: isize, l: isize, m: isize, n: isize));
    reg_f!(e, tab, "f:isize;isize;isize;isize;isize;isize;isize;isize;isize;isize;isize;isize;isize;isize;isize", "a15", (a: isize, b: isize, c: isize, d: isize, e5: isize, f: isize, g: isize, h: isize, i: isize, j: isize, k: isize, l: isize, m: isize, n: isize, o: isize));
    reg_f!(e, tab, "f:isize;isize;isize;isize;isize;isize;isize;isize;isize;isize;isize;isize;isize;isize;isize;isize", "a16", (a: isize, b: isize, c: isize, d: isize, e5: isize, f: isize, g: isize, h: isize, i: isize, j: isize, k: isize, l: isize, m: isize, n: isize, o: isize, p: isize));
    reg_m!(e, tab, "m:rec;isize;isize;isize;isize;isize;isize;isize;isize;isize;isize;isize;isize;isize;isize;isize", "ma16", (b: isize, c: isize, d: isize, e5: isize, f: isize, g: isize, h: isize, i: isize, j: isize, k: isize, l: isize, m: isize, n: isize, o: isize, p: isize));
    reg_m!(e, tab, "m:rec;isize;isize;isize;isize;isize;isize;isize;isize;isize;isize;isize;isize;isize;isize", "ma15", (b: isize, c: isize, d: isize, e5: isize, f: isize, g: isize, h: isize, i: isize, j: isize, k: isize, l: isize, m: isize, n: isize, o: isize));
    // borrowed references
    e.register_fn("node-get", Node::get);
    e.register_fn("node-get-ro", Node::get_ro);
    e.register_fn("node-slow-get", Node::slow_get);
    e.register_fn("c20-wait-entered", || -> bool {
        let t0 = std::time::Instant::now();
        while !ENTERED.load(std::sync::atomic::Ordering::SeqCst) && t0.elapsed().as_secs() < 5 {
            std::thread::sleep(std::time::Duration::from_millis(1));
        }
        ENTERED.load(std::sync::atomic::Ordering::SeqCst)
    });
    e.register_fn("node-set!", Node::set);
    RegisterFn::<_, MarkerWrapper7<(Node, Node, Node, Node)>, Node>::register_fn(&mut e, "node-child", Node::child);
    RegisterFn::<_, MarkerWrapper8<(Node, Node, Node, Node)>, Node>::register_fn(&mut e, "node-child-ro", Node::child_ro);
    RegisterFn::<_, MarkerWrapper6<(Node, isize, isize)>, String>::register_fn(&mut e, "node-sum-eng", Node::sum);
    let mut m = BuiltInModule::new("c20/mod");
    RegisterFn::<_, MarkerWrapper6<(Node, isize, isize)>, String>::register_fn(&mut m, "node-sum-mod", Node::sum);
    m.register_fn("Rec2", |a: i32, name: String, tags: Vec<u8>, opt: Option<bool>| Rec2 { a, name, tags, opt });
    m.register_fn("Rec2-a", |value: &Rec2| value.a.clone().into_steelval());
    m.register_fn("Rec2-name", |value: &Rec2| value.name.clone().into_steelval());
    m.register_fn("Rec2-tags", |value: &Rec2| value.tags.clone().into_steelval());
    m.register_fn("Rec2-opt", |value: &Rec2| value.opt.clone().into_steelval());
    derived::register(&mut m);
    e.register_module(m);
    e.run("(require-builtin c20/mod)").unwrap();
    e.run("(struct Holder (item))").unwrap();
    e
}

// ------------------------------------------------------------------------------------------------
fn conv_into<T: HV + IntoSteelVal>(rest: &str) -> String {
    let mut p = P::new(rest);
    match T::parse(&mut p) {
        Err(PErr::Range) => "bad range".into(),
        Err(PErr::Syntax) => "bad parse".into(),
        Ok(_) if !p.done() => "bad parse".into(),
        Ok(x) => match x.into_steelval() {
            Ok(v) => format!("ok {}", show_sv(&v)),
            Err(e) => err_class(&e),
        },
    }
}
fn conv_intofrom<T: HV + Into<SteelVal>>(rest: &str) -> String {
    let mut p = P::new(rest);
    match T::parse(&mut p) {
        Err(PErr::Range) => "bad range".into(),
        Err(PErr::Syntax) => "bad parse".into(),
        Ok(_) if !p.done() => "bad parse".into(),
        Ok(x) => format!("ok {}", show_sv(&x.into())),
    }
}
fn conv_from<T: HV + FromSteelVal>(v: &SteelVal) -> String {
    match T::from_steelval(v) {
        Ok(x) => format!("ok {}", x.show()),
        Err(e) => err_class(&e),
    }
}
fn conv_rt<T: HV + IntoSteelVal + FromSteelVal>(rest: &str) -> String {
    let mut p = P::new(rest);
    match T::parse(&mut p) {
        Err(PErr::Range) => "bad range".into(),
        Err(PErr::Syntax) => "bad parse".into(),
        Ok(_) if !p.done() => "bad parse".into(),
        Ok(x) => match x.into_steelval() {
            Ok(v) => conv_from::<T>(&v),
            Err(e) => err_class(&e),
        },
    }
}

macro_rules! both_types {
    ($m:ident, $ty:expr, $($arg:expr),*) => {
        match $ty {
            "i8" => $m::<i8>($($arg),*), "i16" => $m::<i16>($($arg),*), "i32" => $m::<i32>($($arg),*),
            "i64" => $m::<i64>($($arg),*), "isize" => $m::<isize>($($arg),*),
            "u8" => $m::<u8>($($arg),*), "u16" => $m::<u16>($($arg),*), "u32" => $m::<u32>($($arg),*),
            "u64" => $m::<u64>($($arg),*), "usize" => $m::<usize>($($arg),*),
            "bool" => $m::<bool>($($arg),*), "char" => $m::<char>($($arg),*), "string" => $m::<String>($($arg),*),
            "unit" => $m::<()>($($arg),*), "f64" => $m::<f64>($($arg),*), "rec" => $m::<Rec>($($arg),*),
            "f32" => $m::<f32>($($arg),*), "vec(f32)" => $m::<Vec<f32>>($($arg),*), "opt(f32)" => $m::<Option<f32>>($($arg),*),
            "pair(f32,f64)" => $m::<(f32, f64)>($($arg),*),
            "opt(i32)" => $m::<Option<i32>>($($arg),*), "opt(u64)" => $m::<Option<u64>>($($arg),*),
            "opt(bool)" => $m::<Option<bool>>($($arg),*), "opt(string)" => $m::<Option<String>>($($arg),*),
            "opt(unit)" => $m::<Option<()>>($($arg),*), "opt(opt(i32))" => $m::<Option<Option<i32>>>($($arg),*),
            "opt(vec(i32))" => $m::<Option<Vec<i32>>>($($arg),*),
            "vec(i32)" => $m::<Vec<i32>>($($arg),*), "vec(u8)" => $m::<Vec<u8>>($($arg),*),
            "vec(usize)" => $m::<Vec<usize>>($($arg),*),
            "vec(string)" => $m::<Vec<String>>($($arg),*), "vec(bool)" => $m::<Vec<bool>>($($arg),*),
            "vec(vec(i16))" => $m::<Vec<Vec<i16>>>($($arg),*), "vec(opt(i32))" => $m::<Vec<Option<i32>>>($($arg),*),
            "vec(opt(bool))" => $m::<Vec<Option<bool>>>($($arg),*),
            "pair(i32,string)" => $m::<(i32, String)>($($arg),*), "pair(u8,bool)" => $m::<(u8, bool)>($($arg),*),
            "pair(i32,i32)" => $m::<(i32, i32)>($($arg),*),
            "vec(pair(i32,i32))" => $m::<Vec<(i32, i32)>>($($arg),*),
            "opt(pair(i32,i32))" => $m::<Option<(i32, i32)>>($($arg),*),
            "map(string,pair(i32,i32))" => $m::<HashMap<String, (i32, i32)>>($($arg),*),
            "res(pair(i32,i32),string)" => $m::<Result<(i32, i32), String>>($($arg),*),
            "pair(pair(i32,i32),vec(u8))" => $m::<((i32, i32), Vec<u8>)>($($arg),*),
            "pair(vec(i32),opt(u8))" => $m::<(Vec<i32>, Option<u8>)>($($arg),*),
            "map(string,i32)" => $m::<HashMap<String, i32>>($($arg),*),
            "map(i32,vec(u8))" => $m::<HashMap<i32, Vec<u8>>>($($arg),*),
            "map(u64,opt(bool))" => $m::<HashMap<u64, Option<bool>>>($($arg),*),
            "set(i32)" => $m::<HashSet<i32>>($($arg),*), "set(string)" => $m::<HashSet<String>>($($arg),*),
            "set(u64)" => $m::<HashSet<u64>>($($arg),*),
            "res(i32,string)" => $m::<Result<i32, String>>($($arg),*),
            "res(vec(u8),i64)" => $m::<Result<Vec<u8>, i64>>($($arg),*),
            _ => "unsupported".to_string(),
        }
    };
}

struct Copy_ {
    place: String,
}
struct St {
    tab: HashMap<String, String>,
    nhandles: usize,
    nobjs: usize,
    copies: HashMap<(usize, usize), Copy_>,
    next_copy: HashMap<usize, usize>,
    depth_of: HashMap<usize, usize>,
}

fn eval_sv(engine: &mut Engine, src: &str) -> Result<SteelVal, String> {
    match engine.run(src.to_string()) {
        Ok(mut v) => v.pop().ok_or_else(|| "bad no-value".to_string()),
        Err(e) => Err(format!("bad build:{}", err_class(&e))),
    }
}

fn cname(h: usize, c: usize) -> String {
    format!("C{}_{}", h, c)
}
fn wrap(place: &str, e: &str) -> Option<String> {
    Some(match place {
        "global" => e.to_string(),
        "closure" => format!("(let ((x {})) (lambda () x))", e),
        "list" => format!("(list 0 {})", e),
        "vector" => format!("(immutable-vector {})", e),
        "mvector" => format!("(vector 0 {})", e),
        "hashmap" => format!("(hash 'k {})", e),
        "box" => format!("(box {})", e),
        "struct" => format!("(Holder {})", e),
        // more duplication paths of the VM: nested persistent containers, a promise, a parameter object, a hash set
        // element, a value that travelled through another thread (captured by the thread's closure, returned, joined)
        "nested" => format!("(list (immutable-vector (hash 'k (list {}))))", e),
        // `delay` does not evaluate (and `force` does not memoise): bind the value first so that the promise holds IT
        "promise" => format!("(let ((x {})) (delay x))", e),
        "param" => format!("(make-parameter {})", e),
        "hashset" => format!("(hashset {})", e),
        "thread" => format!("(thread-join! (spawn-native-thread (lambda () {})))", e),
        "restargs" => format!("(apply (lambda xs xs) (list 0 {}))", e),
        _ => return None,
    })
}
fn unwrap_(place: &str, e: &str) -> String {
    match place {
        "closure" => format!("({})", e),
        "list" => format!("(cadr {})", e),
        "vector" => format!("(vector-ref {} 0)", e),
        "mvector" => format!("(vector-ref {} 1)", e),
        "hashmap" => format!("(hash-ref {} 'k)", e),
        "box" => format!("(unbox {})", e),
        "struct" => format!("(Holder-item {})", e),
        "nested" => format!("(car (hash-ref (vector-ref (car {}) 0) 'k))", e),
        "promise" => format!("(force {})", e),
        "param" => format!("({})", e),
        "hashset" => format!("(car (hashset->list {}))", e),
        "restargs" => format!("(cadr {})", e),
        // a local variable of a frame captured by a continuation: re-enter the frame, which hands the value back
        "cont" => format!("(call/cc (lambda (ret) ({} ret)))", e),
        _ => e.to_string(),
    }
}

fn run_class(engine: &mut Engine, src: String) -> Result<SteelVal, String> {
    match engine.run(src) {
        Ok(mut v) => Ok(v.pop().unwrap_or(SteelVal::Void)),
        Err(e) => Err(err_class(&e)),
    }
}

/// processes lines until EOF (returns false) or an `end` line at lending depth > 0 (returns true)
fn process(st: &mut St, engine: &mut Engine, lines: &mut dyn Iterator<Item = String>, out: &mut dyn Write, depth: usize) -> bool {
    while let Some(line) = lines.next() {
        let line = line.trim().to_string();
        if line.is_empty() || line.starts_with('#') {
            continue;
        }
        let toks: Vec<&str> = line.split_whitespace().collect();
        if toks[0] == "end" {
            if depth == 0 {
                writeln!(out, "bad no-call").unwrap();
                continue;
            }
            return true;
        }
        if toks[0] == "lend" {
            do_lend(st, engine, &toks[1..], lines, out, depth);
            continue;
        }
        let res = catch_unwind(AssertUnwindSafe(|| one(st, engine, &toks, depth)));
        match res {
            Ok(s) => writeln!(out, "{}", s).unwrap(),
            Err(p) => {
                let m = p.downcast_ref::<String>().cloned().or_else(|| p.downcast_ref::<&str>().map(|s| s.to_string())).unwrap_or_default();
                writeln!(out, "panic {}", m.lines().next().unwrap_or("")).unwrap()
            }
        }
        out.flush().unwrap();
    }
    false
}

fn do_lend(st: &mut St, engine: &mut Engine, kinds: &[&str], lines: &mut dyn Iterator<Item = String>, out: &mut dyn Write, depth: usize) {
    if kinds.is_empty() || kinds.len() > 3 || kinds.iter().any(|k| *k != "rw" && *k != "ro") {
        writeln!(out, "bad parse").unwrap();
        return;
    }
    let mut objs: Vec<Box<Node>> = kinds.iter().map(|_| {
        let o = Node::chain(st.nobjs, 8);
        st.nobjs += 1;
        o
    }).collect();
    let first_h = st.nhandles;
    st.nhandles += kinds.len();
    let ended;
    {
        let mut it = objs.iter_mut().zip(kinds.iter());
        let (o0, k0) = it.next().unwrap();
        let mut guard = if *k0 == "rw" {
            engine.with_mut_reference::<Node, Node>(&mut **o0)
        } else {
            engine.with_immutable_reference::<Node, Node>(&**o0)
        };
        for (o, k) in it {
            guard = if *k == "rw" {
                guard.with_mut_reference::<Node, Node>(&mut **o)
            } else {
                guard.with_immutable_reference::<Node, Node>(&**o)
            };
        }
        ended = guard.consume_once(|engine, args| {
            let mut names = Vec::new();
            for (i, a) in args.into_iter().enumerate() {
                let h = first_h + i;
                engine.register_value(&cname(h, 0), a);
                names.push(format!("h{}", h));
                st.copies.insert((h, 0), Copy_ { place: "global".into() });
                st.next_copy.insert(h, 1);
                st.depth_of.insert(h, 0);
            }
            writeln!(out, "ok {}", names.join(" ")).unwrap();
            process(st, engine, lines, out, depth + 1)
        });
    }
    // the lending call has returned: the host owns its objects again and changes them
    for o in objs.iter_mut() {
        o.poison();
    }
    // keep the memory alive so that a use after the call is observable without undefined behaviour
    std::mem::forget(objs);
    if ended {
        writeln!(out, "ok").unwrap();
    }
    out.flush().unwrap();
}

fn one(st: &mut St, engine: &mut Engine, toks: &[&str], depth: usize) -> String {
    let op = toks[0];
    match op {
        "reset" => {
            if depth > 0 {
                return "bad in-call".into();
            }
            *engine = new_engine(&mut st.tab);
            st.nhandles = 0;
            st.nobjs = 0;
            st.copies.clear();
            st.next_copy.clear();
            st.depth_of.clear();
            "reset".into()
        }
        "into" | "roundtrip" | "intofrom" => {
            if toks.len() != 3 {
                return "bad parse".into();
            }
            let (ty, rest) = (toks[1], toks[2]);
            if op == "into" {
                if ty == "u128" {
                    return conv_into::<u128>(rest);
                }
                both_types!(conv_into, ty, rest)
            } else if op == "roundtrip" {
                both_types!(conv_rt, ty, rest)
            } else {
                match ty {
                    "opt(i32)" => conv_intofrom::<Option<i32>>(rest),
                    "opt(bool)" => conv_intofrom::<Option<bool>>(rest),
                    "opt(string)" => conv_intofrom::<Option<String>>(rest),
                    "opt(u64)" => conv_intofrom::<Option<u64>>(rest),
                    "i32" => conv_intofrom::<i32>(rest),
                    "u64" => conv_intofrom::<u64>(rest),
                    "usize" => conv_intofrom::<usize>(rest),
                    "u128" => conv_intofrom::<u128>(rest),
                    "i64" => conv_intofrom::<i64>(rest),
                    _ => "unsupported".into(),
                }
            }
        }
        "from" | "fromsrc" => {
            let (ty, src) = if op == "from" {
                if toks.len() != 3 {
                    return "bad parse".into();
                }
                let mut p = P::new(toks[2]);
                match sv_source(&mut p) {
                    Some(s) if p.done() => (toks[1], s),
                    _ => return "bad parse".into(),
                }
            } else {
                if toks.len() < 4 {
                    return "bad parse".into();
                }
                (toks[1], toks[3..].join(" "))
            };
            let v = match eval_sv(engine, &src) {
                Ok(v) => v,
                Err(e) => return e,
            };
            both_types!(conv_from, ty, &v)
        }
        "call" => {
            if toks.len() < 2 {
                return "bad parse".into();
            }
            let fname = match st.tab.get(toks[1]) {
                Some(f) => f.clone(),
                None => return "unsupported".into(),
            };
            let mut srcs = Vec::new();
            for t in &toks[2..] {
                let mut p = P::new(t);
                match sv_source(&mut p) {
                    Some(s) if p.done() => srcs.push(s),
                    _ => return "bad parse".into(),
                }
            }
            RECV.with(|r| *r.borrow_mut() = None);
            let src = format!("({} {})", fname, srcs.join(" "));
            let r = engine.run(src);
            let recv = RECV.with(|r| r.borrow_mut().take());
            match r {
                Ok(mut v) => {
                    let v = v.pop().unwrap_or(SteelVal::Void);
                    let ret = match &v {
                        SteelVal::StringV(s) => s.as_str().to_string(),
                        o => format!("?{}", show_sv(o)),
                    };
                    match recv {
                        Some(rv) if rv == ret => format!("ok recv={}", rv),
                        Some(rv) => format!("ok recv={} ret={}", rv, ret),
                        None => format!("ok called=no ret={}", ret),
                    }
                }
                Err(e) => format!("{} called={}", err_class(&e), if recv.is_some() { "yes" } else { "no" }),
            }
        }
        "mkstruct" => {
            // mkstruct <sval>*: `(Rec2 a ..)` then every getter on the result
            let mut srcs = Vec::new();
            for t in &toks[1..] {
                let mut p = P::new(t);
                match sv_source(&mut p) {
                    Some(s) if p.done() => srcs.push(s),
                    _ => return "bad parse".into(),
                }
            }
            let src = format!(
                "(let ((s (Rec2 {}))) (list (Rec2-a s) (Rec2-name s) (Rec2-tags s) (Rec2-opt s)))",
                srcs.join(" ")
            );
            match run_class(engine, src) {
                Ok(v) => format!("ok {}", show_sv(&v)),
                Err(e) => e,
            }
        }
        "dstruct" if toks.len() >= 2 && toks[1].len() == 5 && matches!(&toks[1][..1], "T" | "N" | "V" | "W") => {
            // dstruct <T|N|V|W><mask> <sval>*: constructor generated by #[derive(Steel)], then every accessor name a
            // script could try for the four declared positions -> ok 0=<sval|none|err:..>;1=..;2=..;3=..
            let ty = toks[1];
            let (kind, mask) = (&ty[..1], &ty[1..]);
            if !mask.chars().all(|c| c == '0' || c == '1') {
                return "bad parse".into();
            }
            let base = match kind {
                "V" => format!("EV-{}", ty),
                "W" => format!("EW-{}", ty),
                _ => ty.to_string(),
            };
            let mut srcs = Vec::new();
            for t in &toks[2..] {
                let mut p = P::new(t);
                match sv_source(&mut p) {
                    Some(s) if p.done() => srcs.push(s),
                    _ => return "bad parse".into(),
                }
            }
            if let Err(e) = run_class(engine, format!("(define DV ({} {}))", base, srcs.join(" "))) {
                return e;
            }
            let mut parts = Vec::new();
            for k in 0..4 {
                let acc = if kind == "T" || kind == "V" { format!("{}-{}", base, k) } else { format!("{}-{}", base, ["a", "b", "c", "d"][k]) };
                parts.push(match run_class(engine, format!("({} DV)", acc)) {
                    Ok(v) => format!("{}={}", k, show_sv(&v)),
                    Err(e) if e == "err:free-id" => format!("{}=none", k),
                    Err(e) => format!("{}={}", k, e),
                });
            }
            format!("ok {}", parts.join(";"))
        }
        "threaduse" => {
            // threaduse <h> <c>: another thread starts a slow host call on the handle (inside the call)
            if toks.len() != 3 {
                return "bad parse".into();
            }
            let (h, c) = match (toks[1].trim_start_matches('h').parse::<usize>(), toks[2].trim_start_matches('c').parse::<usize>()) {
                (Ok(h), Ok(c)) => (h, c),
                _ => return "bad parse".into(),
            };
            let from = match st.copies.get(&(h, c)) {
                Some(cp) => unwrap_(&cp.place, &cname(h, c)),
                None => return "bad no-copy".into(),
            };
            ENTERED.store(false, std::sync::atomic::Ordering::SeqCst);
            RELEASE.store(false, std::sync::atomic::Ordering::SeqCst);
            match run_class(engine, format!("(define THR (spawn-native-thread (lambda () (node-slow-get {})))) (c20-wait-entered)", from)) {
                Ok(v) => format!("ok entered={}", show_sv(&v)),
                Err(e) => e,
            }
        }
        "threadjoin" => {
            RELEASE.store(true, std::sync::atomic::Ordering::SeqCst);
            match run_class(engine, "(thread-join! THR)".to_string()) {
                Ok(v) => format!("ok {}", show_sv(&v)),
                Err(e) => e,
            }
        }
        "slice" => {
            // slice <eng|mod> <h> <c> <sval>*: `(node-sum-<v> REF a1 ..)`, a host function `Fn(&mut SELF, &[isize], isize)`
            if toks.len() < 4 || (toks[1] != "eng" && toks[1] != "mod") {
                return "bad parse".into();
            }
            let (h, c) = match (toks[2].trim_start_matches('h').parse::<usize>(), toks[3].trim_start_matches('c').parse::<usize>()) {
                (Ok(h), Ok(c)) => (h, c),
                _ => return "bad parse".into(),
            };
            let from = match st.copies.get(&(h, c)) {
                Some(cp) => unwrap_(&cp.place, &cname(h, c)),
                None => return "bad no-copy".into(),
            };
            let mut srcs = Vec::new();
            for t in &toks[4..] {
                let mut p = P::new(t);
                match sv_source(&mut p) {
                    Some(s) if p.done() => srcs.push(s),
                    _ => return "bad parse".into(),
                }
            }
            RECV.with(|r| *r.borrow_mut() = None);
            let r = engine.run(format!("(node-sum-{} {} {})", toks[1], from, srcs.join(" ")));
            let recv = RECV.with(|r| r.borrow_mut().take());
            match r {
                Ok(_) => match recv {
                    Some(rv) => format!("ok recv={}", rv),
                    None => "ok called=no".into(),
                },
                Err(e) => format!("{} called={}", err_class(&e), if recv.is_some() { "yes" } else { "no" }),
            }
        }
        "copy" => {
            // copy <h> <c> <place>
            if toks.len() != 4 {
                return "bad parse".into();
            }
            let (h, c) = match (toks[1].trim_start_matches('h').parse::<usize>(), toks[2].trim_start_matches('c').parse::<usize>()) {
                (Ok(h), Ok(c)) => (h, c),
                _ => return "bad parse".into(),
            };
            let from = match st.copies.get(&(h, c)) {
                Some(cp) => unwrap_(&cp.place, &cname(h, c)),
                None => return "bad no-copy".into(),
            };
            let k = *st.next_copy.get(&h).unwrap();
            let src = if toks[3] == "cont" {
                // the copy is the local `r` of a frame of `hold` that the continuation stored in C<h>_<k> captured
                format!(
                    "(define {n} #f) (define ({n}-hold r) (let ((f (call/cc (lambda (k) (set! {n} k) #f)))) (if f (f r) #f))) ({n}-hold {from})",
                    n = cname(h, k),
                    from = from
                )
            } else {
                match wrap(toks[3], &from) {
                    Some(w) => format!("(define {} {})", cname(h, k), w),
                    None => return "bad place".into(),
                }
            };
            match run_class(engine, src) {
                Ok(_) => {
                    st.next_copy.insert(h, k + 1);
                    st.copies.insert((h, k), Copy_ { place: toks[3].to_string() });
                    format!("ok c{}", k)
                }
                Err(e) => e,
            }
        }
        "drop" => {
            if toks.len() != 3 {
                return "bad parse".into();
            }
            let (h, c) = match (toks[1].trim_start_matches('h').parse::<usize>(), toks[2].trim_start_matches('c').parse::<usize>()) {
                (Ok(h), Ok(c)) => (h, c),
                _ => return "bad parse".into(),
            };
            // boxes, mutable vectors and parameter objects live on the collected heap: a handle stored there goes away when
            // the collector reuses the slot, not when the script lets go of it.  Such a copy cannot be
            // dropped at a definite point, so the protocol does not allow it.
            match st.copies.get(&(h, c)) {
                Some(cp) if cp.place == "box" || cp.place == "mvector" || cp.place == "param" => return "bad sticky".into(),
                Some(_) => {}
                None => return "bad no-copy".into(),
            }
            st.copies.remove(&(h, c));
            match run_class(engine, format!("(set! {} #f)", cname(h, c))) {
                Ok(_) => "ok".into(),
                Err(e) => e,
            }
        }
        "get" | "getro" | "set" | "derive" => {
            if toks.len() < 3 {
                return "bad parse".into();
            }
            let (h, c) = match (toks[1].trim_start_matches('h').parse::<usize>(), toks[2].trim_start_matches('c').parse::<usize>()) {
                (Ok(h), Ok(c)) => (h, c),
                _ => return "bad parse".into(),
            };
            let from = match st.copies.get(&(h, c)) {
                Some(cp) => unwrap_(&cp.place, &cname(h, c)),
                None => return "bad no-copy".into(),
            };
            match op {
                "get" | "getro" => {
                    let f = if op == "get" { "node-get" } else { "node-get-ro" };
                    match run_class(engine, format!("({} {})", f, from)) {
                        Ok(v) => format!("ok {}", show_sv(&v).trim_start_matches("int:")),
                        Err(e) => e,
                    }
                }
                "set" => {
                    if toks.len() != 4 {
                        return "bad parse".into();
                    }
                    match run_class(engine, format!("(node-set! {} {})", from, toks[3])) {
                        Ok(_) => "ok".into(),
                        Err(e) => e,
                    }
                }
                _ => {
                    if toks.len() != 4 || (toks[3] != "rw" && toks[3] != "ro") {
                        return "bad parse".into();
                    }
                    let d = *st.depth_of.get(&h).unwrap();
                    if d + 1 >= 8 {
                        return "bad depth".into();
                    }
                    let f = if toks[3] == "rw" { "node-child" } else { "node-child-ro" };
                    let nh = st.nhandles;
                    match run_class(engine, format!("(define {} ({} {}))", cname(nh, 0), f, from)) {
                        Ok(_) => {
                            st.nhandles += 1;
                            st.copies.insert((nh, 0), Copy_ { place: "global".into() });
                            st.next_copy.insert(nh, 1);
                            st.depth_of.insert(nh, d + 1);
                            format!("ok h{}", nh)
                        }
                        Err(e) => e,
                    }
                }
            }
        }
        _ => "bad op".into(),
    }
}

fn main() {
    std::panic::set_hook(Box::new(|_| {}));
    let mut tab = HashMap::new();
    let mut engine = new_engine(&mut tab);
    let mut st = St {
        tab,
        nhandles: 0,
        nobjs: 0,
        copies: HashMap::new(),
        next_copy: HashMap::new(),
        depth_of: HashMap::new(),
    };
    let stdin = std::io::stdin();
    let mut lines = stdin.lock().lines().map(|l| l.unwrap_or_default());
    let stdout = std::io::stdout();
    let mut out = stdout.lock();
    process(&mut st, &mut engine, &mut lines, &mut out, 0);
}
