//! C18 harness: one case (a program that builds a deep / wide / cyclic value and applies one operation to it)
//! per process, on the real engine.
//!
//!   c18 main            run on the process's main thread (stack = RLIMIT_STACK of the child, 8 MiB by default)
//!   c18 thread:<bytes>  run on a spawned thread with a native stack of <bytes> bytes
//!
//! stdin: pieces separated by a line that is exactly `;;;---`.  A piece is Steel source (evaluated on the one
//! engine of the process), or a host directive (first line):
//!   ;;;host-display NAME     Display (`{}`) of the global NAME, as an embedding host prints a result
//!   ;;;host-debug NAME       Debug (`{:?}`) of the global NAME
//!   ;;;host-string NAME      the global NAME is a string: report it like a display result
//!   ;;;host-hash NAME        `Hash for SteelVal` with the std hasher
//!   ;;;host-eq A B           `PartialEq for SteelVal` (`a == b`)
//!   ;;;host-take NAME        the host takes a reference to the value of NAME (kept in a Rust vector)
//!   ;;;host-release          the host drops everything it took (drop runs outside the VM)
//! stdout, one line per piece, flushed:
//!   `=> ok` | `=> err <first line>` | `=> panic <message>` for source pieces (values are NOT printed: they may
//!   be huge; the script prints what it wants to report with `displayln`),
//!   `=> text <bytes> <fnv1a-64 hex> <first 48 bytes>|<last 48 bytes>` for display/debug/string,
//!   `=> hash ok`, `=> eq <bool>`, `=> taken`, `=> released`.
//! The last line is `=== end` — its absence means the process died (the exit status says how).
//!
//!   c18 batch <main|thread:N> <seconds>   many programs (separated by `;;;===`) in one process, see `batch` below
use std::hash::{Hash, Hasher};
use std::io::{Read, Write};
use std::panic::{catch_unwind, AssertUnwindSafe};

use steel::steel_vm::engine::Engine;
use steel::SteelVal;

fn fnv(s: &[u8]) -> u64 {
    let mut h: u64 = 0xcbf29ce484222325;
    for b in s {
        h ^= *b as u64;
        h = h.wrapping_mul(0x100000001b3);
    }
    h
}

fn clip(s: &str) -> String {
    s.chars().map(|c| if c == '\n' { '\u{21b5}' } else { c }).collect()
}

fn text_line(s: &str) -> String {
    let b = s.as_bytes();
    let head: String = s.chars().take(48).collect();
    let tail: String = {
        let v: Vec<char> = s.chars().rev().take(48).collect();
        v.into_iter().rev().collect()
    };
    format!("=> text {} {:016x} {}|{}", b.len(), fnv(b), clip(&head), clip(&tail))
}

fn panic_msg(p: Box<dyn std::any::Any + Send>) -> String {
    let msg = if let Some(s) = p.downcast_ref::<String>() {
        s.clone()
    } else if let Some(s) = p.downcast_ref::<&str>() {
        s.to_string()
    } else {
        "?".to_string()
    };
    msg.lines().next().unwrap_or("").chars().take(200).collect()
}

fn say(s: &str) {
    let out = std::io::stdout();
    let mut o = out.lock();
    writeln!(o, "{}", s).ok();
    o.flush().ok();
}

fn host<F: FnOnce() -> String>(f: F) {
    match catch_unwind(AssertUnwindSafe(f)) {
        Ok(s) => say(&s),
        Err(p) => say(&format!("=> panic {}", panic_msg(p))),
    }
}

fn run_all(src: String) {
    let mut engine = Engine::new();
    let mut held: Vec<SteelVal> = Vec::new();
    for piece in src.split("\n;;;---\n") {
        let first = piece.lines().next().unwrap_or("").trim().to_string();
        let get = |engine: &Engine, name: &str| -> Result<SteelVal, String> {
            engine.extract_value(name.trim()).map_err(|e| format!("=> err {}", format!("{}", e).lines().next().unwrap_or("")))
        };
        if let Some(name) = first.strip_prefix(";;;host-display ") {
            host(|| match get(&engine, name) {
                Ok(v) => text_line(&format!("{}", v)),
                Err(e) => e,
            });
        } else if let Some(name) = first.strip_prefix(";;;host-debug ") {
            host(|| match get(&engine, name) {
                Ok(v) => text_line(&format!("{:?}", v)),
                Err(e) => e,
            });
        } else if let Some(name) = first.strip_prefix(";;;host-string ") {
            host(|| match get(&engine, name) {
                Ok(SteelVal::StringV(s)) => text_line(s.as_str()),
                Ok(_) => "=> err not a string".to_string(),
                Err(e) => e,
            });
        } else if let Some(name) = first.strip_prefix(";;;host-hash ") {
            host(|| match get(&engine, name) {
                Ok(v) => {
                    let mut h = std::collections::hash_map::DefaultHasher::new();
                    v.hash(&mut h);
                    let _ = h.finish();
                    "=> hash ok".to_string()
                }
                Err(e) => e,
            });
        } else if let Some(names) = first.strip_prefix(";;;host-eq ") {
            host(|| {
                let mut it = names.split_whitespace();
                let a = it.next().unwrap_or("");
                let b = it.next().unwrap_or("");
                match (get(&engine, a), get(&engine, b)) {
                    (Ok(x), Ok(y)) => format!("=> eq {}", x == y),
                    (Err(e), _) | (_, Err(e)) => e,
                }
            });
        } else if let Some(name) = first.strip_prefix(";;;host-take ") {
            match get(&engine, name) {
                Ok(v) => {
                    held.push(v);
                    say("=> taken")
                }
                Err(e) => say(&e),
            }
        } else if first.starts_with(";;;host-release") {
            let h = std::mem::take(&mut held);
            host(move || {
                drop(h);
                "=> released".to_string()
            });
        } else {
            let piece = piece.to_string();
            let r = catch_unwind(AssertUnwindSafe(|| engine.compile_and_run_raw_program(piece)));
            std::io::stdout().flush().ok();
            match r {
                Ok(Ok(vals)) => {
                    // the values are dropped here, not printed
                    drop(vals);
                    say("=> ok")
                }
                Ok(Err(e)) => {
                    let msg = format!("{}", e);
                    let l: String = msg.lines().next().unwrap_or("").chars().take(200).collect();
                    say(&format!("=> err {}", l))
                }
                Err(p) => say(&format!("=> panic {}", panic_msg(p))),
            }
        }
    }
    drop(held);
    say("=== pieces done");
    drop(engine);
    say("=== end");
}

fn run_on(mode: &str, src: String) {
    if let Some(bytes) = mode.strip_prefix("thread:") {
        let n: usize = bytes.parse().expect("thread:<bytes>");
        let h = std::thread::Builder::new()
            .stack_size(n)
            .spawn(move || run_all(src))
            .expect("spawn");
        if h.join().is_err() {
            say("=> panic (escaped)");
        }
    } else {
        run_all(src);
    }
}

/// `c18 batch <mode> <seconds>`: programs separated by a line `;;;===`, each on a fresh engine, framed by
/// `=== begin <k>` … `=== end` (from run_all) … `=== done <k>`.  A watchdog ends the process (exit 3, after printing
/// `=== timeout <k>`) when one program runs longer than <seconds>; the caller restarts after <k>.
fn batch(mode: String, secs: u64, src: String) {
    use std::sync::atomic::{AtomicU64, Ordering};
    use std::sync::Arc;
    let started = Arc::new(AtomicU64::new(0)); // (index + 1) << 32 | seconds since start of the batch
    let t0 = std::time::Instant::now();
    {
        let started = started.clone();
        std::thread::spawn(move || loop {
            std::thread::sleep(std::time::Duration::from_millis(100));
            let v = started.load(Ordering::SeqCst);
            if v == 0 {
                continue;
            }
            let idx = (v >> 32) - 1;
            let at = v & 0xffff_ffff;
            if t0.elapsed().as_secs() > at + secs {
                say(&format!("\n=== timeout {}", idx));
                std::process::exit(3);
            }
        });
    }
    for (k, prog) in src.split("\n;;;===\n").enumerate() {
        if prog.trim().is_empty() {
            continue;
        }
        say(&format!("=== begin {}", k));
        started.store(((k as u64 + 1) << 32) | t0.elapsed().as_secs(), Ordering::SeqCst);
        run_on(&mode, prog.to_string());
        started.store(0, Ordering::SeqCst);
        say(&format!("=== done {}", k));
    }
    say("=== batch end");
}

fn main() {
    let args: Vec<String> = std::env::args().collect();
    let mode = args.get(1).cloned().unwrap_or_else(|| "main".to_string());
    let mut src = String::new();
    std::io::stdin().read_to_string(&mut src).unwrap();
    std::panic::set_hook(Box::new(|_| {}));
    if mode == "batch" {
        let m = args.get(2).cloned().unwrap_or_else(|| "main".to_string());
        let secs: u64 = args.get(3).and_then(|s| s.parse().ok()).unwrap_or(10);
        batch(m, secs, src);
    } else {
        run_on(&mode, src);
    }
}
