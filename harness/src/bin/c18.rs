//! C18 harness: one case (a program that builds a deep / wide / cyclic value and applies one operation to it)
//! per process, on the real engine.
//!
//!   c18 main            run on the process's main thread (stack = RLIMIT_STACK of the child, 8 MiB by default)
//!   c18 thread:<bytes>  run on a spawned thread with a native stack of <bytes> bytes
//!
//! stdin: pieces separated by a line that is exactly `;;;---`.  A piece is Steel source (evaluated on the one
//! engine of the process), or a host directive (first line):
//!   ;;;host-display NAME     Display (`{}`) of the global NAME, as an embedding host prints a result
//!   ;;;host-debug NAME       Debug (`{:?}`) of the global NAME
//!   ;;;host-string NAME      the global NAME is a string: report it like a display result
//!   ;;;host-hash NAME        `Hash for SteelVal` with the std hasher
//!   ;;;host-eq A B           `PartialEq for SteelVal` (`a == b`)
//!   ;;;host-take NAME        the host takes a reference to the value of NAME (kept in a Rust vector)
//!   ;;;host-release          the host drops everything it took (drop runs outside the VM)
//! stdout, one line per piece, flushed:
//!   `=> ok` | `=> err <first line>` | `=> panic <message>` for source pieces (values are NOT printed: they may
//!   be huge; the script prints what it wants to report with `displayln`),
//!   `=> text <bytes> <fnv1a-64 hex> <first 48 bytes>|<last 48 bytes>` for display/debug/string,
//!   `=> hash ok`, `=> eq <bool>`, `=> taken`, `=> released`.
//! The last line is `=== end` — its absence means the process died (the exit status says how).
//!
//!   c18 batch <main|thread:N> <seconds>   many programs (separated by `;;;===`) in one process, see `batch` below
use std::hash::{Hash, Hasher};
use std::io::{Read, Write};
use std::panic::{catch_unwind, AssertUnwindSafe};

use steel::steel_vm::engine::Engine;
use steel::SteelVal;

fn fnv(s: &[u8]) -> u64 {
    let mut h: u64 = 0xcbf29ce484222325;
    for b in s {
        h ^= *b as u64;
        h = h.wrapping_mul(0x100000001b3);
    }
    h
}

fn clip(s: &str) -> String {
    s.chars().map(|c| if c == '\n' { '\u{21b5}' } else { c }).collect()
}

fn text_line(s: &str) -> String {
    let b = s.as_bytes();
    let head: String = s.chars().take(48).collect();
    let tail: String = {
        let v: Vec<char> = s.chars().rev().take(48).collect();
        v.into_iter().rev().collect()
    };
    format!("=> text {} {:016x} {}|{}", b.len(), fnv(b), clip(&head), clip(&tail))
}

fn panic_msg(p: Box<dyn std::any::Any + Send>) -> String {
    let msg = if let Some(s) = p.downcast_ref::<String>() {
        s.clone()
    } else if let Some(s) = p.downcast_ref::<&str>() {
        s.to_string()
    } else {
        "?".to_string()
    };
    msg.lines().next().unwrap_or("").chars().take(200).collect()
}

fn say(s: &str) {
    let out = std::io::stdout();
    let mut o = out.lock();
    writeln!(o, "{}", s).ok();
    o.flush().ok();
}

fn host<F: FnOnce() -> String>(f: F) -> bool {
    match catch_unwind(AssertUnwindSafe(f)) {
        Ok(s) => {
            say(&s);
            !s.starts_with("=> err")
        }
        Err(p) => {
            say(&format!("=> panic {}", panic_msg(p)));
            false
        }
    }
}

fn run_all(src: String) {
    let mut engine = Engine::new();
    let _ = run_pieces(&mut engine, &src);
    say("=== pieces done");
    drop(engine);
    say("=== end");
}

/// Returns false when a piece ended in an error or a panic (the engine may be left in the middle of something, e.g.
/// with the output port still redirected: it is not used for another program then).
fn run_pieces(engine_ref: &mut Engine, src: &str) -> bool {
    let engine = engine_ref;
    let mut clean = true;
    let mut held: Vec<SteelVal> = Vec::new();
    for piece in src.split("\n;;;---\n") {
        let first = piece.lines().next().unwrap_or("").trim().to_string();
        let get = |engine: &Engine, name: &str| -> Result<SteelVal, String> {
            engine.extract_value(name.trim()).map_err(|e| format!("=> err {}", format!("{}", e).lines().next().unwrap_or("")))
        };
        if let Some(name) = first.strip_prefix(";;;host-display ") {
            clean &= host(|| match get(&*engine, name) {
                Ok(v) => text_line(&format!("{}", v)),
                Err(e) => e,
            });
        } else if let Some(name) = first.strip_prefix(";;;host-debug ") {
            clean &= host(|| match get(&*engine, name) {
                Ok(v) => text_line(&format!("{:?}", v)),
                Err(e) => e,
            });
        } else if let Some(name) = first.strip_prefix(";;;host-string ") {
            clean &= host(|| match get(&*engine, name) {
                Ok(SteelVal::StringV(s)) => text_line(s.as_str()),
                Ok(_) => "=> err not a string".to_string(),
                Err(e) => e,
            });
        } else if let Some(name) = first.strip_prefix(";;;host-hash ") {
            clean &= host(|| match get(&*engine, name) {
                Ok(v) => {
                    let mut h = std::collections::hash_map::DefaultHasher::new();
                    v.hash(&mut h);
                    let _ = h.finish();
                    "=> hash ok".to_string()
                }
                Err(e) => e,
            });
        } else if let Some(names) = first.strip_prefix(";;;host-eq ") {
            clean &= host(|| {
                let mut it = names.split_whitespace();
                let a = it.next().unwrap_or("");
                let b = it.next().unwrap_or("");
                match (get(&*engine, a), get(&*engine, b)) {
                    (Ok(x), Ok(y)) => format!("=> eq {}", x == y),
                    (Err(e), _) | (_, Err(e)) => e,
                }
            });
        } else if let Some(name) = first.strip_prefix(";;;host-take ") {
            match get(&*engine, name) {
                Ok(v) => {
                    held.push(v);
                    say("=> taken")
                }
                Err(e) => say(&e),
            }
        } else if first.starts_with(";;;host-release") {
            let h = std::mem::take(&mut held);
            clean &= host(move || {
                drop(h);
                "=> released".to_string()
            });
        } else {
            let piece = piece.to_string();
            let r = catch_unwind(AssertUnwindSafe(|| engine.compile_and_run_raw_program(piece)));
            std::io::stdout().flush().ok();
            match r {
                Ok(Ok(vals)) => {
                    // the values are dropped here, not printed
                    drop(vals);
                    say("=> ok")
                }
                Ok(Err(e)) => {
                    clean = false;
                    let msg = format!("{}", e);
                    let l: String = msg.lines().next().unwrap_or("").chars().take(200).collect();
                    say(&format!("=> err {}", l))
                }
                Err(p) => {
                    clean = false;
                    say(&format!("=> panic {}", panic_msg(p)))
                }
            }
        }
    }
    drop(held);
    clean
}

fn run_on(mode: &str, src: String) {
    if let Some(bytes) = mode.strip_prefix("thread:") {
        let n: usize = bytes.parse().expect("thread:<bytes>");
        let h = std::thread::Builder::new()
            .stack_size(n)
            .spawn(move || run_all(src))
            .expect("spawn");
        if h.join().is_err() {
            say("=> panic (escaped)");
        }
    } else {
        run_all(src);
    }
}

/// `c18 batch <mode> <seconds>`: programs separated by a line `;;;===`, each on a fresh engine, framed by
/// `=== begin <k>` … `=== end` (from run_all) … `=== done <k>`.  A watchdog ends the process (exit 3, after printing
/// `=== timeout <k>`) when one program uses more than <seconds> of CPU time (or 20 x <seconds> of wall-clock time);
/// the caller restarts after <k>.
/// CPU time (user + system) this process has used, in milliseconds (from /proc/self/stat; 100 ticks per second).
fn cpu_ms() -> u64 {
    let stat = std::fs::read_to_string("/proc/self/stat").unwrap_or_default();
    // the fields after the command name (which may contain spaces) start after the last ')'
    let rest = stat.rsplit(')').next().unwrap_or("");
    let f: Vec<&str> = rest.split_whitespace().collect();
    let utime: u64 = f.get(11).and_then(|x| x.parse().ok()).unwrap_or(0);
    let stime: u64 = f.get(12).and_then(|x| x.parse().ok()).unwrap_or(0);
    (utime + stime) * 10
}

fn batch(mode: String, secs: u64, src: String) {
    use std::sync::atomic::{AtomicU64, Ordering};
    use std::sync::Arc;
    // what the current program started with: index + 1, CPU ms, wall ms (0 = between programs)
    let cur = Arc::new((AtomicU64::new(0), AtomicU64::new(0), AtomicU64::new(0)));
    let t0 = std::time::Instant::now();
    {
        let cur = cur.clone();
        let t0 = t0;
        std::thread::spawn(move || loop {
            std::thread::sleep(std::time::Duration::from_millis(100));
            let k = cur.0.load(Ordering::SeqCst);
            if k == 0 {
                continue;
            }
            let cpu = cpu_ms().saturating_sub(cur.1.load(Ordering::SeqCst));
            let wall = (t0.elapsed().as_millis() as u64).saturating_sub(cur.2.load(Ordering::SeqCst));
            // a loop burns CPU: the bound is CPU time, so that a loaded machine does not change the verdict;
            // a blocked program burns nothing: a generous wall-clock bound catches that
            if (cpu > secs * 1000 || wall > secs * 20_000) && cur.0.load(Ordering::SeqCst) == k {
                say(&format!("\n=== timeout {}", k - 1));
                std::process::exit(3);
            }
        });
    }
    let body = move || {
        // A program whose first line is `;;;reuse` runs on the engine of the program before it (same shape, next
        // operation); any other program gets a fresh engine, the old one is torn down first (framed, so that a death
        // in the teardown is attributed to the programs that used it).
        let mut engine: Option<Engine> = None;
        let mut last: u64 = 0;
        for (k, prog) in src.split("\n;;;===\n").enumerate() {
            if prog.trim().is_empty() {
                continue;
            }
            let reuse = prog.starts_with(";;;reuse\n");
            if !reuse {
                if let Some(e) = engine.take() {
                    say(&format!("=== teardown {}", last));
                    cur.1.store(cpu_ms(), Ordering::SeqCst);
                    cur.2.store(t0.elapsed().as_millis() as u64, Ordering::SeqCst);
                    cur.0.store(last + 1, Ordering::SeqCst);
                    drop(e);
                    cur.0.store(0, Ordering::SeqCst);
                    say("=== teardown done");
                }
            }
            say(&format!("=== begin {}", k));
            cur.1.store(cpu_ms(), Ordering::SeqCst);
            cur.2.store(t0.elapsed().as_millis() as u64, Ordering::SeqCst);
            cur.0.store(k as u64 + 1, Ordering::SeqCst);
            let e = engine.get_or_insert_with(Engine::new);
            let clean = run_pieces(e, prog);
            say("=== end");
            cur.0.store(0, Ordering::SeqCst);
            say(&format!("=== done {}", k));
            last = k as u64;
            if !clean {
                // an error or a caught panic may have left the engine half way (output port redirected, locks): retire it
                if let Some(e) = engine.take() {
                    say(&format!("=== teardown {}", last));
                    cur.1.store(cpu_ms(), Ordering::SeqCst);
                    cur.2.store(t0.elapsed().as_millis() as u64, Ordering::SeqCst);
                    cur.0.store(last + 1, Ordering::SeqCst);
                    drop(e);
                    cur.0.store(0, Ordering::SeqCst);
                    say("=== teardown done");
                }
            }
        }
        if let Some(e) = engine.take() {
            say(&format!("=== teardown {}", last));
            drop(e);
            say("=== teardown done");
        }
        say("=== batch end");
    };
    if let Some(bytes) = mode.strip_prefix("thread:") {
        let n: usize = bytes.parse().expect("thread:<bytes>");
        let h = std::thread::Builder::new().stack_size(n).spawn(body).expect("spawn");
        if h.join().is_err() {
            say("=> panic (escaped)");
        }
    } else {
        body();
    }
}

fn main() {
    let args: Vec<String> = std::env::args().collect();
    let mode = args.get(1).cloned().unwrap_or_else(|| "main".to_string());
    let mut src = String::new();
    std::io::stdin().read_to_string(&mut src).unwrap();
    std::panic::set_hook(Box::new(|_| {}));
    if mode == "batch" {
        let m = args.get(2).cloned().unwrap_or_else(|| "main".to_string());
        let secs: u64 = args.get(3).and_then(|s| s.parse().ok()).unwrap_or(10);
        batch(m, secs, src);
    } else {
        run_on(&mode, src);
    }
}
