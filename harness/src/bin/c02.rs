//! C02 harness: runs whole programs and piecewise histories on the real engine.
//! stdin: programs separated by a line `;;;===`; the pieces of one program (evaluated one after another on
//! the same fresh `Engine`) are separated by a line `;;;---`.  For every program:
//!   \x1eB                      start of a program (fresh engine)
//! then for every piece whatever the script writes to stdout, followed by one result line
//!   \x1eV v1\x1fv2…            values of the top-level forms (Display), or
//!   \x1eE <ErrorKind> | <first line of the message>
//!   \x1eP <message>            the engine panicked.
//! The configuration under test is NOT chosen here: the engine reads STEEL_JIT, STEEL_INLINE,
//! STEEL_INLINE_RECURSIVE, STEEL_CLOSURE_LIFTING, STEEL_MODULE_INLINE from the environment of this process
//! (every compilation / closure construction calls std::env::var), so checks/c02.py starts one child per
//! configuration.  `c02 env` prints the five switches as this process sees them.
//! A piece that runs longer than C02_PIECE_LIMIT_MS (default 12000) ends the process with exit code 87 (native
//! code that never returns cannot be interrupted from inside): the driver records a crash for that program
//! and runs the rest of its chunk in a new child.
use std::io::{Read, Write};
use std::panic::{catch_unwind, AssertUnwindSafe};

const SWITCHES: [&str; 5] = [
    "STEEL_JIT",
    "STEEL_INLINE",
    "STEEL_INLINE_RECURSIVE",
    "STEEL_CLOSURE_LIFTING",
    "STEEL_MODULE_INLINE",
];

fn main() {
    if std::env::args().any(|a| a == "env") {
        for s in SWITCHES {
            match std::env::var(s) {
                Ok(v) => println!("{}={}", s, v),
                Err(_) => println!("{} unset", s),
            }
        }
        return;
    }
    let mut src = String::new();
    std::io::stdin().read_to_string(&mut src).unwrap();
    if std::env::args().any(|a| a == "bytecode") {
        // the byte code the compiler emits for one program under the configuration of this process
        // (used when a difference between configurations is written up)
        let mut engine = steel::steel_vm::engine::Engine::new();
        match engine.emit_raw_program_no_path(src.clone()) {
            Ok(p) => match engine.debug_build_strings(p) {
                Ok(lines) => {
                    for l in lines {
                        println!("{}", l);
                    }
                }
                Err(e) => println!("error: {}", e),
            },
            Err(e) => println!("error: {}", e),
        }
        return;
    }
    std::panic::set_hook(Box::new(|_| {}));
    let limit_ms: u64 = std::env::var("C02_PIECE_LIMIT_MS").ok().and_then(|v| v.parse().ok()).unwrap_or(12000);
    // start of the running piece in ms since process start (0 = no piece running)
    static PIECE_START: std::sync::atomic::AtomicU64 = std::sync::atomic::AtomicU64::new(0);
    let t0 = std::time::Instant::now();
    std::thread::spawn(move || loop {
        std::thread::sleep(std::time::Duration::from_millis(100));
        let st = PIECE_START.load(std::sync::atomic::Ordering::SeqCst);
        if st != 0 && (t0.elapsed().as_millis() as u64) > st + limit_ms {
            std::io::stdout().flush().ok();
            eprintln!("c02: piece exceeded the time limit of {} ms", limit_ms);
            std::process::exit(87);
        }
    });
    let mut panicked = false;
    for prog in src.split("\n;;;===\n") {
        if prog.trim().is_empty() {
            continue;
        }
        if panicked {
            // A panic can leave process-wide state behind (a poisoned JIT lock makes every later
            // Engine::new() fail): the remaining programs must run in a fresh process.  Exit code 86
            // tells the driver that everything printed so far is complete.
            std::io::stdout().flush().ok();
            std::process::exit(86);
        }
        println!("\u{1e}B");
        std::io::stdout().flush().ok();
        let mut engine = match catch_unwind(steel::steel_vm::engine::Engine::new) {
            Ok(e) => e,
            Err(_) => {
                println!("\n\u{1e}P engine construction panicked");
                panicked = true;
                continue;
            }
        };
        for piece in prog.split("\n;;;---\n") {
            let piece = piece.to_string();
            PIECE_START.store(t0.elapsed().as_millis() as u64 + 1, std::sync::atomic::Ordering::SeqCst);
            let r = catch_unwind(AssertUnwindSafe(|| engine.compile_and_run_raw_program(piece)));
            PIECE_START.store(0, std::sync::atomic::Ordering::SeqCst);
            std::io::stdout().flush().ok();
            match r {
                Ok(Ok(vals)) => {
                    // one record per line: a value whose text contains a line break (hash maps) must not break the protocol
                    let s: Vec<String> = vals.iter().map(|v| format!("{}", v).replace('\n', "\\n")).collect();
                    println!("\n\u{1e}V {}", s.join("\u{1f}"));
                }
                Ok(Err(e)) => {
                    let msg = format!("{}", e);
                    let first = msg.lines().next().unwrap_or("").to_string();
                    let kind = first
                        .trim_start_matches("Error: ")
                        .split(':')
                        .next()
                        .unwrap_or("")
                        .to_string();
                    println!("\n\u{1e}E {} | {}", kind, first);
                }
                Err(p) => {
                    let msg = if let Some(s) = p.downcast_ref::<String>() {
                        s.clone()
                    } else if let Some(s) = p.downcast_ref::<&str>() {
                        s.to_string()
                    } else {
                        "?".into()
                    };
                    println!("\n\u{1e}P {}", msg.lines().next().unwrap_or(""));
                    panicked = true;
                }
            }
            std::io::stdout().flush().ok();
        }
    }
}
