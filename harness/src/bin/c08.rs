//! C08 harness: runs whole programs on the real engine, one fresh `Engine` per program (same record format
//! as `c01`).  stdin: programs separated by a line `;;;===`.  For every program:
//!   \x1eB                      (then whatever the script writes to stdout)
//!   \x1eV v1\x1fv2…            values of the top-level forms (Display), or
//!   \x1eE <ErrorKind> | msg    the evaluation returned an error, or
//!   \x1eP <message> @ file:line   the engine panicked.
//! Differences from c01: the panic location is reported, and the process EXITS after a panic (code 3):
//! a panic inside the VM can leave process-wide state poisoned (locks), so the caller restarts the rest of
//! the batch in a fresh process.
//! `--reuse N`: one Engine serves N consecutive programs (every program defines all the globals it uses); the
//! caller re-runs every disagreeing program with a fresh engine, so reuse can only hide, never create, a report.
//! Histories: a program that contains lines `;;;---` is a sequence of PIECES, each one evaluation
//! (`compile_and_run_raw_program`) on the SAME engine, like forms typed into a REPL: a piece that ends with an
//! uncaught error contributes the pseudo value `!err` (the values of its earlier forms are not reported) and the
//! next piece runs on.  Such a program always yields a `\x1eV` record (or `\x1eP`).
//! Environment: STEEL_JIT, STEEL_VERIF_GC_EVERY … are read by the engine itself.
use std::io::{Read, Write};
use std::panic::{catch_unwind, AssertUnwindSafe};
use std::sync::Mutex;

static LAST_PANIC: Mutex<String> = Mutex::new(String::new());

fn main() {
    let mut src = String::new();
    std::io::stdin().read_to_string(&mut src).unwrap();
    std::panic::set_hook(Box::new(|info| {
        let loc = info
            .location()
            .map(|l| format!("{}:{}", l.file().rsplit('/').next().unwrap_or(""), l.line()))
            .unwrap_or_default();
        if let Ok(mut g) = LAST_PANIC.lock() {
            *g = loc;
        }
    }));
    let args: Vec<String> = std::env::args().collect();
    let reuse: usize = args
        .iter()
        .position(|a| a == "--reuse")
        .and_then(|i| args.get(i + 1))
        .and_then(|n| n.parse().ok())
        .unwrap_or(1);
    let mut engine: Option<steel::steel_vm::engine::Engine> = None;
    let mut served = 0usize;
    for prog in src.split("\n;;;===\n") {
        if prog.trim().is_empty() {
            continue;
        }
        println!("\u{1e}B");
        std::io::stdout().flush().ok();
        let prog = prog.to_string();
        if engine.is_none() || served >= reuse {
            engine = None;
            served = 0;
        }
        served += 1;
        let pieces: Vec<String> = prog.split("\n;;;---\n").map(|x| x.to_string()).collect();
        let history = pieces.len() > 1;
        let mut failed = false;
        let r = catch_unwind(AssertUnwindSafe(|| {
            if engine.is_none() {
                engine = Some(steel::steel_vm::engine::Engine::new());
            }
            if !history {
                return engine.as_mut().unwrap().compile_and_run_raw_program(prog);
            }
            let mut all = Vec::new();
            for piece in pieces {
                match engine.as_mut().unwrap().compile_and_run_raw_program(piece) {
                    Ok(vals) => all.extend(vals),
                    Err(_) => {
                        failed = true;
                        all.push(steel::SteelVal::SymbolV("!err".into()));
                    }
                }
            }
            Ok(all)
        }));
        if failed || !matches!(r, Ok(Ok(_))) {
            engine = None; // an error or a panic: the next program gets a fresh engine
        }
        std::io::stdout().flush().ok();
        match r {
            Ok(Ok(vals)) => {
                let s: Vec<String> = vals.iter().map(|v| format!("{}", v)).collect();
                println!("\n\u{1e}V {}", s.join("\u{1f}"));
            }
            Ok(Err(e)) => {
                let msg = format!("{}", e);
                let first = msg.lines().next().unwrap_or("").to_string();
                let kind = first.trim_start_matches("Error: ").split(':').next().unwrap_or("").to_string();
                println!("\n\u{1e}E {} | {}", kind, first);
            }
            Err(p) => {
                let msg = if let Some(s) = p.downcast_ref::<String>() {
                    s.clone()
                } else if let Some(s) = p.downcast_ref::<&str>() {
                    s.to_string()
                } else {
                    "?".into()
                };
                let loc = LAST_PANIC.lock().map(|g| g.clone()).unwrap_or_default();
                println!("\n\u{1e}P {} @ {}", msg.lines().next().unwrap_or(""), loc);
                std::io::stdout().flush().ok();
                std::process::exit(3);
            }
        }
    }
}
