//! C10 harness: evaluates exact-arithmetic requests on the REAL Steel engine.
//!
//! Modes
//!   c10                 stdin: one request per line `op A [B]` (operands: decimal integer or n/d).
//!                       stdout: one line per request: `shape=result` pairs separated by TAB, every
//!                       shape being a different syntactic form of the same computation (see `shapes`).
//!                       An operand `f:<16 hex digits>` is the double with those bits (registered as a
//!                       global directly; the shapes that need a literal are skipped); a double result
//!                       is printed the same way.
//!   c10 raw             stdin: one Scheme program per line; stdout: its result (same canonical form).
//!   c10 ops             stdin: one Scheme program per line; stdout: the opcodes of its bytecode.
//!
//! Canonical results: the value as Steel's Display prints it (`5`, `-7/3`, `#true`, `(3 1)`),
//! `err:div0`, `err:type`, `err:<Kind>` for other Steel errors, `panic:<first line>` for a panic.
use std::io::{BufRead, Write};
use std::panic::{catch_unwind, AssertUnwindSafe};

use steel::steel_vm::engine::Engine;

fn classify_err(msg: &str) -> String {
    let first = msg.lines().next().unwrap_or("");
    let low = first.to_lowercase();
    if low.contains("division by zero") || low.contains("divide by zero") {
        "err:div0".to_string()
    } else if low.contains("cannot be raised to a negative power") {
        "err:expt0".to_string()
    } else if low.contains("typemismatch") || low.contains("type mismatch") {
        "err:type".to_string()
    } else if low.contains("aritymismatch") || low.contains("arity mismatch") {
        "err:arity".to_string()
    } else {
        let kind: String = first
            .trim_start_matches("Error: ")
            .chars()
            .take_while(|c| c.is_alphanumeric())
            .collect();
        format!("err:{}:{}", kind, first.replace('\t', " "))
    }
}

fn panic_msg(p: Box<dyn std::any::Any + Send>) -> String {
    let msg = if let Some(s) = p.downcast_ref::<String>() {
        s.clone()
    } else if let Some(s) = p.downcast_ref::<&str>() {
        s.to_string()
    } else {
        "?".to_string()
    };
    format!("panic:{}", msg.lines().next().unwrap_or("").replace('\t', " "))
}

fn gcd128(a: i128, b: i128) -> u128 {
    let (mut a, mut b) = (a.unsigned_abs(), b.unsigned_abs());
    while b != 0 {
        let t = a % b;
        a = b;
        b = t;
    }
    a
}

/// The representation invariant of exact numbers: a bignum does not fit a fixnum, a ratio is reduced with a
/// denominator > 1, a big ratio does not fit the 32-bit ratio.  Two values that print alike but are
/// represented differently are not `=` / `equal?` to each other, so this is observable.
fn noncanonical(v: &steel::SteelVal) -> Option<&'static str> {
    use steel::SteelVal::*;
    match v {
        BigNum(b) => {
            if format!("{}", &**b).parse::<isize>().is_ok() {
                Some("bignum-fits-fixnum")
            } else {
                None
            }
        }
        Rational(r) => {
            let (n, d) = (*r.numer() as i128, *r.denom() as i128);
            if d <= 1 {
                Some("ratio-denominator")
            } else if gcd128(n, d) != 1 {
                Some("ratio-not-reduced")
            } else {
                None
            }
        }
        BigRational(r) => {
            let (ns, ds) = (format!("{}", r.numer()), format!("{}", r.denom()));
            if ds == "1" || ds.starts_with('-') || ds == "0" {
                return Some("bigratio-denominator");
            }
            if ns.parse::<i32>().is_ok() && ds.parse::<i32>().is_ok() {
                return Some("bigratio-fits-ratio");
            }
            if let (Ok(n), Ok(d)) = (ns.parse::<i128>(), ds.parse::<i128>()) {
                if gcd128(n, d) != 1 {
                    return Some("bigratio-not-reduced");
                }
            }
            None
        }
        _ => None,
    }
}

/// Evaluate one program; the canonical text of its last value.
fn eval(engine: &mut Engine, src: String) -> String {
    let r = catch_unwind(AssertUnwindSafe(|| engine.compile_and_run_raw_program(src)));
    if r.is_err() {
        // a panic leaves the VM stack in an unspecified state: continue on a fresh engine
        // (the operands are re-defined by the caller before the next shape).
        *engine = new_engine();
    }
    match r {
        Ok(Ok(vals)) => match vals.last() {
            // doubles are compared by their 64 bits, never by their text
            Some(steel::SteelVal::NumV(x)) => format!("f:{:016x}", x.to_bits()),
            Some(v) => match noncanonical(v) {
                Some(why) => format!("noncanonical:{}:{}", why, v),
                None => format!("{}", v),
            },
            None => "void".to_string(),
        },
        Ok(Err(e)) => classify_err(&format!("{}", e)),
        Err(p) => panic_msg(p),
    }
}

fn scheme_op(op: &str) -> Option<(&'static str, usize)> {
    Some(match op {
        "add" => ("+", 2),
        "sub" => ("-", 2),
        "mul" => ("*", 2),
        "div" => ("/", 2),
        "quotient" => ("quotient", 2),
        "remainder" => ("remainder", 2),
        "modulo" => ("modulo", 2),
        "gcd" => ("gcd", 2),
        "lcm" => ("lcm", 2),
        "expt" => ("expt", 2),
        "eq" => ("=", 2),
        "lt" => ("<", 2),
        "gt" => (">", 2),
        "le" => ("<=", 2),
        "ge" => (">=", 2),
        "neg" => ("-", 1),
        "recip" => ("/", 1),
        "abs" => ("abs", 1),
        "numerator" => ("numerator", 1),
        "denominator" => ("denominator", 1),
        "isqrt" => ("exact-integer-sqrt", 1),
        "id" => ("+", 1),
        "tostr" => ("number->string", 1),
        "roundtrip" => ("c10-roundtrip", 1),
        "tof64" => ("exact->inexact", 1),
        "tostrr" => ("number->string", 2),
        "roundtripr" => ("c10-roundtripr", 2),
        _ => return None,
    })
}

fn has_prim(op: &str) -> bool {
    !matches!(op, "gcd" | "lcm" | "roundtrip" | "roundtripr")
}

const PRELUDE: &str = "(define (c10-roundtrip x) (string->number (number->string x))) (define (c10-roundtripr x r) (string->number (number->string x r) r))";

/// the variadic requests: `addn subn muln divn` and the order primitives on any number of operands
fn variadic_op(op: &str) -> Option<&'static str> {
    Some(match op {
        "addn" => "+",
        "subn" => "-",
        "muln" => "*",
        "divn" => "/",
        "len" => "<=",
        "ltn" => "<",
        "gtn" => ">",
        "gen" => ">=",
        "eqn" => "=",
        _ => return None,
    })
}

/// shapes of a variadic call: literals (constant folder), globals (generic call / the `ADD SUB MUL DIV LTE ..` op codes
/// with payload n), locals of a procedure, `#%prim.` name, `apply`, the procedure as a first-class value, let-bound
/// locals, result as a branch condition.
fn variadic_shapes(f: &str, args: &[&str], n: usize, cmp: bool) -> Vec<(&'static str, String)> {
    let k = args.len();
    let lits = args.join(" ");
    let globals: Vec<String> = (0..k).map(|i| format!("c10-v{}", i)).collect();
    let params: Vec<String> = (0..k).map(|i| format!("x{}", i)).collect();
    let (g, p) = (globals.join(" "), params.join(" "));
    let mut v = Vec::new();
    v.push(("fold", format!("({} {})", f, lits)));
    v.push(("call", format!("({} {})", f, g)));
    v.push(("locals", format!("(define (c10-vf{n} {p}) ({f} {p})) (c10-vf{n} {g})")));
    v.push(("prim", format!("(define (c10-vp{n} {p}) (#%prim.{f} {p})) (c10-vp{n} {g})")));
    v.push(("apply", format!("(apply {} (list {}))", f, g)));
    if k > 0 {
        let lists: Vec<String> = globals.iter().map(|x| format!("(list {})", x)).collect();
        v.push(("map-locals", format!("(define (c10-vm{n} {p}) ({f} {p})) (car (map c10-vm{n} {}))", lists.join(" "))));
        let binds: Vec<String> = (0..k).map(|i| format!("(x{} c10-v{})", i, i)).collect();
        v.push(("let", format!("(let ({}) ({} {}))", binds.join(" "), f, p)));
        v.push(("loop", format!("(define (c10-vk{n} {p}) ({f} {p})) (define (c10-vl{n} i acc) (if (= i 0) acc (c10-vl{n} (- i 1) (c10-vk{n} {g})))) (c10-vl{n} 3 #f)")));
    }
    if cmp && k > 0 {
        v.push(("branch", format!("(define (c10-vb{n} {p}) (if ({f} {p}) #t #f)) (c10-vb{n} {g})")));
    }
    v
}


fn new_engine() -> Engine {
    let mut e = Engine::new();
    let _ = e.compile_and_run_raw_program(PRELUDE.to_string());
    e
}

fn is_cmp(op: &str) -> bool {
    matches!(op, "eq" | "lt" | "gt" | "le" | "ge")
}


const MOD_DIR: &str = "/verif/.build/C10/mods";

/// Code inside a required module is compiled differently from top-level code (mangled module-level
/// procedures, other call op codes, the JIT's arithmetic helpers): `steel file.scm` runs a file as a module.
/// The module for an operation (and, for small integer literals, for an operation + right operand) is written
/// once; every shape program requires it (a repeated `require` is a cache hit).
fn module_shapes(op: &str, f: &str, args: &[&str], wrap: &dyn Fn(String) -> String) -> Vec<(&'static str, String)> {
    let mut v = Vec::new();
    let _ = std::fs::create_dir_all(MOD_DIR);
    let write_once = |path: &str, text: String| {
        if !std::path::Path::new(path).exists() {
            let tmp = format!("{}.{}.tmp", path, std::process::id());
            if std::fs::write(&tmp, text).is_ok() {
                let _ = std::fs::rename(&tmp, path);
            }
        }
    };
    if args.len() == 2 {
        let path = format!("{}/{}.scm", MOD_DIR, op);
        write_once(
            &path,
            format!(
                "(provide c10m-{op}-locals c10m-{op}-map c10m-{op}-branch)\n(define (c10m-{op}-k x y) {body})\n(define (c10m-{op}-locals x y) (c10m-{op}-k x y))\n(define (c10m-{op}-map x y) (car (map c10m-{op}-k (list x) (list y))))\n(define (c10m-{op}-branch x y) (if (c10m-{op}-k x y) #t #f))\n",
                op = op,
                body = wrap(format!("({} x y)", f))
            ),
        );
        v.push(("mod-locals", format!("(require \"{}\") (c10m-{}-locals c10-a c10-b)", path, op)));
        v.push(("mod-map", format!("(require \"{}\") (c10m-{}-map c10-a c10-b)", path, op)));
        if is_cmp(op) {
            v.push(("mod-branch", format!("(require \"{}\") (c10m-{}-branch c10-a c10-b)", path, op)));
        }
        // right operand a small integer literal
        if let Ok(k) = args[1].parse::<i64>() {
            if (-2..=256).contains(&k) {
                let id = if k < 0 { format!("m{}", -k) } else { format!("{}", k) };
                let path = format!("{}/{}_lit_{}.scm", MOD_DIR, op, id);
                write_once(
                    &path,
                    format!(
                        "(provide c10m-{op}-lit{id} c10m-{op}-litmap{id} c10m-{op}-litloop{id})\n(define (c10m-{op}-k{id} x) {body})\n(define (c10m-{op}-lit{id} x) (c10m-{op}-k{id} x))\n(define (c10m-{op}-litmap{id} x) (car (map c10m-{op}-k{id} (list x))))\n(define (c10m-{op}-litloop{id} x i acc) (if (= i 0) acc (c10m-{op}-litloop{id} x (- i 1) (c10m-{op}-k{id} x))))\n",
                        op = op,
                        id = id,
                        body = wrap(format!("({} x {})", f, k))
                    ),
                );
                v.push(("mod-lit-r", format!("(require \"{}\") (c10m-{}-lit{} c10-a)", path, op, id)));
                v.push(("mod-lit-map", format!("(require \"{}\") (c10m-{}-litmap{} c10-a)", path, op, id)));
                v.push(("mod-lit-loop", format!("(require \"{}\") (c10m-{}-litloop{} c10-a 3 #f)", path, op, id)));
            }
        }
    } else {
        let path = format!("{}/{}.scm", MOD_DIR, op);
        write_once(
            &path,
            format!(
                "(provide c10m-{op}-locals c10m-{op}-map)\n(define (c10m-{op}-k x) {body})\n(define (c10m-{op}-locals x) (c10m-{op}-k x))\n(define (c10m-{op}-map x) (car (map c10m-{op}-k (list x))))\n",
                op = op,
                body = wrap(format!("({} x)", f))
            ),
        );
        v.push(("mod-locals", format!("(require \"{}\") (c10m-{}-locals c10-a)", path, op)));
        v.push(("mod-map", format!("(require \"{}\") (c10m-{}-map c10-a)", path, op)));
    }
    v
}

/// All syntactic shapes of one request, as (name, program) pairs.  `n` makes the names unique.
fn shapes(op: &str, f: &str, args: &[&str], n: usize, all: bool) -> Vec<(&'static str, String)> {
    let mut v = Vec::new();
    // `exact-integer-sqrt` returns two values; make them a list so they print.
    let wrap = |e: String| -> String {
        if op == "isqrt" {
            format!("(call-with-values (lambda () {}) list)", e)
        } else {
            e
        }
    };
    if args.len() == 2 {
        let (a, b) = (args[0], args[1]);
        // 1. literal operands at top level: the constant folder sees it
        v.push(("fold", wrap(format!("({} {} {})", f, a, b))));
        // 2. operands are globals the compiler knows nothing about: generic primitive call
        v.push(("call", wrap(format!("({} c10-a c10-b)", f))));
        // 3. both operands are locals of a function
        v.push((
            "locals",
            format!("(define (c10-f{n} x y) {}) (c10-f{n} c10-a c10-b)", wrap(format!("({} x y)", f))),
        ));
        // 4. right operand a literal (ADDIMMEDIATE / SUBIMMEDIATE / LTEIMMEDIATE when it is small)
        v.push((
            "lit-r",
            format!("(define (c10-g{n} x) {}) (c10-g{n} c10-a)", wrap(format!("({} x {})", f, b))),
        ));
        if all {
            // 5. left operand a literal
            v.push((
                "lit-l",
                format!("(define (c10-h{n} y) {}) (c10-h{n} c10-b)", wrap(format!("({} {} y)", f, a))),
            ));
            // 6. first-class use of the primitive
            v.push(("apply", wrap(format!("(apply {} (list c10-a c10-b))", f))));
            // 7. called from a loop (the closure is compiled/specialised), result of last iteration
            v.push((
                "loop",
                format!(
                    "(define (c10-k{n} x y) {}) (define (c10-l{n} i acc) (if (= i 0) acc (c10-l{n} (- i 1) (c10-k{n} c10-a c10-b)))) (c10-l{n} 3 #f)",
                    wrap(format!("({} x y)", f))
                ),
            ));
            // 7b. the procedure used as a first-class value: a real call of the compiled procedure (the JIT's
            //     arithmetic helpers), not an inlined copy of its body
            v.push((
                "map-lit-r",
                format!("(define (c10-m{n} x) {}) (car (map c10-m{n} (list c10-a)))", wrap(format!("({} x {})", f, b))),
            ));
            v.push((
                "map-locals",
                format!("(define (c10-n{n} x y) {}) (car (map c10-n{n} (list c10-a) (list c10-b)))", wrap(format!("({} x y)", f))),
            ));
            // 8. tail position inside let-bound locals
            v.push((
                "let",
                wrap(format!("(let ((x c10-a) (y c10-b)) ({} x y))", f)),
            ));
        }
        if has_prim(op) {
            // the name the compiler specialises into ADD/SUB/MUL/DIV/NUMEQUAL/LTE/... opcodes
            v.push((
                "prim",
                format!("(define (c10-p{n} x y) {}) (c10-p{n} c10-a c10-b)", wrap(format!("(#%prim.{} x y)", f))),
            ));
            if all {
                v.push((
                    "prim-lit",
                    format!("(define (c10-q{n} x) {}) (c10-q{n} c10-a)", wrap(format!("(#%prim.{} x {})", f, b))),
                ));
            }
        }
        if is_cmp(op) {
            // 9. result used as a branch condition (LTEIMMEDIATEIF and friends)
            v.push((
                "branch",
                format!(
                    "(define (c10-b{n} x y) (if ({} x y) #t #f)) (c10-b{n} c10-a c10-b)",
                    f
                ),
            ));
            v.push((
                "branch-lit",
                format!("(define (c10-c{n} x) (if ({} x {}) #t #f)) (c10-c{n} c10-a)", f, b),
            ));
        }
    } else {
        let a = args[0];
        v.push(("fold", wrap(format!("({} {})", f, a))));
        v.push(("call", wrap(format!("({} c10-a)", f))));
        v.push((
            "locals",
            format!("(define (c10-f{n} x) {}) (c10-f{n} c10-a)", wrap(format!("({} x)", f))),
        ));
        if all {
            v.push(("apply", wrap(format!("(apply {} (list c10-a))", f))));
            v.push((
                "loop",
                format!(
                    "(define (c10-k{n} x) {}) (define (c10-l{n} i acc) (if (= i 0) acc (c10-l{n} (- i 1) (c10-k{n} c10-a)))) (c10-l{n} 3 #f)",
                    wrap(format!("({} x)", f))
                ),
            ));
        }
    }
    if all && op != "roundtrip" && op != "roundtripr" {
        v.extend(module_shapes(op, f, args, &wrap));
    }
    v
}

fn main() {
    let args: Vec<String> = std::env::args().collect();
    let mode = args.get(1).map(|s| s.as_str()).unwrap_or("req");
    std::panic::set_hook(Box::new(|_| {}));
    let mut engine = new_engine();
    let stdin = std::io::stdin();
    let out = std::io::stdout();
    let mut out = out.lock();
    let all = std::env::var("C10_SHAPES").map(|s| s != "few").unwrap_or(true);
    let mut n = 0usize;
    for line in stdin.lock().lines() {
        let line = match line {
            Ok(l) => l,
            Err(_) => break,
        };
        let line = line.trim().to_string();
        if line.is_empty() || line.starts_with('#') {
            continue;
        }
        n += 1;
        match mode {
            "raw" => {
                let r = eval(&mut engine, line);
                writeln!(out, "{}", r).ok();
            }
            "ops" => {
                let r = catch_unwind(AssertUnwindSafe(|| {
                    engine
                        .emit_raw_program_no_path(line.clone())
                        .and_then(|p| engine.debug_build_strings(p))
                }));
                match r {
                    Ok(Ok(strs)) => {
                        let joined = strs.join("\n");
                        let mut ops: Vec<&str> = Vec::new();
                        for l in joined.lines() {
                            let toks: Vec<&str> = l.split_whitespace().collect();
                            for t in toks {
                                if t.len() > 2
                                    && t.chars().all(|c| c.is_ascii_uppercase() || c.is_ascii_digit())
                                    && t.chars().any(|c| c.is_ascii_uppercase())
                                {
                                    ops.push(t);
                                    break;
                                }
                            }
                        }
                        writeln!(out, "{}", ops.join(" ")).ok();
                    }
                    Ok(Err(e)) => {
                        writeln!(out, "{}", classify_err(&format!("{}", e))).ok();
                    }
                    Err(p) => {
                        writeln!(out, "{}", panic_msg(p)).ok();
                    }
                }
            }
            _ => {
                let toks: Vec<&str> = line.split_whitespace().collect();
                if toks[0] == "s2n" {
                    // string->number on an arbitrary text: literal (constant folder), global, apply
                    if toks.len() < 2 || toks.len() > 3 || toks[1].contains('"') || toks[1].contains('\\') {
                        writeln!(out, "bad=arity").ok();
                        continue;
                    }
                    let radix = if toks.len() == 3 { format!(" {}", toks[2]) } else { String::new() };
                    let progs = vec![
                        ("fold", format!("(string->number \"{}\"{})", toks[1], radix)),
                        ("call", format!("(define c10-s{} (car (list \"{}\"))) (string->number c10-s{}{})", n, toks[1], n, radix)),
                        ("apply", format!("(apply string->number (list \"{}\"{}))", toks[1], radix)),
                    ];
                    for (i, (name, prog)) in progs.into_iter().enumerate() {
                        write!(out, "{}{}=", if i == 0 { "" } else { "\t" }, name).ok();
                        out.flush().ok();
                        let r = eval(&mut engine, prog);
                        write!(out, "{}", r).ok();
                        out.flush().ok();
                    }
                    writeln!(out).ok();
                    out.flush().ok();
                    continue;
                }
                if let Some(f) = variadic_op(toks[0]) {
                    let operands = &toks[1..];
                    let vdefs = |engine: &mut Engine| -> Option<String> {
                        for (i, lit) in operands.iter().enumerate() {
                            let r = eval(engine, format!("(define c10-v{} (car (list '{})))", i, lit));
                            if r.starts_with("err") || r.starts_with("panic") {
                                return Some(r);
                            }
                        }
                        None
                    };
                    if let Some(r) = vdefs(&mut engine) {
                        writeln!(out, "operand={}", r).ok();
                        continue;
                    }
                    let cmp = matches!(toks[0], "len" | "ltn" | "gtn" | "gen" | "eqn");
                    for (i, (name, prog)) in variadic_shapes(f, operands, n, cmp).into_iter().enumerate() {
                        write!(out, "{}{}=", if i == 0 { "" } else { "\t" }, name).ok();
                        out.flush().ok();
                        let r = eval(&mut engine, prog);
                        write!(out, "{}", r).ok();
                        out.flush().ok();
                        if r.starts_with("panic") {
                            vdefs(&mut engine);
                        }
                    }
                    writeln!(out).ok();
                    out.flush().ok();
                    continue;
                }
                let (f, arity) = match scheme_op(toks[0]) {
                    Some(x) => x,
                    None => {
                        writeln!(out, "bad=unknown-op").ok();
                        continue;
                    }
                };
                if toks.len() != arity + 1 {
                    writeln!(out, "bad=arity").ok();
                    continue;
                }
                let operands = &toks[1..];
                // operands become globals through the reader (quote keeps the folder away)
                let defs = |engine: &mut Engine| -> Option<String> {
                    for (name, lit) in ["c10-a", "c10-b"].iter().zip(operands.iter()) {
                        if let Some(hex) = lit.strip_prefix("f:") {
                            match u64::from_str_radix(hex, 16) {
                                Ok(bits) => {
                                    engine.register_value(name, steel::SteelVal::NumV(f64::from_bits(bits)));
                                    continue;
                                }
                                Err(_) => return Some("err:bad-float-operand".to_string()),
                            }
                        }
                        let r = eval(engine, format!("(define {} (car (list '{})))", name, lit));
                        if r.starts_with("err") || r.starts_with("panic") {
                            return Some(r);
                        }
                    }
                    None
                };
                if let Some(r) = defs(&mut engine) {
                    writeln!(out, "operand={}", r).ok();
                    continue;
                }
                // every shape is flushed as soon as it is known: if the process dies (a panic inside
                // natively compiled code aborts), the orchestrator sees which shape killed it.
                let has_float = operands.iter().any(|o| o.starts_with("f:"));
                let shape_list: Vec<(&'static str, String)> = shapes(toks[0], f, operands, n, all)
                    .into_iter()
                    .filter(|(name, _)| {
                        !has_float
                            || !matches!(
                                *name,
                                "fold" | "lit-r" | "lit-l" | "prim-lit" | "branch-lit" | "map-lit-r" | "mod-lit-r" | "mod-lit-map" | "mod-lit-loop"
                            )
                    })
                    .collect();
                for (i, (name, prog)) in shape_list.into_iter().enumerate() {
                    write!(out, "{}{}=", if i == 0 { "" } else { "\t" }, name).ok();
                    out.flush().ok();
                    let r = eval(&mut engine, prog);
                    write!(out, "{}", r).ok();
                    out.flush().ok();
                    if r.starts_with("panic") {
                        defs(&mut engine);
                    }
                }
                writeln!(out).ok();
                out.flush().ok();
            }
        }
    }
    out.flush().ok();
}
