//! C03 harness: runs alias-heavy programs on the real engine, one fresh `Engine` per program.
//! stdin: programs separated by a line `;;;===`.  For every program:
//!   \x1eB                      (then whatever the script writes to stdout)
//!   \x1eV                      the program ran to completion, or
//!   \x1eE <ErrorKind> | <msg>  the evaluation returned an error, or
//!   \x1eP <message>            the engine panicked, or
//!   \x1eT                      the program did not finish within C03_TIMEOUT_S seconds (the process exits 3).
//!   \x1eC site=unique/shared … (only when built with `--cfg c03_hook`, i.e. once the proposed add-only hook
//!                              `steel::gc::verif` of /verif/.build/C03/proposed-hook-uniqueness-counters.diff is in /repo):
//!                              how often Gc::get_mut / Gc::make_mut answered "unique" / "shared", per calling source file,
//!                              while the program ran (not while the engine was created).
//! Environment: STEEL_JIT=false switches the JIT off (read by the engine itself).
//!
//! `--bc`: bytecode mode (the tie of the reference-counting VM model, lean/SteelVerif/C03/VM.lean, to the real
//! compiler and VM).  For every program (one compilation unit):
//!   \x1eB
//!   \x1eK #builtins N           number of global slots of a fresh engine (slots below N are built-ins)
//!   the listing of every top-level expression, exactly what `Engine::debug_build_strings` returns (index, op code,
//!   payload, text of the constant / name), each listing followed by a line `----`
//!   \x1eX                      end of the listings; the program runs now (the SAME compiled program), its output follows
//!   \x1eR ok v1\x1fv2…  |  \x1eR err <ErrorKind> | <first line>  |  \x1eR panic <message>
#![allow(unexpected_cfgs)]
use std::io::{Read, Write};
use std::panic::{catch_unwind, AssertUnwindSafe};
use std::sync::atomic::{AtomicU64, Ordering};
use std::sync::Arc;

fn main() {
    let mut src = String::new();
    std::io::stdin().read_to_string(&mut src).unwrap();
    std::panic::set_hook(Box::new(|_| {}));
    if std::env::args().any(|a| a == "--bc") {
        for prog in src.split("\n;;;===\n") {
            if !prog.trim().is_empty() {
                run_bc(prog);
            }
        }
        return;
    }
    let limit: u64 = std::env::var("C03_TIMEOUT_S").ok().and_then(|s| s.parse().ok()).unwrap_or(40);
    // watchdog: `epoch` = index of the running program; if it does not change for `limit` seconds, give up.
    let epoch = Arc::new(AtomicU64::new(0));
    {
        let epoch = epoch.clone();
        std::thread::spawn(move || {
            let mut last = u64::MAX;
            let mut since = std::time::Instant::now();
            loop {
                std::thread::sleep(std::time::Duration::from_millis(200));
                let e = epoch.load(Ordering::SeqCst);
                if e != last {
                    last = e;
                    since = std::time::Instant::now();
                } else if since.elapsed().as_secs() >= limit {
                    println!("\n\u{1e}T");
                    std::io::stdout().flush().ok();
                    std::process::exit(3);
                }
            }
        });
    }
    for prog in src.split("\n;;;===\n") {
        if prog.trim().is_empty() {
            continue;
        }
        epoch.fetch_add(1, Ordering::SeqCst);
        println!("\u{1e}B");
        std::io::stdout().flush().ok();
        let prog = prog.to_string();
        let r = catch_unwind(AssertUnwindSafe(|| {
            let mut engine = steel::steel_vm::engine::Engine::new();
            #[cfg(c03_hook)]
            let _ = steel::gc::verif::take_counts();
            engine.compile_and_run_raw_program(prog)
        }));
        std::io::stdout().flush().ok();
        #[cfg(c03_hook)]
        {
            let counts = steel::gc::verif::take_counts();
            let txt: Vec<String> = counts.iter().map(|(k, a, b)| format!("{}={}/{}", k.replace(' ', ""), a, b)).collect();
            println!("\n\u{1e}C {}", txt.join(" "));
        }
        match r {
            Ok(Ok(_vals)) => {
                println!("\n\u{1e}V");
            }
            Ok(Err(e)) => {
                let msg = format!("{}", e);
                let first = msg.lines().next().unwrap_or("").to_string();
                let kind = first.trim_start_matches("Error: ").split(':').next().unwrap_or("").to_string();
                println!("\n\u{1e}E {} | {}", kind, first);
            }
            Err(p) => {
                let msg = if let Some(s) = p.downcast_ref::<String>() {
                    s.clone()
                } else if let Some(s) = p.downcast_ref::<&str>() {
                    s.to_string()
                } else {
                    "?".into()
                };
                println!("\n\u{1e}P {}", msg.lines().next().unwrap_or(""));
            }
        }
        std::io::stdout().flush().ok();
    }
}

fn first_line(e: &steel::rerrs::SteelErr) -> String {
    let msg = format!("{}", e);
    let first = msg.lines().next().unwrap_or("").to_string();
    let kind = first.trim_start_matches("Error: ").split(':').next().unwrap_or("").to_string();
    format!("{} | {}", kind, first)
}

/// Bytecode mode: the listing of the program (what the VM is about to execute) and the result of running it.
fn run_bc(prog: &str) {
    println!("\u{1e}B");
    let r = catch_unwind(AssertUnwindSafe(|| {
        let mut engine = steel::steel_vm::engine::Engine::new();
        println!("\u{1e}K #builtins {}", engine.globals().len());
        let p = match engine.emit_raw_program_no_path(prog.to_string()) {
            Ok(p) => p,
            Err(e) => {
                println!("\u{1e}X");
                return Err(e);
            }
        };
        match engine.debug_build_strings(p.clone()) {
            Ok(v) => {
                for s in v {
                    println!("{}\n----", s.trim_end_matches('\n'));
                }
            }
            Err(e) => println!("=> listing failed: {}", first_line(&e)),
        }
        println!("\u{1e}X");
        std::io::stdout().flush().ok();
        #[cfg(c03_hook)]
        let _ = steel::gc::verif::take_counts();
        engine.run_raw_program(p)
    }));
    std::io::stdout().flush().ok();
    #[cfg(c03_hook)]
    {
        // answers of the uniqueness test while the program ran, per calling source file
        let counts = steel::gc::verif::take_counts();
        let txt: Vec<String> = counts.iter().map(|(k, a, b)| format!("{}={}/{}", k.replace(' ', ""), a, b)).collect();
        println!("\n\u{1e}C {}", txt.join(" "));
    }
    match r {
        Ok(Ok(vals)) => {
            let s: Vec<String> = vals.iter().map(|v| format!("{}", v)).collect();
            println!("\n\u{1e}R ok {}", s.join("\u{1f}"));
        }
        Ok(Err(e)) => println!("\n\u{1e}R err {}", first_line(&e)),
        Err(p) => {
            let msg = if let Some(s) = p.downcast_ref::<String>() {
                s.clone()
            } else if let Some(s) = p.downcast_ref::<&str>() {
                s.to_string()
            } else {
                "?".into()
            };
            println!("\n\u{1e}R panic {}", msg.lines().next().unwrap_or(""));
        }
    }
    std::io::stdout().flush().ok();
}
