//! `vh eval`: evaluate a program piecewise on one engine.
//!
//! stdin: pieces separated by a line that is exactly `;;;---`.  For every piece one result line is
//! printed: `=> ok <values, written with steel's Display, separated by U+001F>` or
//! `=> err <ErrorKind> <message first line>`.  Script output goes to stdout unchanged, in order.
//! A panic inside the engine is caught and reported as `=> panic <message>`.
use std::io::Read;
use std::panic::{catch_unwind, AssertUnwindSafe};

fn main() {
    let args: Vec<String> = std::env::args().collect();
    let cmd = args.get(1).map(|s| s.as_str()).unwrap_or("eval");
    match cmd {
        "eval" => eval(),
        "disasm" => disasm(),
        other => {
            eprintln!("vh: unknown command {other}");
            std::process::exit(2)
        }
    }
}

fn eval() {
    let mut src = String::new();
    std::io::stdin().read_to_string(&mut src).unwrap();
    if std::env::var("VH_KEEP_HOOK").is_err() {
        std::panic::set_hook(Box::new(|_| {}));
    }
    let mut engine = steel::steel_vm::engine::Engine::new();
    for piece in src.split("\n;;;---\n") {
        let piece = piece.to_string();
        let r = catch_unwind(AssertUnwindSafe(|| engine.compile_and_run_raw_program(piece)));
        use std::io::Write;
        std::io::stdout().flush().ok();
        match r {
            Ok(Ok(vals)) => {
                let s: Vec<String> = vals.iter().map(|v| format!("{}", v)).collect();
                println!("=> ok {}", s.join("\u{1f}"));
            }
            Ok(Err(e)) => {
                let msg = format!("{}", e);
                println!("=> err {}", msg.lines().next().unwrap_or(""));
            }
            Err(p) => {
                let msg = if let Some(s) = p.downcast_ref::<String>() {
                    s.clone()
                } else if let Some(s) = p.downcast_ref::<&str>() {
                    s.to_string()
                } else {
                    "?".to_string()
                };
                println!("=> panic {}", msg.lines().next().unwrap_or(""));
            }
        }
        if std::env::var("VH_RSS").is_ok() {
            // resident memory now and its high-water mark (kB), for the constant-space checks
            let status = std::fs::read_to_string("/proc/self/status").unwrap_or_default();
            let field = |name: &str| -> String {
                status
                    .lines()
                    .find(|l| l.starts_with(name))
                    .and_then(|l| l.split_whitespace().nth(1))
                    .unwrap_or("0")
                    .to_string()
            };
            println!("## rss_kb={} hwm_kb={}", field("VmRSS:"), field("VmHWM:"));
        }
    }
}

/// `vh disasm`: evaluate every piece but the last, then print the bytecode listing of the last one.
fn disasm() {
    let mut src = String::new();
    std::io::stdin().read_to_string(&mut src).unwrap();
    let mut engine = steel::steel_vm::engine::Engine::new();
    let pieces: Vec<String> = src.split("\n;;;---\n").map(|s| s.to_string()).collect();
    for (i, piece) in pieces.iter().enumerate() {
        if i + 1 < pieces.len() {
            if let Err(e) = engine.compile_and_run_raw_program(piece.clone()) {
                println!("=> err {}", e);
            }
        } else {
            match engine.emit_raw_program_no_path(piece.clone()) {
                Ok(p) => match engine.debug_build_strings(p) {
                    Ok(v) => {
                        for s in v {
                            println!("{}\n----", s);
                        }
                    }
                    Err(e) => println!("=> err {}", e),
                },
                Err(e) => println!("=> err {}", e),
            }
        }
    }
}
