#!/bin/sh
# usage: runchecks.sh C01 C02 ...  -> runs quick checks sequentially, prints one summary line each
cd /verif
for p in "$@"; do
  timeout 2400 ./check $p --tier quick </dev/null > .build/run-$p.log 2>&1; rc=$?
  echo "RUN $p rc=$rc viol=$(grep -c '^VIOLATION' .build/run-$p.log) known=$(grep -c '^KNOWN' .build/run-$p.log) $(tail -1 .build/run-$p.log | cut -c1-80)"
  grep '^VIOLATION' .build/run-$p.log | cut -c1-200 | head -5
done
