#!/usr/bin/env python3
"""Run checks against a seeded change without touching /repo or /verif.

    python3 tools/seedrun.py <patch.diff|-> <PID> [<PID> ...] [--tier quick] [--keep] [--tag name]

Makes a scratch copy of /verif (committed + working files, with the build caches) under /tmp/sr-<tag> and a git
worktree of /repo's HEAD under /tmp/sr-<tag>-repo, applies the patch there ("-" = no patch: control run),
rewrites the absolute paths /verif and /repo in the copy's scripts, harness and translators, runs
`check <PID> --tier <tier>` for each PID in the copy, prints one line per check
(`SEEDRUN <PID> rc=<n> violations=[...] known=[...] wall=<s>`) and removes both scratch trees.

This is the isolated variant of the procedure `git -C /repo apply; ./check; git -C /repo checkout -- .`;
it exists so that seeded changes can be evaluated while other work is building against /repo.
"""
import json
import os
import re
import shutil
import subprocess
import sys
import time

args = sys.argv[1:]
tier, keep, tag = "quick", False, None
pos = []
i = 0
while i < len(args):
    if args[i] == "--tier":
        tier = args[i + 1]; i += 2
    elif args[i] == "--keep":
        keep = True; i += 1
    elif args[i] == "--tag":
        tag = args[i + 1]; i += 2
    else:
        pos.append(args[i]); i += 1
patch, pids = pos[0], pos[1:]
tag = tag or ("%d" % os.getpid())
ALT = "/tmp/sr-%s" % tag
ALTREPO = "/tmp/sr-%s-repo" % tag


def sh(cmd, **kw):
    return subprocess.run(cmd, shell=True, text=True, capture_output=True, **kw)


def cleanup():
    sh("git -C /repo worktree remove --force %s" % ALTREPO)
    shutil.rmtree(ALTREPO, ignore_errors=True)
    shutil.rmtree(ALT, ignore_errors=True)
    sh("git -C /repo worktree prune")


cleanup()
r = sh("git -C /repo worktree add --detach %s HEAD" % ALTREPO)
if r.returncode != 0:
    print("SEEDRUN setup failed: worktree: " + r.stderr); sys.exit(2)
if patch != "-":
    r = sh("git -C %s apply %s" % (ALTREPO, os.path.abspath(patch)))
    if r.returncode != 0:               # the tree has moved on since the change was made: merge it
        r = sh("git -C %s apply --3way %s" % (ALTREPO, os.path.abspath(patch)))
    if r.returncode != 0:
        print("SEEDRUN setup failed: patch does not apply: " + r.stderr); cleanup(); sys.exit(2)
# copy /verif (no .git, no evidence history needed); keep build caches
r = sh("rsync -a --exclude .git --exclude 'seeded' --exclude '.build/C*' --exclude '.build/*.log' /verif/ %s/" % ALT)
if r.returncode not in (0, 24):          # 24 = files vanished while copying (other builds running): harmless
    print("SEEDRUN setup failed: rsync: " + r.stderr); cleanup(); sys.exit(2)
# rewrite absolute paths in scripts, harness and translators of the copy
pat = re.compile(r"/verif(?![A-Za-z0-9_-])")
pat2 = re.compile(r"/repo(?![A-Za-z0-9_-])")
for root, dirs, files in os.walk(ALT):
    rel = os.path.relpath(root, ALT)
    if rel.startswith(".build") or rel.startswith(os.path.join("lean", ".lake")) or rel.startswith("evidence"):
        dirs[:] = []
        continue
    for fn in files:
        if not (fn.endswith((".py", ".rs", ".toml", ".sh")) or fn == "check"):
            continue
        p = os.path.join(root, fn)
        try:
            s = open(p).read()
        except (UnicodeDecodeError, OSError):
            continue
        t = pat2.sub(ALTREPO, pat.sub(ALT, s))
        if t != s:
            open(p, "w").write(t)
os.makedirs(os.path.join(ALT, ".build"), exist_ok=True)
env = dict(os.environ, CARGO_NET_OFFLINE="true", VERIF_TIER=tier)
worst = 0
for pid in pids:
    t0 = time.time()
    r = subprocess.run("timeout 3600 ./check %s --tier %s </dev/null" % (pid, tier), shell=True, text=True,
                       capture_output=True, cwd=ALT, env=env)
    out = r.stdout + r.stderr
    viol = [l.replace(ALT, "/verif") for l in out.splitlines() if l.startswith("VIOLATION")]
    known = [l[:120] for l in out.splitlines() if l.startswith("KNOWN-FINDING")]
    print("SEEDRUN %s rc=%d wall=%ds violations=%s known=%d" % (pid, r.returncode, time.time() - t0, json.dumps(viol), len(known)))
    for v in viol[:3]:
        m = re.search(r"replay=(\S+)", v)
        if m:
            rp = m.group(1).replace("/verif", ALT, 1)
            if os.path.exists(rp):
                print("  --- %s" % m.group(1))
                print("  " + "\n  ".join(open(rp, errors="replace").read()[:1500].splitlines()[:25]))
    if r.returncode not in (0, 1):
        print("  (tail of output)\n  " + "\n  ".join(out.splitlines()[-15:]))
    worst = max(worst, r.returncode)
    sys.stdout.flush()
if not keep:
    cleanup()
sys.exit(worst)
