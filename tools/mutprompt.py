#!/usr/bin/env python3
"""Print the prompt given to a fresh mutation sub-agent for one property (python3 tools/mutprompt.py C05 /tmp/mut-C05 [n]).
The agent receives only the property text and a scratch worktree, nothing from /verif."""
import json
import sys

pid, wt = sys.argv[1], sys.argv[2]
n = int(sys.argv[3]) if len(sys.argv) > 3 else 3
p = [json.loads(l) for l in open("/verif/properties.jsonl") if json.loads(l)["id"] == pid][0]
print("""You are a software engineer working on mattwparas/steel (an embeddable Scheme in Rust). You have your own scratch git worktree of the repository at %(wt)s (detached HEAD; work ONLY inside it — never touch /repo or /verif, never read anything under /verif). The sandbox has no network; build with `CARGO_NET_OFFLINE=true cargo ... --offline` and ALWAYS set `CARGO_TARGET_DIR=%(wt)s/target` so that all build output stays inside the worktree. Use `timeout` on every command that could hang.

The project promises its users this semantic property:

  %(title)s
  %(statement)s
  It must hold %(q)s.
  Code involved: %(files)s

YOUR TASK: produce %(n)d DIFFERENT, independent changes to the source code (each a separate patch against the worktree's HEAD) that BREAK this property, each of which
  (1) still compiles (whole workspace),
  (2) still passes the project's existing test suite — run it: `cd %(wt)s && CARGO_TARGET_DIR=%(wt)s/target CARGO_NET_OFFLINE=true timeout 3000 cargo nextest run --workspace --no-fail-fast --tool-config-file pb:/w/lib/nextest.toml --profile pb --test-threads 8 --offline` (on the unchanged tree 664 tests pass and exactly these 6 fail: static_site_generator_modules, r5rs_test_suite, r7rs_benchmark_test_suite, r7rs_test_suite, test_runner, syntax_test_suite — the same set must pass/fail with your change),
  (3) looks like a change a developer could plausibly make (an optimisation, a refactoring, a simplification, a "fix" of something else, an off-by-one, a dropped or reordered step, a weakened condition) — not sabotage that announces itself, no new dead code, no comments pointing at the bug,
  (4) needs something SPECIFIC to manifest — a particular interleaving, a crash or fault at a particular point, a multi-step sequence of operations, an unusual input or magnitude, or two cooperating sites that each look fine alone — not something ordinary use or the smoke tests would expose at once,
  (5) comes with a DEMONSTRATION: a small Steel program (run with the `steel` binary: `cargo run --offline -q -p steel-interpreter -- file.scm` or the built target/debug/steel) or a small Rust test/program using the crates' public API, plus the exact command, whose result differs between the changed and the unchanged tree in a way that shows the property is broken (state expected vs. observed). If the manifestation is probabilistic (thread timing), say how many repetitions are needed and make the demonstration loop.
The %(n)d changes should touch different mechanisms / code sites among the files listed above (or closely related ones), so that they are not variants of one another.

DELIVER, inside the worktree, a directory %(wt)s/_mut/ with, for k = 1..%(n)d:
  _mut/m<k>.diff      — the patch, produced with `git diff` (apply-able with `git apply` on the worktree's HEAD),
  _mut/m<k>.demo.*    — the demonstration program/test and, if needed, a small shell script `_mut/m<k>.run.sh` that takes the path of a built tree and runs it,
  _mut/m<k>.md        — what the change is, why a developer might make it, why the tests do not notice, what exactly is needed to manifest it, expected vs. observed output on unchanged vs. changed tree, and the commands you ran (build, tests with the pass/fail counts, demonstration).
Work on one change at a time: make it, build, run the test suite, run the demonstration on the changed tree, `git diff > _mut/m<k>.diff`, `git checkout -- .` (keep _mut/, it is untracked), run the demonstration on the unchanged tree. Leave the worktree at unchanged HEAD (plus _mut/) when you finish. Do not commit. Your final message: one paragraph per change (what, where, how it manifests, test-suite result).""" % {
    "wt": wt, "title": p["title"], "statement": p["statement"], "q": p["quantifier"]["text"],
    "files": ", ".join(p["anchors"]["files"]), "n": n})
