#!/bin/sh
# usage: seedbatch.sh tag id:PID[,PID] ...
cd /verif
tag=$1; shift
for item in "$@"; do
  sid=${item%%:*}; pids=$(echo ${item#*:} | tr ',' ' ')
  python3 tools/seedrun.py seeded/$sid/patch.diff $pids --tag $tag > .build/seed-$sid.log 2>&1
  echo "done $sid: $(grep '^SEEDRUN' .build/seed-$sid.log | cut -c1-300)"
done
