#!/bin/sh
# usage: runthorough.sh C01 C02 ...  -> runs thorough tiers sequentially (40 min cap each), prints one summary line each
cd /verif
for p in "$@"; do
  t0=$(date +%s)
  timeout 2400 ./check $p --tier thorough </dev/null > .build/thorough-$p.log 2>&1; rc=$?
  echo "THOROUGH $p rc=$rc wall=$(( $(date +%s) - t0 ))s viol=$(grep -c '^VIOLATION' .build/thorough-$p.log) known=$(grep -c '^KNOWN' .build/thorough-$p.log) $(tail -1 .build/thorough-$p.log | cut -c1-90)"
  grep '^VIOLATION' .build/thorough-$p.log | cut -c1-200 | head -4
done
