#!/bin/sh
# usage: runsuite.sh <tree>  -> prints pass/fail counts and failing test names
tree=$1
cd $tree
CARGO_TARGET_DIR=$tree/target CARGO_NET_OFFLINE=true timeout 5400 cargo nextest run --workspace --no-fail-fast --tool-config-file pb:/w/lib/nextest.toml --profile pb --test-threads 8 --offline > $tree/_suite.log 2>&1
grep -E '^\s*(Summary|FAIL|SIGABRT|TIMEOUT)' $tree/_suite.log | sort | uniq -c | sort -rn | head -30
tail -3 $tree/_suite.log
