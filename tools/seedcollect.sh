#!/bin/sh
# usage: seedcollect.sh <PID> <worktree> <suffix letter, e.g. n>   -> copies _mut/m<k>.* into seeded/<PID>-<suffix><k>/ and removes the worktree
pid=$1; wt=$2; sfx=${3:-n}
cd /verif
for k in 1 2 3; do
  [ -f $wt/_mut/m$k.diff ] || continue
  d=seeded/$pid-$sfx$k; mkdir -p $d
  cp $wt/_mut/m$k.diff $d/patch.diff
  cp $wt/_mut/m$k.md $d/md 2>/dev/null
  [ -f $wt/_mut/m$k.run.sh ] && cp $wt/_mut/m$k.run.sh $d/run.sh
  for f in $wt/_mut/m$k.demo*; do [ -e "$f" ] && cp -r "$f" $d/$(basename $f | sed "s/^m$k\.//"); done
  ls $d | tr '\n' ' '; echo
done
git -C /repo worktree remove --force $wt; rm -rf $wt; git -C /repo worktree prune
