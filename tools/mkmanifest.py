#!/usr/bin/env python3
"""Regenerate /verif/MANIFEST.json from the META dict of every checks/cNN.py (python3 tools/mkmanifest.py)."""
import importlib
import json
import os
import subprocess
import sys

ROOT = os.path.dirname(os.path.dirname(os.path.abspath(__file__)))
sys.path.insert(0, ROOT)

props = [json.loads(l) for l in open(os.path.join(ROOT, "properties.jsonl"))]
# checks whose META says ready but which the coordinator has not yet seen green on HEAD (one id per line)
HOLD = set(open(os.path.join(ROOT, "tools", "HOLD")).read().split()) if os.path.exists(os.path.join(ROOT, "tools", "HOLD")) else set()
checks, na = [], []
for p in props:
    pid = p["id"]
    path = os.path.join(ROOT, "checks", pid.lower() + ".py")
    meta = None
    if os.path.exists(path):
        mod = importlib.import_module("checks." + pid.lower())
        meta = getattr(mod, "META", None)
    if not meta or not meta.get("ready") or pid in HOLD:
        na.append({"property_id": pid, "reason": "not claimed: no check has been built for this property yet (the technique applies, see DESIGN.md section 7)"})
        continue
    checks.append({
        "property_id": pid,
        "quick_cmd": "./check %s --tier quick" % pid,
        "thorough_cmd": "./check %s --tier thorough" % pid,
        "evidence_file": "/verif/evidence/%s.json" % pid,
        "replay_cmd_template": "./check %s --replay {path}" % pid,
        "engine": "lean4+harness",
        "level_claimed": {"category": meta.get("category", "proof"), "text": meta["level_text"],
                          "design_ref": "DESIGN.md section 7 (%s)" % pid},
        "level_note": meta["level_note"],
        "technique": meta["technique"],
    })

hooks = subprocess.run(["git", "-C", "/repo", "log", "--format=%h %s"], capture_output=True, text=True).stdout
hook_commits = [l.split()[0] for l in hooks.splitlines() if "verif hooks" in l]
manifest = {
    "version": 1,
    "setup_cmd": "./setup.sh",
    "hooks": {
        "guard": "steel_verif",
        "enable": "RUSTFLAGS=\"--cfg steel_verif\" (set in /verif/harness/.cargo/config.toml; only the harness build uses it)",
        "baseline_off_cmd": "cd /repo && cargo nextest run --workspace --no-fail-fast --tool-config-file pb:/w/lib/nextest.toml --profile pb --test-threads 8 --offline",
        "source_commits": hook_commits,
        "add_only": True,
    },
    "engines": [
        {"name": "lean4+harness", "path": "/verif/lean + /verif/harness + /verif/check",
         "serves_properties": [c["property_id"] for c in checks],
         "kind_free_text": "Lean 4 model + theorems (lake build, #print axioms audit) tied to /repo by a Rust harness that runs the real code and a compiled Lean driver that runs the model on the same line-protocol input"}
    ],
    "checks": checks,
    "not_applicable": na,
    "notes": "Every check: prove (lake build of SteelVerif.<id>.Props + axiom audit) -> correspond (real code vs model) -> decide with the specification as oracle -> evidence. See DESIGN.md.",
}
json.dump(manifest, open(os.path.join(ROOT, "MANIFEST.json"), "w"), indent=1)
print("checks:", [c["property_id"] for c in checks], "not claimed:", len(na))
