#!/usr/bin/env python3
"""Write seeded/<id>/meta.json from seeded/INDEX.tsv (id, property, change, needs, result) and the latest seedrun logs."""
import json, os, re
ROOT = os.path.dirname(os.path.dirname(os.path.abspath(__file__)))
for line in open(os.path.join(ROOT, "seeded", "INDEX.tsv")):
    line = line.rstrip("\n")
    if not line.strip():
        continue
    sid, prop, change, needs, result = line.split("\t")
    d = os.path.join(ROOT, "seeded", sid)
    if not os.path.isdir(d):
        continue
    log = os.path.join(ROOT, ".build", "seed-%s.log" % sid)
    last = [l.strip() for l in open(log) if l.startswith("SEEDRUN")] if os.path.exists(log) else []
    meta = {
        "id": sid, "breaks_property": prop, "change": change, "needs_to_manifest": needs,
        "files": sorted(os.listdir(d)),
        "produced_by": "a fresh sub-agent given only the property text and a scratch worktree of /repo (tools/mutprompt.py)",
        "confirmed": "the agent's build + full nextest run (664 pass, the 6 baseline failures) and demonstration on changed vs unchanged tree are in `md`; "
                     "the patch was re-applied to a fresh worktree of /repo HEAD by tools/seedrun.py (plain or --3way), the harness rebuilt against it and the check run",
        "ran": "python3 tools/seedrun.py seeded/%s/patch.diff %s   (isolated copy of /verif + worktree of /repo; equivalent to git -C /repo apply; ./check; git -C /repo checkout -- .)" % (sid, prop),
        "result": result,
        "last_seedrun": [re.sub(r"violations=\[(.{0,300}).*", r"violations=[\1 …", l) for l in last],
    }
    json.dump(meta, open(os.path.join(d, "meta.json"), "w"), indent=1)
    print(sid, "ok")

# regenerate the table of DESIGN.md section 10.5
dp = os.path.join(ROOT, "DESIGN.md")
d = open(dp).read()
head = "### 10.5 Seeded changes"
i = d.index(head)
rows = []
for line in open(os.path.join(ROOT, "seeded", "INDEX.tsv")):
    f = line.rstrip("\n").split("\t")
    if len(f) == 5:
        rows.append("| %s | %s | %s | %s |" % (f[0], f[2].replace("|", "\\|"), f[3].replace("|", "\\|"), f[4].replace("|", "\\|")))
caught_first = sum(1 for r in rows if "first run" in r and "MISSED" not in r)
text = (head + " — which checks catch which changes\n\n"
        "Every change below was written by a fresh sub-agent that saw only the property text and a scratch worktree (never /verif),\n"
        "compiles, passes the 664-test baseline with the same six failures, and comes with a demonstration (`seeded/<id>/`: `patch.diff`,\n"
        "demo, `md`, `meta.json`). Each was evaluated with `tools/seedrun.py` (an isolated copy of /verif against a worktree of /repo HEAD\n"
        "with the patch applied - equivalent to `git -C /repo apply; ./check; git -C /repo checkout -- .`, usable while other work builds\n"
        "against /repo). \"MISSED\" means the quick tier exited 0 on the changed tree; the check was then strengthened in general terms\n"
        "(a new input family, a new observable, a new translator obligation - never a copy of the demonstration) and re-evaluated.\n"
        "%d changes so far, %d caught by the first run.\n\n"
        "| id | change | needs | result |\n|----|--------|-------|--------|\n" % (len(rows), caught_first) + "\n".join(rows) + "\n")
open(dp, "w").write(d[:i] + text)
