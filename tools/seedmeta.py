#!/usr/bin/env python3
"""Write seeded/<id>/meta.json from seeded/INDEX.tsv (id, property, change, needs, result) and the latest seedrun logs."""
import json, os, re
ROOT = os.path.dirname(os.path.dirname(os.path.abspath(__file__)))
for line in open(os.path.join(ROOT, "seeded", "INDEX.tsv")):
    line = line.rstrip("\n")
    if not line.strip():
        continue
    sid, prop, change, needs, result = line.split("\t")
    d = os.path.join(ROOT, "seeded", sid)
    if not os.path.isdir(d):
        continue
    log = os.path.join(ROOT, ".build", "seed-%s.log" % sid)
    last = [l.strip() for l in open(log) if l.startswith("SEEDRUN")] if os.path.exists(log) else []
    meta = {
        "id": sid, "breaks_property": prop, "change": change, "needs_to_manifest": needs,
        "files": sorted(os.listdir(d)),
        "produced_by": "a fresh sub-agent given only the property text and a scratch worktree of /repo (tools/mutprompt.py)",
        "confirmed": "the agent's build + full nextest run (664 pass, the 6 baseline failures) and demonstration on changed vs unchanged tree are in `md`; "
                     "the patch was re-applied to a fresh worktree of /repo HEAD by tools/seedrun.py (plain or --3way), the harness rebuilt against it and the check run",
        "ran": "python3 tools/seedrun.py seeded/%s/patch.diff %s   (isolated copy of /verif + worktree of /repo; equivalent to git -C /repo apply; ./check; git -C /repo checkout -- .)" % (sid, prop),
        "result": result,
        "last_seedrun": [re.sub(r"violations=\[(.{0,300}).*", r"violations=[\1 …", l) for l in last],
    }
    json.dump(meta, open(os.path.join(d, "meta.json"), "w"), indent=1)
    print(sid, "ok")
