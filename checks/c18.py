"""C18 — arbitrarily deep, wide or cyclic values are handled without exhausting the host.

translate  : translate/c18_traversals.py regenerates lean/SteelVerif/C18/GenTraversals.lean: for every (operation, value
             kind) how the code traverses it — worklist, native recursion below an explicit depth limit, unbounded native
             recursion — scanned from rvals.rs / rvals/cycles.rs / values/closed.rs / values/lists.rs / steel_vm/vm/threads.rs
             and compared with a hand table; plus the configuration flags of the model (which pairs the equality worklist
             enters into `visited`, which kinds the marker / the cycle collector track).
prove      : lake build SteelVerif.C18.Props + GenTraversals + axiom audit.
correspond : the REAL engine (harness c18), one child process per case: a shape (chain of one container kind, mixed chain,
             wide value, shared dag, cycle through mutable containers) at a depth, one operation (create, equal?, hash,
             display/write, host Display/Debug, send to a thread, thread result, full collection, drop, serialize), on the
             8 MiB main thread and on a 2 MiB thread, with a time bound.  Verdict: the process survives, finishes within the
             bound, and prints what the specification S says (the Lean driver computes S on the same graph: structural
             result of equal?, the printed text under the documented depth-limit rule; for cyclic values: a boolean).
oracle     : S.  The model M (driver) says for every case whether the code's traversal is a worklist or native recursion and
             which table entry is responsible; a failing case is attributed to an open finding only if M predicts that failure
             for it and the responsible class is listed.
"""
import os
import random
import re
import resource
import subprocess
import time

from . import common as C

PID = "C18"
META = {
    "ready": True,
    "category": "proof",
    "technique": "Lean 4 termination / native-depth / heap-space theorems for the traversal algorithms over arbitrary, possibly cyclic value graphs: the worklist visitors as a machine with an explicit native call stack (marker, cycle collector), the loop models (equality worklist incl. nested key comparison, marker, cycle collector, drop handler, sweep), the recursive ones (hash, Display with depth counter and cycle table, prelude printer, serialize-value, drop glue) + traversal table, model configuration AND CALL GRAPH of the visitor code regenerated from the source (no path from a visit_* method back into a visit loop; longest chain of nested calls) + the real engine on deep / wide / shared / cyclic shapes and on construction primitives with 10^6 elements, one child process per (shape, operation, size, stack)",
    "level_text": "Theorems (lean/SteelVerif/C18/Props.lean) about the model M of the traversals, for ALL graphs (any depth, width, sharing, cycles; indices unrestricted). Native stack: machine_native_stack_bounded - the visitor machine mStep (one frame per active call visit -> visit_<kind> -> mark_heap_reference/add -> push_back, queue and marks as heap state) never holds more than 4 frames in any reachable state, for every graph, child order, tracked set; marker_loop_is_machine_run - every round of the marker's loop model is a run of that machine from loop head to loop head; iterative_constant_depth - nativeDepth (for mark/collect: MEASURED on the machine) <= 4 for every worklist operation; worklist_native_stack_scanned - in the call graph regenerated from the source every chain of nested calls below the visit of the marker, its parallel copy, the cycle collector and the drop handler is <= 5 deep (call_chain_bounded: an acyclic call graph bounds every call chain; worklist_call_graphs_acyclic by decide: a recursive path between visitor methods breaks it). Heap space: worklist_space_linear (queue <= |roots|+|edges| in every reachable state and termination within |roots|+|edges|+1 rounds, when every container is marked; _partial for the code as it is on values without immutable containers), drop_worklist_space_linear (every graph). print_depth_bounded - Display stays below the depth limit 128 when no hash map / hash set is printed; print_output_finite - the second printing phase with the cycle table returns a finite text within 129 frames for every graph and every label table; prelude_print_terminates_partial / not_prelude_print_terminates (K18k: the labelled slot of a mutable struct field is never seen by print.scm). eq_terminates_cyclic / eq_nested_terminates_current (every level of nested key comparison) / mark_terminates_cyclic / print_terminates_cyclic - the worklists with a visited set end on every graph within polynomially many rounds when every descending arm is checked / every container is marked; sweep_frees_exactly_unmarked, collect_frees_exactly_unmarked (unreached cycles of heap slots are reclaimed), rc_cycle_leaked (cycles of strong boxes are not); drop_terminates, drop_frees_all_acyclic; recursive_depth_linear / no_constant_bound_hash (D7/K18a), serialize_depth_linear / no_constant_bound_serialize (K18e), hash_chain_overflows, hash_cycle_overflows, drop_depth_linear (K18f), print_depth_linear_maps (K18b), eq_key_depth_linear + eq_reenters_itself_scanned (K18d: the re-entry of == is a cycle of the scanned call graph). The full termination statements are FALSE for the code as it is (Cfg.current, flags regenerated from the source: cfg_current_is_scanned): partial statements under decidable guards (eq_terminates_cyclic_partial, mark_terminates_cyclic_partial, print_terminates_cyclic_partial) and negations from families of graphs (not_eq_terminates_cyclic, not_mark_terminates_cyclic, not_print_terminates_cyclic, mark_not_polynomial, print_box_ring_unbounded). Table obligations by decide over GenTraversals.lean: all_ops_classified, no_unbounded_recursion_partial, known_recursive_present, worklists_do_not_recurse (now also fails when a visit_* method reaches visit through other methods), worklist_chain_depths, scanned_kind_sets. What is NOT a theorem: that the Rust code is the model - that is the scan plus the run of the real engine: every shape x operation x size x stack in its own child process (8 MiB main thread, 2 MiB thread, CPU bound), verdict = survival + termination + result lines and printed text equal to what the driver computes from S on the same graph; construction primitives (apply list/vector/hash, map, append, list->vector, transduce, sort ...) on 10^6 elements with the element count as S; serialize-value on every cycle; the machine against the loop model on every generated shape.",
    "level_note": "Trusted: Lean kernel (axioms propext, Classical.choice, Quot.sound), the harness / python comparison, translate/c18_traversals.py (regex / brace matching over impl Hash, format_with_cycles, RecursiveEqualityHandler::visit, the visitors, drop_impls, channel_send, into_serializable_value; call graph: self.m(..), Self::m(..), Type::m(..), calls on locals / parameters of a visitor type, a visitor handed to a function = all functions of that name in the crate, one node per impl/trait; NOT seen: closures, drop glue of temporaries, a function calling its own name on a value of its own type). Modelled, not verified: native frame sizes (the model counts frames; the run says whether 8 / 2 MiB are exceeded at 10^3, 10^5, 10^6), wall-clock time (quadratic re-entrant printing shows as a timeout; (apply append <n lists>) is quadratic and asked at 10^4 only), construction of values (run only), custom types, transducers, continuations, syntax objects as value kinds (classified in the table and the call graph, not exercised), the cycle collector machine vs its loop model (compared by the check, no simulation theorem), reachability = marked set (C04). Failing cases are attributed to an open finding class only if the model predicts that failure for that case through the flag the class stands for.",
}

BIN = "c18"
MAIN_STACK = 8 * 1024 * 1024
THREAD_STACK = 2 * 1024 * 1024

# --------------------------------------------------------------------------------------------------------------------
# shapes: name -> (wrap expression over `acc`, base value, kind tag used by the model)
PRELUDE = (
    "(struct node (next) #:transparent)\n"
    "(struct mnode (next) #:mutable #:transparent)\n"
)
CHAINS = {
    "list": ("(list acc)", "0"),
    "pair-car": ("(cons acc 1)", "0"),
    "pair-cdr": ("(cons 1 acc)", "0"),
    "mvec": ("(vector acc)", "0"),
    "ivec": ("(immutable-vector acc)", "0"),
    "map-value": ("(hash 'k acc)", "0"),
    "map-key": ("(hash acc 1)", "0"),
    "set": ("(hashset acc)", "0"),
    "struct": ("(node acc)", "0"),
    "mstruct": ("(mnode acc)", "0"),
    "box": ("(box acc)", "0"),
    "sbox": ("(box-strong acc)", "0"),
    "closure": ("(let ((a acc)) (lambda () a))", "0"),
    "stream": ("(stream-cons 1 (lambda () acc))", "0"),
}
# a chain that alternates kinds (every kind of the worklists meets every other as a neighbour over the period)
MIX = ["(list 1 acc)", "(vector acc 2)", "(node acc)", "(cons acc 3)", "(box acc)", "(hash 'k acc)", "(immutable-vector acc)",
       "(mnode acc)", "(cons 4 acc)"]


# "Creating": construction primitives applied to huge inputs (name -> (expression over {n}, expression counting the elements of d))
BUILT = {
    "apply-list": ("(apply list (range 0 {n}))", "(length d)"),
    "apply-vector": ("(apply vector (range 0 {n}))", "(vector-length d)"),
    "apply-immutable-vector": ("(apply immutable-vector (range 0 {n}))", "(vector-length d)"),
    "list->vector": ("(list->vector (range 0 {n}))", "(vector-length d)"),
    "vector->list": ("(vector->list (make-vector {n} 7))", "(length d)"),
    "map": ("(map (lambda (x) (list x)) (range 0 {n}))", "(length d)"),
    "append": ("(append (range 0 {n}) (list 1))", "(- (length d) 1)"),
    "reverse": ("(reverse (range 0 {n}))", "(length d)"),
    "apply-hash": ("(apply hash (range 0 (* 2 {n})))", "(hash-length d)"),
    "apply-hashset": ("(apply hashset (range 0 {n}))", "(hashset-length d)"),
    "list->hashset": ("(list->hashset (range 0 {n}))", "(hashset-length d)"),
    "string->list": ("(string->list (make-string {n} #\\a))", "(length d)"),
    "list->string": ("(list->string (map (lambda (x) #\\a) (range 0 {n})))", "(string-length d)"),
    "foldl-cons": ("(foldl cons '() (range 0 {n}))", "(length d)"),
    "transduce": ("(transduce (range 0 {n}) (mapping (lambda (x) x)) (into-list))", "(length d)"),
    "apply-string-append": ("(apply string-append (map (lambda (x) \"ab\") (range 0 {n})))", "(/ (string-length d) 2)"),
    "vector-append": ("(apply vector-append (map (lambda (x) (vector x)) (range 0 {n})))", "(vector-length d)"),
    "sort": ("(sort (range 0 {n}) >)", "(length d)"),
    "filter": ("(filter even? (range 0 (* 2 {n})))", "(length d)"),
    # quadratic in the number of arguments (1 s at 10^4, 11 s at 3*10^4): it ends and uses no native stack; asked at 10^4
    "apply-append": ("(apply append (map list (range 0 {n})))", "(length d)"),
}


def build_src(shape, n, name="d", base=None):
    """Steel source defining global `name` as the shape at depth / width n."""
    if shape.startswith("built:"):
        return "(define %s %s)\n" % (name, BUILT[shape[6:]][0].format(n=n))
    if shape in CHAINS:
        wrap, b = CHAINS[shape]
        b = base if base is not None else b
        return ("(define (nest-%s n acc) (if (= n 0) acc (nest-%s (- n 1) %s)))\n(define %s (nest-%s %d %s))\n"
                % (name, name, wrap, name, name, n, b))
    if shape == "mixed" or shape.startswith("alt:"):
        b = base if base is not None else "0"
        mix = MIX if shape == "mixed" else [CHAINS[k][0] for k in shape[4:].split("+")]
        arms = " ".join("[(= (modulo n %d) %d) %s]" % (len(mix), i, w) for i, w in enumerate(mix))
        return ("(define (wrap-%s n acc) (cond %s [else acc]))\n"
                "(define (nest-%s n acc) (if (= n 0) acc (nest-%s (- n 1) (wrap-%s n acc))))\n(define %s (nest-%s %d %s))\n"
                % (name, arms, name, name, name, name, name, n, b))
    if shape == "dag":
        b = base if base is not None else "0"
        return ("(define (nest-%s n acc) (if (= n 0) acc (nest-%s (- n 1) (list acc acc))))\n(define %s (nest-%s %d (list %s)))\n"
                % (name, name, name, name, n, b))
    if shape == "wide-list":
        return "(define %s (range 0 %d))\n" % (name, n) if base is None else "(define %s (append (range 0 %d) (list %s)))\n" % (name, n - 1, base)
    if shape == "wide-mvec":
        return "(define %s (make-vector %d %s))\n" % (name, n, base if base is not None else "7")
    if shape == "wide-ivec":
        return "(define %s (immutable-vector-push (make-immutable-vector %d 3) %s))\n" % (name, n - 1, base if base is not None else "7")
    if shape == "wide-map":
        return ("(define (fill-%s i m) (if (= i %d) m (fill-%s (+ i 1) (hash-insert m i (list i)))))\n(define %s (fill-%s 0 (hash 'x %s)))\n"
                % (name, n, name, name, name, base if base is not None else "7"))
    if shape == "wide-set":
        return ("(define (fill-%s i m) (if (= i %d) m (fill-%s (+ i 1) (hashset-insert m i))))\n(define %s (fill-%s 0 (hashset 'x (- 0 %s))))\n"
                % (name, n, name, name, name, base if base is not None else "7"))
    if shape == "string":
        return "(define %s (make-string %d #\\%s))\n" % (name, n, "a" if base is None else "b")
    raise KeyError(shape)


# cycles -----------------------------------------------------------------------------------------------------------
# a cycle is a sequence of cells; each cell is a mutable container kind, optionally reached through an immutable connector
CELLS = {
    # kind: (constructor of an empty cell, setter of cell c to value v)
    "box": ("(box 0)", "(set-box! {c} {v})"),
    "sbox": ("(box-strong 0)", "(set-strong-box! {c} {v})"),
    "mvec": ("(vector 0)", "(vector-set! {c} 0 {v})"),
    "mstruct": ("(mnode 0)", "(set-mnode-next! {c} {v})"),
    "closure": ("(let ((next 0)) (lambda msg (if (null? msg) next (set! next (car msg)))))", "({c} {v})"),
}
CONNECT = {
    "": "{v}",
    "list": "(list 1 {v})",
    "ivec": "(immutable-vector {v})",
    "pair": "(cons {v} 1)",
    "struct": "(node {v})",
    "map": "(hash 'k {v})",
}


CONTENT = {"box": "(unbox {c})", "sbox": "(unbox-strong {c})", "mvec": "(vector-ref {c} 0)", "mstruct": "(mnode-next {c})",
           "closure": "({c})"}
OUTER = {"mvec": "(vector {v})", "ivec": "(immutable-vector {v})", "list": "(list {v})", "box": "(box {v})",
         "sbox": "(box-strong {v})", "mstruct": "(mnode {v})"}


def cycle_src(kinds, conns, name, outer=""):
    """Globals name0..name(L-1); cell i points (through connector conns[i]) to cell (i+1) mod L; `name` = cell 0 — or,
    with `outer`, a fresh outer container holding what cell 0 holds (the cycle is entered at that value)."""
    L = len(kinds)
    out = []
    for i, k in enumerate(kinds):
        out.append("(define %s%d %s)" % (name, i, CELLS[k][0]))
    for i, k in enumerate(kinds):
        tgt = "%s%d" % (name, (i + 1) % L)
        out.append(CELLS[k][1].format(c="%s%d" % (name, i), v=CONNECT[conns[i]].format(v=tgt)))
    if outer:
        out.append("(define %s %s)" % (name, OUTER[outer].format(v=CONTENT[kinds[0]].format(c=name + "0"))))
    else:
        out.append("(define %s %s0)" % (name, name))
    return "\n".join(out) + "\n"


def cycle_name(kinds, conns, outer=""):
    return "cycle:" + ",".join(k + ("/" + c if c else "") for k, c in zip(kinds, conns)) + ("@" + outer if outer else "")


def necklaces(alphabet, L):
    """All sequences of length L over alphabet, one representative per rotation class."""
    seen, out = set(), []

    def rec(prefix):
        if len(prefix) == L:
            rots = [tuple(prefix[i:] + prefix[:i]) for i in range(L)]
            key = min(rots)
            if key not in seen:
                seen.add(key)
                out.append(list(key))
            return
        for a in alphabet:
            rec(prefix + [a])
    rec([])
    return out


# operations ---------------------------------------------------------------------------------------------------------
SEP = "\n;;;---\n"


def op_pieces(op, shape, n):
    """Returns (pieces, expected) — pieces after the prelude; expected: dict of what S says about the `R ` lines."""
    cyc = shape.startswith("cycle:")
    if cyc:
        spec, _, outer = shape[6:].partition("@")
        kinds = [x.split("/")[0] for x in spec.split(",")]
        conns = [(x.split("/") + [""])[1] for x in spec.split(",")]
        mk = lambda nm, base=None: cycle_src(kinds, conns, nm, outer)      # noqa: E731
    else:
        mk = lambda nm, base=None: build_src(shape, n, nm, base)   # noqa: E731
    R = lambda e: "(begin (simple-display \"R \") (simple-display %s) (newline))" % e   # noqa: E731
    if op == "create":
        return [mk("d"), R("\"built\"")], {"R": ["built"]}
    if op == "create-count":
        # S: the constructed value has exactly the n elements it was built from
        return [mk("d"), R(BUILT[shape[6:]][1])], {"R": [str(n)]}
    if op == "equal-copy":
        return [mk("d"), mk("e"), R("(equal? d e)")], {"R": ["BOOL" if cyc else "#true"]}
    if op == "equal-self":
        return [mk("d"), R("(equal? d d)")], {"R": ["#true"]}
    if op == "equal-diff":
        return [mk("d"), mk("e", "5"), R("(equal? d e)")], {"R": ["#false"]}
    if op == "host-eq":
        return [mk("d"), mk("e"), ";;;host-eq d e"], {"eq": "BOOL" if cyc else "true"}
    if op == "hash-key":
        return [mk("d"), "(define h (hash d 1))", R("(hash-ref h d)")], {"R": ["1"]}
    if op == "hash-set":
        return [mk("d"), "(define h (hashset d))", R("(hashset-contains? h d)")], {"R": ["#true"]}
    if op == "hash-code":
        return [mk("d"), R("(int? (hash-code d))")], {"R": ["#true"]}
    if op == "host-hash":
        return [mk("d"), ";;;host-hash d"], {"hash": "ok"}
    if op == "display-port":
        return [mk("d"), "(define o (open-output-string))\n(display d o)\n(define s (get-output-string o))", ";;;host-string s"], {"text": "display"}
    if op == "write-port":
        return [mk("d"), "(define o (open-output-string))\n(write d o)\n(define s (get-output-string o))", ";;;host-string s"], {"text": "write"}
    if op == "print-port":
        return [mk("d"), "(define o (open-output-string))\n(print d o)\n(define s (get-output-string o))", ";;;host-string s"], {"text": "print"}
    if op == "host-display":
        return [mk("d"), ";;;host-display d"], {"text": "hostdisplay"}
    if op == "host-debug":
        return [mk("d"), ";;;host-debug d"], {"text": "hostdebug"}
    if op == "send-channel":
        return [mk("d"),
                "(define ch (channels/new))\n(define back (channels/new))\n"
                "(define t (spawn-native-thread (lambda () (let ((v (channel/recv (channels-receiver ch)))) "
                "(channel/send (channels-sender back) (equal? v v)) 7))))\n"
                "(channel/send (channels-sender ch) d)\n(define got (channel/recv (channels-receiver back)))\n(define j (thread-join! t))",
                R("(list got j)")], {"R": ["(#true 7)"]}
    if op == "thread-result":
        # the thread builds the value itself and returns it
        return [_thread_result_src(mk("d")), R("(equal? r r)")], {"R": ["#true"]}
    if op == "gc-live":
        return [mk("d"), "(#%gc-collect)", R("(equal? d d)")], {"R": ["#true"]}
    if op == "gc-dead":
        return [mk("d"), "(set! d #f)", "(#%gc-collect)", R("\"collected\"")], {"R": ["collected"]}
    if op == "drop":
        return [mk("d"), "(set! d #f)", R("\"dropped\"")], {"R": ["dropped"]}
    if op == "host-drop":
        return [mk("d"), ";;;host-take d", "(set! d #f)", ";;;host-release", R("\"released\"")], {"R": ["released"]}
    if op == "serialize":
        return [mk("d"), "(define s (serialize-value d))", R("\"serialized\"")], {"R": ["serialized"]}
    raise KeyError(op)


def _thread_result_src(build):
    """`build` defines global d; turn it into a thunk run by the thread: the defines become local."""
    lines = build.strip().split("\n")
    inner = "\n".join(lines)
    return "(define t (spawn-native-thread (lambda () %s d)))\n(define r (thread-join! t))" % inner


# (create-count belongs to the `built:` shapes only)
OPS_ALL = ["create", "equal-copy", "equal-self", "equal-diff", "host-eq", "hash-key", "hash-set", "hash-code", "host-hash",
           "display-port", "write-port", "print-port", "host-display", "host-debug", "send-channel", "thread-result",
           "gc-live", "gc-dead", "drop", "host-drop", "serialize"]


MODS = os.path.join(C.BUILD, "C18", "mods")
MOD_BASE = {"mod-create": "create", "mod-equal-copy": "equal-copy", "mod-hash-code": "hash-code", "mod-display-len": "display-port",
            "mod-gc-dead": "gc-dead", "mod-drop": "drop"}


def program(shape, op, n):
    if op in MOD_BASE:
        # the same operation inside a file that is `require`d: module-level code is compiled (and jit compiled) along
        # other paths than top-level forms
        if op == "mod-display-len":
            mk = build_src(shape, n, "d")
            pieces = [mk, "(define o (open-output-string))\n(display d o)",
                      "(begin (simple-display \"R \") (simple-display (string-length (get-output-string o))) (newline))"]
            exp = {"R": ["INT"]}
        else:
            pieces, exp = op_pieces(MOD_BASE[op], shape, n)
        body = PRELUDE + "\n".join(pieces) + "\n"
        os.makedirs(MODS, exist_ok=True)
        import hashlib
        path = os.path.join(MODS, "m%s.scm" % hashlib.sha1(body.encode()).hexdigest()[:16])
        if not os.path.exists(path):
            with open(path, "w") as f:
                f.write(body)
        return ";; module file %s:\n%s(require \"%s\")\n" % (path, "".join(";;   " + l + "\n" for l in body.split("\n")[:40]), path), exp
    pieces, exp = op_pieces(op, shape, n)
    return PRELUDE + SEP.join(pieces) + "\n", exp


# running ------------------------------------------------------------------------------------------------------------
MEM_LIMIT = 6 * 1024 * 1024 * 1024


def _limits(cpu=None):
    def f():
        resource.setrlimit(resource.RLIMIT_STACK, (MAIN_STACK, MAIN_STACK))
        resource.setrlimit(resource.RLIMIT_CORE, (0, 0))
        # a traversal that eats memory fails in its own process instead of inviting the kernel's OOM killer
        resource.setrlimit(resource.RLIMIT_AS, (MEM_LIMIT, MEM_LIMIT))
        if cpu:
            # the time bound is CPU time (SIGXCPU): the verdict does not depend on how loaded the machine is
            resource.setrlimit(resource.RLIMIT_CPU, (cpu, cpu + 5))
    return f


def _bin():
    # VERIF_C18_BIN: a harness built against a patched tree (used to try proposed repairs), never set by `check`
    return os.environ.get("VERIF_C18_BIN") or C.bin_path(BIN)


def _mode(stack):
    return "main" if stack == "main" else "thread:%d" % THREAD_STACK


def run_case(src, stack, bound):
    """One child process; `bound` = seconds of CPU time (wall-clock cap 8 x bound + 30 s for a blocked process).
    Returns dict(status, lines, rc, stderr, secs). status: end | died | timeout."""
    t = time.time()
    try:
        p = subprocess.run([_bin(), _mode(stack)], input=src.encode(), stdout=subprocess.PIPE, stderr=subprocess.PIPE,
                           timeout=bound * 8 + 30, preexec_fn=_limits(bound))
        out, err, rc = p.stdout.decode(errors="replace"), p.stderr.decode(errors="replace"), p.returncode
        if rc in (-24, -9) and "overflow" not in err and not out.rstrip().endswith("=== end"):
            status = "timeout"       # SIGXCPU (or the hard limit's SIGKILL)
        else:
            status = "end" if out.rstrip().endswith("=== end") and rc == 0 else "died"
    except subprocess.TimeoutExpired as ex:
        out = (ex.stdout or b"").decode(errors="replace")
        err, rc, status = "timeout", 124, "timeout"
    return {"status": status, "lines": out.splitlines(), "rc": rc, "stderr": err[-400:], "secs": time.time() - t}


PSEP = "\n;;;===\n"


def run_batch(srcs, stack, secs, groups=None):
    """Many small programs in few processes (harness `batch` mode, CPU-time watchdog of `secs` per program).  Consecutive
    programs of the same group (= same shape) share an engine (`;;;reuse`): the next operation is asked of a freshly built
    value on the engine the previous one left behind; a new group gets a fresh engine.  A program that kills the process or
    trips the watchdog costs one restart (the rest continues on a fresh engine).  Returns a list of result dicts like
    run_case's."""
    n = len(srcs)
    results = [None] * n
    marked = []
    for i, src in enumerate(srcs):
        same = groups is not None and i > 0 and groups[i] == groups[i - 1]
        marked.append((";;;reuse\n" if same else "") + src)
    todo = list(range(n))
    guard = 0
    while todo and guard < n + 5:
        guard += 1
        text = PSEP.join(marked[i] for i in todo)
        t = time.time()
        try:
            p = subprocess.run([_bin(), "batch", _mode(stack), str(secs)], input=text.encode(), stdout=subprocess.PIPE,
                               stderr=subprocess.PIPE, timeout=secs * 25 + 30 + 4 * len(todo), preexec_fn=_limits())
            out, err, rc = p.stdout.decode(errors="replace"), p.stderr.decode(errors="replace"), p.returncode
        except subprocess.TimeoutExpired as ex:
            out, err, rc = (ex.stdout or b"").decode(errors="replace"), "timeout", 124
        cur, buf, done_upto, tearing = None, [], -1, None
        for line in out.splitlines():
            m = re.match(r"=== begin (\d+)$", line)
            if m:
                cur, buf = int(m.group(1)), []
                continue
            m = re.match(r"=== done (\d+)$", line)
            if m and cur is not None:
                results[todo[cur]] = {"status": "end" if "=== end" in buf else "died", "lines": buf, "rc": 0, "stderr": "",
                                      "secs": 0.0}
                done_upto, cur = cur, None
                continue
            m = re.match(r"=== timeout (\d+)$", line)
            if m:
                k = int(m.group(1))
                keep = results[todo[k]]["lines"] + ["=== pieces done"] if tearing is not None and results[todo[k]] else buf
                results[todo[k]] = {"status": "timeout", "lines": keep, "rc": 124, "stderr": "watchdog", "secs": secs}
                done_upto, cur, tearing = max(done_upto, k), None, None
                continue
            m = re.match(r"=== teardown (\d+)$", line)
            if m:
                tearing = int(m.group(1))
                continue
            if line == "=== teardown done":
                tearing = None
                continue
            if cur is not None:
                buf.append(line)
        if cur is not None:
            # the program that was running when the process died
            results[todo[cur]] = {"status": "timeout" if rc == 124 else "died", "lines": buf, "rc": rc, "stderr": err[-400:],
                                  "secs": time.time() - t}
            done_upto = cur
        elif tearing is not None and results[todo[tearing]] is not None:
            # died while the engine of the finished programs was torn down: charged to the last of them
            r = results[todo[tearing]]
            results[todo[tearing]] = {"status": "died", "lines": r["lines"] + ["=== pieces done"], "rc": rc, "stderr": err[-400:],
                                      "secs": time.time() - t}
            done_upto = max(done_upto, tearing)
        if done_upto < 0:
            # nothing ran at all: give up on the first one so that the loop makes progress
            results[todo[0]] = {"status": "died", "lines": [], "rc": rc, "stderr": err[-400:], "secs": time.time() - t}
            done_upto = 0
        todo = todo[done_upto + 1:]
    for i in range(n):
        if results[i] is None:
            results[i] = {"status": "died", "lines": [], "rc": -1, "stderr": "not run", "secs": 0.0}
    return results


def judge(res, exp, want_text=None):
    """Compare one run with what S says.  Returns (verdict, detail): verdict in ok | error-value | crash | timeout | panic | wrong."""
    lines = res["lines"]
    if res["status"] == "timeout":
        done = sum(1 for l in lines if l.startswith("=> "))
        return "timeout", "no answer within the bound (pieces finished: %d)" % done
    if res["status"] == "died":
        st = res["stderr"]
        why = "stack overflow" if "overflowed its stack" in st or "stack overflow" in st else (
            "out of memory" if "memory allocation" in st else (st.strip().splitlines()[-1] if st.strip() else ""))
        where = "teardown" if any(l.startswith("=== pieces done") for l in lines) else "piece %d" % sum(1 for l in lines if l.startswith("=> "))
        return "crash", "process died rc=%s at %s: %s" % (res["rc"], where, why)
    pan = [l for l in lines if l.startswith("=> panic")]
    if pan:
        return "panic", pan[0][:200]
    errs = [l for l in lines if l.startswith("=> err")]
    if errs:
        return "error-value", errs[0][:200]
    if "R" in exp:
        got = [l[2:] for l in lines if l.startswith("R ")]
        want = exp["R"]
        if len(got) != len(want):
            return "wrong", "expected result lines %r, got %r" % (want, got)
        for g, w in zip(got, want):
            if w == "BOOL":
                if g not in ("#true", "#false"):
                    return "wrong", "expected a boolean, got %r" % g
            elif w == "INT":
                if not g.isdigit():
                    return "wrong", "expected a length, got %r" % g[:80]
            elif g != w:
                return "wrong", "expected %r, got %r" % (w, g[:200])
    if "eq" in exp:
        got = [l for l in lines if l.startswith("=> eq ")]
        if not got or (exp["eq"] != "BOOL" and got[0] != "=> eq " + exp["eq"]):
            return "wrong", "expected eq %s, got %r" % (exp["eq"], got)
    if "hash" in exp and not any(l.startswith("=> hash ok") for l in lines):
        return "wrong", "no hash answer"
    if "text" in exp:
        got = [l for l in lines if l.startswith("=> text ")]
        if not got:
            return "wrong", "no text answer"
        if want_text and want_text != "text none":
            g = got[0][3:].split(" ", 3)[:3]
            w = want_text.split(" ", 3)[:3]
            if g != w:
                return "wrong", "printed text differs from S: got %s, S says %s" % (got[0][3:120], want_text[:120])
    return "ok", ""


# the model ----------------------------------------------------------------------------------------------------------
def model_shape(shape):
    if shape.startswith("cycle:"):
        return "ring:" + shape[6:]
    if shape in CHAINS or shape == "mixed" or shape.startswith("alt:"):
        return "chain:" + shape
    if shape == "dag":
        return "dag"
    return None            # wide values: one level, nothing to predict beyond `constant`


# which predictions of the model concern a harness operation (every case ends with the value being dropped)
INVOLVED = {
    "create": [], "create-count": [], "equal-copy": ["eq", "eq-key-depth"], "equal-self": ["eq", "eq-key-depth"], "equal-diff": ["eq", "eq-key-depth"],
    "host-eq": ["eq", "eq-key-depth"], "hash-key": ["hash"], "hash-set": ["hash"], "hash-code": ["hash"], "host-hash": ["hash"],
    "display-port": ["collect", "print-depth", "prelude-print"], "write-port": ["collect", "print-depth"],
    "print-port": ["collect", "print-depth", "prelude-print"],
    "host-display": ["collect", "print-depth"], "host-debug": ["collect", "print-depth"],
    "send-channel": [], "thread-result": [], "gc-live": ["mark"], "gc-dead": ["mark", "drop"], "drop": ["drop"],
    "host-drop": ["drop"], "serialize": ["serialize", "collect", "print-depth"],   # the error message prints the value
}
for _m, _b in MOD_BASE.items():
    INVOLVED[_m] = INVOLVED[_b]
KEYED = ("map-key", "set")      # shapes whose keys are containers: building and looking up hashes and compares the keys

# configuration flag of the model (= what the code lacks) -> finding class.  The classes of repaired defects keep their
# names: they are no longer in KNOWN_FINDINGS.txt, so a failure that the model blames on one of them (the scan found the flag
# off again) is a VIOLATION.
CLASS_OF = {
    "hashIterative": "hash_native_recursion",
    "printMapNoReentry": "display_reenters_display",
    "printBoxNoReentry": "display_reenters_display_boxes",          # repaired by fffa6bd3
    "dropClosureBoxIterative": "drop_native_recursion",
    "dropPairSetIterative": "drop_native_recursion_pairs",            # repaired by 31703dd1
    "eqKeysIterative": "equal_key_reentry",
    "eqBoxVisited": "equal_unchecked_box_pairs",                      # repaired by 35ea4f4c
    "markSboxVisited": "mark_strong_box_cycle",
    "markImmVisited": "mark_shared_immutable_exponential",
    "ccSboxMutable": "cycle_collector_strong_box_cycle",              # repaired by fffa6bd3
    "ccTracksAlways": "cycle_collector_untracked_before_mutable",
    "serialize": "serialize_native_recursion",
    "labels": "display_cycle_label_lookup",                           # repaired by fffa6bd3
}
PRINT_OPS = ("display-port", "write-port", "print-port", "host-display", "host-debug")


def ask_driver(lines):
    rc, out, err = C.run_bin([C.driver_path("c18driver")], "\n".join(lines) + "\n", timeout=600)
    return rc, out.splitlines()


def predictions(shapes):
    """shape -> {model op: (class, cause, small, large)} from the driver (model M with the scanned configuration)."""
    ms = sorted(set(m for m in (model_shape(s) for s in shapes) if m))
    rc, out = ask_driver(["predict " + m for m in ms] + ["table"])
    pred, table = {}, {}
    for l in out:
        m = re.match(r"predict shape=(\S+) op=(\S+) small=(\S+) large=(\S+) class=(\S+) cause=(\S+)", l)
        if m:
            pred.setdefault(m.group(1), {})[m.group(2)] = (m.group(5), m.group(6), m.group(3), m.group(4))
        m = re.match(r"row (\S+) (\S+) (\S+)", l)
        if m:
            table[(m.group(1), m.group(2))] = m.group(3)
    return rc, pred, table


# SteelVal variants a shape is made of (for the table-only operation `serialize`)
VARIANTS_OF = {"list": ["ListV"], "pair-car": ["Pair"], "pair-cdr": ["Pair"], "mvec": ["MutableVector"], "ivec": ["VectorV"],
               "map-value": ["HashMapV"], "map-key": ["HashMapV"], "set": ["HashSetV"], "struct": ["CustomStruct"],
               "mstruct": ["CustomStruct", "HeapAllocated"], "box": ["HeapAllocated"], "sbox": ["Boxed"], "closure": ["Closure"],
               "stream": ["StreamV", "Closure"], "mixed": ["ListV", "MutableVector", "CustomStruct", "Pair", "HeapAllocated", "HashMapV", "VectorV"],
               "dag": ["ListV"], "wide-list": ["ListV"], "wide-mvec": ["MutableVector"], "wide-ivec": ["VectorV"], "wide-map": ["HashMapV"],
               "wide-set": ["HashSetV"], "string": ["StringV"]}


def explain(shape, op, verdict, detail, pred, table):
    """Which finding classes does the model M hold responsible for this failure?  Returns a list of class names
    (empty: the model predicts no failure here)."""
    ms = model_shape(shape)
    p = pred.get(ms, {}) if ms else {}
    causes = []
    involved = list(INVOLVED[op])
    # the value is dropped at the end of every case (engine teardown)
    if "teardown" in detail or MOD_BASE.get(op, op) in ("gc-dead", "drop", "host-drop"):
        involved.append("drop-depth")
    if shape in KEYED:
        involved += ["hash", "eq-key-depth"]
    for mo in involved:
        if mo == "serialize" and "serialize" not in p:
            vs = []
            if shape.startswith("cycle:"):
                vs = ["HeapAllocated", "MutableVector", "CustomStruct", "Closure"]
            elif shape.startswith("alt:"):
                vs = [v for k in shape[4:].split("+") for v in VARIANTS_OF.get(k, [])]
            else:
                vs = VARIANTS_OF.get(shape, [])
            if any(table.get(("serialize", v)) == "recUnbounded" for v in vs):
                causes.append("serialize")
            continue
        if mo not in p:
            continue
        cls, cause = p[mo][0], p[mo][1]
        if cls == "constant" or cause == "-":
            continue
        depth_op = mo in ("hash", "print-depth", "drop-depth", "eq-key-depth", "prelude-print", "serialize")
        if verdict == "crash" and (depth_op or cls == "diverges"):
            causes.append(cause)
        elif verdict == "timeout":
            causes.append(cause)
        elif verdict in ("panic", "wrong") and cls == "diverges":
            causes.append(cause)
        elif verdict == "error-value" and cls == "diverges":
            causes.append(cause)
    if shape.startswith("cycle:") and op in PRINT_OPS and verdict == "panic":
        causes.insert(0, "labels")          # the panic is the label lookup, whatever else is wrong with the value
    out = []
    for c in causes:
        k = CLASS_OF.get(c)
        if k and k not in out:
            out.append(k)
    return out


# the plan -----------------------------------------------------------------------------------------------------------
CYCLE_OPS = ["create", "equal-copy", "equal-self", "host-eq", "hash-code", "display-port", "host-display", "gc-live", "gc-dead",
             "send-channel", "serialize"]


QUICK_CYCLE_OPS = ["equal-copy", "hash-code", "display-port", "host-display", "gc-live", "gc-dead", "serialize"]
# shapes whose Display re-enters Display (quadratic cycle detection): in the quick tier one printing case per shape at 10^5 is
# enough to see the class, every further one only burns its whole time bound
REENTRANT_PRINT = ("mixed", "map-value")


def plan(ctx, rng):
    """List of cases (shape, op, n, stack, bound, batchable)."""
    cases = []
    chains = list(CHAINS) + ["mixed"]
    quick = ctx.quick()
    depths = [1000, 100000] if quick else [1000, 100000, 1000000]
    for n in depths:
        small = n <= 1000
        bound = 6 if quick else (30 if n <= 100000 else 90)       # CPU seconds
        for shape in chains:
            if shape in KEYED and not small:
                ops = ["create"]          # building it is already the failing operation; nothing else can be asked
            elif quick and not small:
                ops = [o for o in OPS_ALL if o not in ("print-port", "host-debug", "host-eq", "hash-set", "host-hash", "equal-self")]
            elif quick:
                ops = [o for o in OPS_ALL if o not in ("print-port", "host-debug", "host-eq", "hash-set", "equal-self")]
            else:
                ops = list(OPS_ALL)
            for op in ops:
                if quick and not small and shape in REENTRANT_PRINT and (
                        (op in PRINT_OPS and op != "host-display") or op == "serialize"):
                    continue
                if n > 100000 and shape in REENTRANT_PRINT and ((op in PRINT_OPS and op not in ("host-display", "display-port"))
                                                                 or op == "serialize"):
                    continue      # quadratic: already hours at 10^6; two printing operations show the class
                size, b = n, bound
                if shape == "pair-car" and op in ("display-port", "print-port") and n >= 100000:
                    # the prelude's printer is quadratic on car-nested pairs (a named let allocates at every level of a deep
                    # recursion): 27 s at 10^5 on an idle machine.  It terminates and uses no native stack: not a C18 failure;
                    # quick asks at 3*10^4, thorough gives it the time.
                    if quick:
                        size = 30000
                    else:
                        if n > 100000:
                            continue
                        b = 600
                if small:
                    stacks = ["thread"] if quick else ["main", "thread"]
                elif quick:
                    stacks = ["main"] + (["thread"] if op in ("create", "drop", "hash-code") or (
                        op == "host-display" and shape not in REENTRANT_PRINT) else [])
                else:
                    stacks = ["main", "thread"]
                for st in stacks:
                    cases.append((shape, op, size, st, b, small))
    # alternations of two and three container kinds: the traversals hand over between kinds at every level
    # (pair-cdr is left out: `(cons 1 <list>)` is a list again, not a Pair)
    base_kinds = ["list", "ivec", "mvec", "pair-car", "struct", "mstruct", "box", "map-value", "closure"]
    alts = ["alt:%s+%s" % (a, b) for i, a in enumerate(base_kinds) for b in base_kinds[i + 1:]]
    alts += ["alt:list+ivec+pair-car", "alt:struct+list+mvec", "alt:ivec+map-value+list", "alt:pair-car+ivec+mstruct",
             "alt:list+box+ivec", "alt:closure+list+ivec"]
    if quick:
        alt_ops = [("drop", "thread"), ("gc-dead", "main"), ("equal-copy", "main"), ("display-port", "main")]
        alt_sizes = [100000]
    else:
        alt_ops = [(o, st) for o in ("create", "drop", "gc-dead", "host-drop", "equal-copy", "equal-diff", "display-port",
                                     "host-display", "gc-live", "send-channel") for st in ("main", "thread")]
        alt_sizes = [100000, 1000000]
    # which kind is outermost decides which drop implementation starts: the reversed order too, for the operations that discard
    rev = ["alt:%s+%s" % (b, a) for i, a in enumerate(base_kinds) for b in base_kinds[i + 1:]]
    for n in alt_sizes:
        for shape in rev:
            for op, st in ([("drop", "thread"), ("gc-dead", "main")] if quick else
                           [(o, st) for o in ("create", "drop", "gc-dead", "host-drop") for st in ("main", "thread")]):
                cases.append((shape, op, n, st, 6 if quick else (30 if n <= 100000 else 90), quick))
    for n in alt_sizes:
        for shape in alts:
            for op, st in alt_ops:
                if op in PRINT_OPS and ("map-value" in shape):
                    continue                      # K18b: one case per tier is enough (chains above)
                if op == "display-port" and "pair" in shape and n >= 100000:
                    continue                      # quadratic prelude printer on nested pairs (see above)
                cases.append((shape, op, n, st, 6 if quick else (30 if n <= 100000 else 90), quick))
    if quick:
        # the deepest tier for a few alternations of kinds that each have an iterative drop of their own
        for shape in ("alt:list+ivec", "alt:ivec+list", "alt:struct+list+mvec", "alt:ivec+map-value+list", "alt:list+ivec+pair-car"):
            for op, st in (("drop", "thread"), ("gc-dead", "main"), ("equal-copy", "thread")):
                cases.append((shape, op, 1000000, st, 30, False))
    # a sample of the same operations as module-level code of a required file
    for shape in ("list", "mvec", "struct", "mstruct", "box", "closure", "pair-car"):
        for op in MOD_BASE:
            if shape == "pair-car" and op == "mod-display-len":
                continue
            for n in ([100000] if quick else [100000, 1000000]):
                for st in (["main"] if quick else ["main", "thread"]):
                    cases.append((shape, op, n, st, 8 if quick else (30 if n <= 100000 else 90), False))
    # shared immutable structure: depth 64 is 2^64 leaves unfolded
    for op in ("create", "equal-copy", "equal-self", "gc-live", "gc-dead", "drop", "send-channel", "hash-code"):
        cases.append(("dag", op, 64 if quick else 200, "main", 5 if quick else 30, False))
    # wide values
    wides = [("wide-list", 10 ** 6), ("wide-mvec", 10 ** 6), ("wide-ivec", 10 ** 6), ("wide-map", 10 ** 5 if quick else 10 ** 6),
             ("wide-set", 10 ** 5 if quick else 10 ** 6), ("string", 10 ** 7)]
    wide_ops = ["create", "equal-copy", "equal-diff", "hash-code", "hash-key", "display-port", "host-display", "send-channel",
                "thread-result", "gc-live", "gc-dead", "drop"]
    for shape, n in wides:
        for op in wide_ops if not quick else ["create", "equal-copy", "hash-code", "host-display", "send-channel", "gc-dead", "drop"]:
            cases.append((shape, op, n, "main", 30 if quick else 90, False))
            if not quick:
                cases.append((shape, op, n, "thread", 90, False))
    # creating: construction primitives on huge inputs
    for b in BUILT:
        n = 10000 if b == "apply-append" else 10 ** 6
        for op in ("create-count", "drop") if quick else ("create-count", "create", "drop", "gc-dead", "equal-copy", "hash-code", "send-channel"):
            for st in (["thread"] if quick else ["main", "thread"]):
                cases.append(("built:" + b, op, n, st, 30 if quick else 90, False))
    # cycles
    cells = list(CELLS)
    maxlen = 3 if quick else 6
    rings = []
    for L in range(1, maxlen + 1):
        if L <= 4:
            rings += [(k, [""] * L) for k in necklaces(cells, L)]
        else:
            for _ in range(60):
                rings.append(([rng.choice(cells) for _ in range(L)], [""] * L))
    # rings whose links pass through immutable connectors
    conns = [c for c in CONNECT if c]
    extra = 12 if quick else 150
    for _ in range(extra):
        L = rng.randint(1, 3 if quick else 6)
        rings.append(([rng.choice(cells) for _ in range(L)], [rng.choice(conns + [""]) for _ in range(L)]))
    # cycles entered through an outer container at the value a cell holds: the node at which the collector re-enters the
    # cycle — the one that gets the label — is then an immutable list / pair / vector of the cycle
    outers = ["mvec", "list", "mstruct"] if quick else list(OUTER)
    inner_cells = ["mvec", "box", "mstruct"] if quick else ["mvec", "box", "mstruct", "sbox"]
    inner_conns = ["list", "pair", "ivec"] if quick else ["list", "pair", "ivec", "struct", "map", ""]
    entered = []
    for o in outers:
        for k in inner_cells:
            for cn in inner_conns:
                entered.append(([k], [cn], o))
                if not quick:
                    for k2 in ("mvec", "box"):
                        entered.append(([k, k2], [cn, "list"], o))
    for kinds, cs, o in entered:
        nm = cycle_name(kinds, cs, o)
        for op in (["display-port", "print-port", "host-display", "equal-copy", "gc-live"] if quick else CYCLE_OPS + ["print-port"]):
            for st in (["thread"] if quick else ["main", "thread"]):
                cases.append((nm, op, len(kinds), st, 2 if quick else 3, True))
    for kinds, cs in rings:
        nm = cycle_name(kinds, cs)
        for op in (QUICK_CYCLE_OPS if quick else CYCLE_OPS):
            for st in (["thread"] if quick else ["main", "thread"]):
                cases.append((nm, op, len(kinds), st, 2 if quick else 3, True))
    return cases


def corpus_cases():
    out = []
    d = os.path.join(C.VERIF, "corpus", PID)
    if os.path.isdir(d):
        for fn in sorted(os.listdir(d)):
            for line in open(os.path.join(d, fn)):
                line = line.strip()
                if not line or line.startswith("#"):
                    continue
                f = line.split()
                if len(f) >= 5:
                    out.append((f[0], f[1], int(f[2]), f[3], int(f[4]), False))
    return out


def replay_text(shape, op, n, stack, bound, src, verdict, detail, classes):
    return (";;! C18 case: shape=%s op=%s size=%d\n;;! stack=%s bound=%d\n;;! verdict: %s — %s\n;;! model: %s\n"
            ";;! replay: ./check C18 --replay <this file>   (pieces are separated by the line ;;;---)\n%s"
            % (shape, op, n, stack, bound, verdict, detail, ", ".join(classes) or "the model predicts no failure here", src))


def run(ctx):
    rng = random.Random(ctx.seed * 1000003 + 18)
    stats = {"cases": 0, "ok": 0, "error_value": 0, "fail": 0, "known": 0, "violations": 0, "text_checked": 0,
             "matrix": {}, "by_class": {}, "samples": [], "slowest": [], "model_disagreements": [], "retried": 0}
    # translate
    rc, out = C.sh(["python3", os.path.join(C.VERIF, "translate", "c18_traversals.py")], timeout=120)
    tr_lines = [l for l in out.splitlines() if l.startswith("c18_traversals:")]
    if rc != 0:
        ctx.violation("C18-translator.txt", "translate/c18_traversals.py failed (rc=%d): the traversal code no longer has the "
                      "shape the scan expects\n%s" % (rc, out[-3000:]), no_input=True)
    pr = C.prove(ctx, PID, ["SteelVerif.C18.GenTraversals", "c18driver"])
    recheck = "not run (thorough tier only)"
    if not ctx.quick() and pr["ok"]:
        with C._Lock("lake"):
            rc2, out2 = C.sh(["lake", "env", "leanchecker", "SteelVerif.C18.Props"], cwd=C.LEAN, timeout=1200)
        recheck = "ok" if rc2 == 0 else "FAILED: " + out2[-500:]
        if rc2 != 0:
            ctx.violation("C18-leanchecker.txt", "leanchecker rejects SteelVerif.C18.Props:\n" + out2[-3000:], no_input=True)
    ok, log = C.build_harness(ctx, [BIN])
    base_cov = {"leanchecker": recheck,"obligations": pr["obligations"], "discharged": pr["discharged"],
                "checker_cmd": "cd lean && lake build SteelVerif.C18.Props && lake env lean SteelVerif/C18/Audit.lean",
                "trusted_base": C.TRUSTED_BASE + ["translate/c18_traversals.py (regex / brace matching over the impls named in its header)"]}
    if not ok or not os.path.exists(C.driver_path("c18driver")):
        ctx.violation("C18-build.txt", "harness or driver does not build:\n" + log + pr["log"][-2000:], no_input=True)
        ctx.coverage = base_cov
        return ctx.finish()

    listed = {k["class"]: k for k in ctx.load_known() if "class" in k}
    known = dict((c, (k.get("id", "?"), k.get("replay", ""))) for c, k in listed.items())

    cases = corpus_cases() + plan(ctx, rng)
    seen, uniq = set(), []
    for c in cases:
        key = c[:4]
        if key not in seen:
            seen.add(key)
            uniq.append(c)
    cases = uniq
    shapes = sorted(set(c[0] for c in cases))
    rc, pred, table = predictions(shapes)
    if rc != 0 or not pred:
        ctx.violation("C18-driver.txt", "the model driver failed (rc=%d)" % rc, no_input=True)
    # the visitor machine (explicit native call stack) against the loop model, on every shape the model can build: same marked
    # set, never more than 4 frames, the queue never longer than 1 + |edges|
    mq = []
    for sh in shapes:
        ms = model_shape(sh)
        if not ms:
            continue
        size = 1 if ms.startswith("ring:") else (10 if ms == "dag" else 300)
        q = "machine %s %d" % (ms, size)
        if q not in mq:
            mq.append(q)
    machine_bad, machine_rows = [], 0
    if mq:
        rc3, out3 = ask_driver(mq)
        for l in out3:
            m = re.match(r"machine shape=(\S+) n=(\d+) same=(\S+) stack=(\d+) queue=(\d+) edges=(\d+) ended=(\S+)", l)
            if not m:
                continue
            machine_rows += 1
            # where the marker of the model does not end (a ring of strong boxes: K18g) only the stack bound is asked
            if m.group(3) != "true" or int(m.group(4)) > 4 or (m.group(7) == "true" and int(m.group(5)) > int(m.group(6)) + 1 and
                                                                 not (set(pred.get(m.group(1), {}).get("mark", ("",))[0:1]) & {"exponential"})):
                machine_bad.append(l)
        if machine_rows != len(mq):
            machine_bad.append("driver answered %d of %d machine queries" % (machine_rows, len(mq)))
    for sh, p_ in pred.items():
        for mo in ("mark-stack", "collect-stack"):
            if mo in p_ and p_[mo][0] != "constant":
                machine_bad.append("predict %s %s: %s" % (sh, mo, p_[mo]))
    if machine_bad:
        ctx.violation("C18-machine.txt", "the visitor machine of the model disagrees with its loop model, or its native stack / queue "
                      "exceeds the proved bounds:\n" + "\n".join(machine_bad[:40]) + "\n", no_input=True)
    # S: expected texts
    TEXT_MODE = {"display-port": "display", "host-display": "host", "write-port": "host"}
    want = {}
    qs = []
    for shape, op, n, st, bound, small in cases:
        if op in TEXT_MODE and model_shape(shape) and (model_shape(shape).startswith("chain:") or op == "display-port"):
            q = "text %s %s %d" % (TEXT_MODE[op], model_shape(shape), n)
            if q not in want:
                want[q] = None
                qs.append(q)
    if qs:
        rc2, out2 = ask_driver(qs)
        for q, l in zip(qs, [l for l in out2 if l.startswith("text ")]):
            want[q] = l
    ctx.log("plan: %d cases, %d shapes, %d expected texts; model predictions for %d shapes" % (len(cases), len(shapes), len(qs), len(pred)))

    # run: batchable cases (small programs) in batches per stack mode, the others one process each
    progs = [program(c[0], c[1], c[2]) for c in cases]
    results = [None] * len(cases)
    batches = {}
    for i, c in enumerate(cases):
        if c[5]:
            batches.setdefault((c[3], c[4]), []).append(i)
    jobs = []
    for (st, bound), idxs in batches.items():
        # same shape next to each other (they share an engine); a batch is a run of whole shapes
        idxs.sort(key=lambda i: (cases[i][0], cases[i][2]))
        size = max(12, (len(idxs) + 2 * C.NCPU - 1) // (2 * C.NCPU))
        k = 0
        while k < len(idxs):
            e = min(len(idxs), k + size)
            while e < len(idxs) and cases[idxs[e]][0] == cases[idxs[e - 1]][0]:
                e += 1
            jobs.append(("batch", st, bound, idxs[k:e]))
            k = e
    singles = [i for i, c in enumerate(cases) if not c[5]]
    # long ones first
    singles.sort(key=lambda i: -cases[i][2])
    for i in singles:
        jobs.append(("single", cases[i][3], cases[i][4], [i]))

    def work(job):
        kind, st, bound, idxs = job
        if kind == "batch":
            rs = run_batch([progs[i][0] for i in idxs], st, bound, groups=[cases[i][0] for i in idxs])
            return [(i, r) for i, r in zip(idxs, rs)]
        i = idxs[0]
        return [(i, run_case(progs[i][0], st, bound))]

    t_run = time.time()
    for part in C.pool_map(work, jobs, workers=C.NCPU):
        for i, r in part:
            results[i] = r
    ctx.log("ran %d cases in %d processes/batches: %.0fs" % (len(cases), len(jobs), time.time() - t_run))

    for i, c in enumerate(cases):
        shape, op, n, st, bound, small = c
        src, exp = progs[i]
        if ("closure" in shape or shape == "stream") and not shape.startswith("cycle:") and op in ("equal-copy", "host-eq", "mod-equal-copy"):
            exp = dict(exp)
            if "R" in exp:
                exp["R"] = ["#false"]      # procedures and streams are compared by identity
            if "eq" in exp:
                exp["eq"] = "false"
        wt = None
        if op in TEXT_MODE and model_shape(shape) and (model_shape(shape).startswith("chain:") or op == "display-port"):
            wt = want.get("text %s %s %d" % (TEXT_MODE[op], model_shape(shape), n))
        verdict, detail = judge(results[i], exp, wt)
        if wt and wt != "text none" and verdict == "ok":
            stats["text_checked"] += 1
        stats["cases"] += 1
        fam = "cycle" if shape.startswith("cycle:") else shape
        cell = stats["matrix"].setdefault(fam, {}).setdefault(op, {}).setdefault("%d/%s" % (n, st) if fam != "cycle" else st, {})
        cell[verdict] = cell.get(verdict, 0) + 1
        stats["slowest"].append((round(results[i]["secs"], 1), shape, op, n, st, verdict))
        if verdict == "ok":
            stats["ok"] += 1
            # the tie in the other direction: where the model says the code never returns, the code must not return
            mp = pred.get(model_shape(shape) or "", {})
            strict = {"equal-copy": ["eq"], "host-eq": ["eq"], "gc-live": ["mark"], "hash-code": ["hash"],
                      "display-port": ["collect", "prelude-print"], "host-display": ["collect", "print-depth"],
                      "serialize": ["serialize"]}
            for mo in strict.get(op, []):
                if shape.startswith("cycle:") and mo in mp and mp[mo][0] == "diverges":
                    stats["model_disagreements"].append("%s %s stack=%s: model op %s diverges (%s), the real engine answered" % (
                        shape, op, st, mo, mp[mo][1]))
            if len(stats["samples"]) < 3 and op == "display-port" and wt:
                stats["samples"].append({"shape": shape, "op": op, "size": n, "stack": st, "real": [l for l in results[i]["lines"] if l.startswith("=> text")][0][:90], "S": wt[:90]})
            continue
        if verdict == "error-value":
            stats["error_value"] += 1       # the property allows an error value
            continue
        classes = explain(shape, op, verdict, detail, pred, table)
        if verdict == "timeout" and not classes and stats["retried"] < 12:
            # nothing in the model explains a hang here: the machine is shared, so ask again, alone, with six times the bound,
            # before calling it a violation
            stats["retried"] += 1
            again = run_case(src, st, bound * 6)
            v2, d2 = judge(again, exp, wt)
            ctx.log("retry %s %s size=%d stack=%s: first %s, alone with bound %ds: %s (%.1fs)" % (shape, op, n, st, verdict, bound * 6, v2, again["secs"]))
            verdict, detail = v2, d2
            cell[verdict] = cell.get(verdict, 0) + 1
            if verdict == "ok":
                stats["ok"] += 1
                continue
            if verdict == "error-value":
                stats["error_value"] += 1
                continue
            classes = explain(shape, op, verdict, detail, pred, table)
        stats["fail"] += 1
        listed_classes = [k for k in classes if k in known]
        if classes and listed_classes:
            stats["known"] += 1
            for k in listed_classes[:1]:
                stats["by_class"].setdefault(k, {"count": 0, "example": None})
                stats["by_class"][k]["count"] += 1
                if stats["by_class"][k]["example"] is None:
                    stats["by_class"][k]["example"] = "%s %s size=%d stack=%s: %s (%s)" % (shape, op, n, st, verdict, detail[:100])
            continue
        stats["violations"] += 1
        if len(ctx.violations) < 12:
            name = "C18-%s-%s-%d-%s.scm" % (re.sub(r"[^a-z0-9]+", "_", shape), op, n, st)
            ctx.violation(name, replay_text(shape, op, n, st, bound, src, verdict, detail, classes))
    for k, v in sorted(stats["by_class"].items()):
        kid, rp = known[k]
        ctx.known_finding("id=%s class=%s replay=%s %d failing cases, e.g. %s" % (kid, k, rp, v["count"], v["example"]))

    if stats["model_disagreements"]:
        ctx.violation("C18-model-vs-code.txt", "the model (configuration scanned from the source) says these operations never return, "
                      "the real engine returned: the model no longer follows the code\n" + "\n".join(stats["model_disagreements"][:40]) + "\n",
                      no_input=True)
    if not pr["ok"] and not ctx.violations:
        ctx.violation("C18-proof-broken.txt", "proof obligations of SteelVerif.C18.Props that no longer check:\n" +
                      "\n".join("%s: %s" % f for f in pr["failed"]) + "\n", no_input=True)
    stats["slowest"].sort(reverse=True)
    cov = dict(base_cov)
    cov.update({
        "evaluations": stats["cases"], "distinct_nontrivial": len(set((c[0], c[1], c[2], c[3]) for c in cases)),
        "rule": "one case = (shape, operation, size, stack); chains of every container kind and a mixed chain at sizes 10^3 / 10^5 "
                "(thorough: 10^6), shared dag, wide values, cycles through boxes / strong boxes / mutable vectors / mutable struct "
                "fields / closures (quick: every necklace up to length 3; thorough: up to 4 exhaustively, 5-6 and connector mixes "
                "sampled from VERIF_SEED); each in its own child process (cycles: batched, fresh engine each), 8 MiB main stack or "
                "2 MiB thread, wall-clock bound; verdict = survival + termination + result lines / printed text vs S",
        "passed": stats["ok"], "error_values": stats["error_value"], "failing_cases": stats["fail"],
        "failing_attributed_to_known_classes": stats["known"], "violations": stats["violations"],
        "texts_compared_with_S": stats["text_checked"], "timeouts_asked_again_alone": stats["retried"], "matrix": stats["matrix"], "known_classes": stats["by_class"],
        "model_predictions": dict((s, dict((k, v[0] + ":" + v[1]) for k, v in p.items() if v[0] != "constant")) for s, p in pred.items()),
        "model_says_diverges_but_code_returned": stats["model_disagreements"][:20],
        "machine_vs_loop_model": {"shapes": machine_rows, "disagreements": len(machine_bad)},
        "translator": tr_lines, "samples": stats["samples"], "slowest": stats["slowest"][:8],
        "axioms": pr.get("axioms", {}), "proof_failures": ["%s: %s" % f for f in pr["failed"]],
    })
    ctx.coverage = cov
    ctx.assumptions = ["native frame sizes are not modelled: the model says whether the native depth grows with the value, the run says "
                       "whether 8 MiB / 2 MiB are exceeded at 10^3 / 10^5 / 10^6",
                       "time bounds are CPU time of the child (RLIMIT_CPU / the harness watchdog reading /proc/self/stat), wall-clock only as a "
                       "generous cap for blocked processes; a timeout is attributed to a class only when the model predicts divergence, "
                       "exponential rounds or re-entrant printing for that case; an unexplained one is asked again alone with 6x the bound"]
    ctx.log("cases=%d ok=%d error-values=%d failing=%d (known classes %d, violations %d), texts vs S %d" % (
        stats["cases"], stats["ok"], stats["error_value"], stats["fail"], stats["known"], stats["violations"], stats["text_checked"]))
    return ctx.finish("proof")


def replay(ctx, path):
    C.build_harness(ctx, [BIN])
    src = open(path).read()
    m = re.search(r"^;;! stack=(\S+) bound=(\d+)", src, re.M)
    stack, bound = (m.group(1), int(m.group(2))) if m else ("main", 60)
    body = "\n".join(l for l in src.split("\n") if not l.startswith(";;!"))
    res = run_case(body, stack, bound)
    print("\n".join(l[:300] for l in res["lines"][-12:]))
    print("status=%s rc=%s secs=%.1f %s" % (res["status"], res["rc"], res["secs"], res["stderr"][-200:]))
    return 0
