"""C18 — arbitrarily deep, wide or cyclic values are handled without exhausting the host.

translate  : translate/c18_traversals.py regenerates lean/SteelVerif/C18/GenTraversals.lean: for every (operation, value
             kind) how the code traverses it — worklist, native recursion below an explicit depth limit, unbounded native
             recursion — scanned from rvals.rs / rvals/cycles.rs / values/closed.rs / values/lists.rs / steel_vm/vm/threads.rs
             and compared with a hand table; plus the configuration flags of the model (which pairs the equality worklist
             enters into `visited`, which kinds the marker / the cycle collector track).
prove      : lake build SteelVerif.C18.Props + GenTraversals + axiom audit.
correspond : the REAL engine (harness c18), one child process per case: a shape (chain of one container kind, mixed chain,
             wide value, shared dag, cycle through mutable containers) at a depth, one operation (create, equal?, hash,
             display/write, host Display/Debug, send to a thread, thread result, full collection, drop, serialize), on the
             8 MiB main thread and on a 2 MiB thread, with a time bound.  Verdict: the process survives, finishes within the
             bound, and prints what the specification S says (the Lean driver computes S on the same graph: structural
             result of equal?, the printed text under the documented depth-limit rule; for cyclic values: a boolean).
oracle     : S.  The model M (driver) says for every case whether the code's traversal is a worklist or native recursion and
             which table entry is responsible; a failing case is attributed to an open finding only if M predicts that failure
             for it and the responsible class is listed.
"""
import os
import random
import re
import resource
import subprocess
import time

from . import common as C

PID = "C18"
META = {
    "ready": False,
    "category": "proof",
    "technique": "Lean 4 termination / native-depth theorems for the traversal algorithms over arbitrary (cyclic) value graphs + traversal table regenerated from the source + the real engine on deep / wide / cyclic shapes, one child process per (shape, operation, depth, stack)",
    "level_text": "in progress",
    "level_note": "in progress",
}

BIN = "c18"
MAIN_STACK = 8 * 1024 * 1024
THREAD_STACK = 2 * 1024 * 1024

# --------------------------------------------------------------------------------------------------------------------
# shapes: name -> (wrap expression over `acc`, base value, kind tag used by the model)
PRELUDE = (
    "(struct node (next) #:transparent)\n"
    "(struct mnode (next) #:mutable #:transparent)\n"
)
CHAINS = {
    "list": ("(list acc)", "0"),
    "pair-car": ("(cons acc 1)", "0"),
    "pair-cdr": ("(cons 1 acc)", "0"),
    "mvec": ("(vector acc)", "0"),
    "ivec": ("(immutable-vector acc)", "0"),
    "map-value": ("(hash 'k acc)", "0"),
    "map-key": ("(hash acc 1)", "0"),
    "set": ("(hashset acc)", "0"),
    "struct": ("(node acc)", "0"),
    "mstruct": ("(mnode acc)", "0"),
    "box": ("(box acc)", "0"),
    "sbox": ("(box-strong acc)", "0"),
    "closure": ("(let ((a acc)) (lambda () a))", "0"),
    "stream": ("(stream-cons 1 (lambda () acc))", "0"),
}
# a chain that alternates kinds (every kind of the worklists meets every other as a neighbour over the period)
MIX = ["(list 1 acc)", "(vector acc 2)", "(node acc)", "(cons acc 3)", "(box acc)", "(hash 'k acc)", "(immutable-vector acc)",
       "(mnode acc)", "(cons 4 acc)"]


def build_src(shape, n, name="d", base=None):
    """Steel source defining global `name` as the shape at depth / width n."""
    if shape in CHAINS:
        wrap, b = CHAINS[shape]
        b = base if base is not None else b
        return ("(define (nest-%s n acc) (if (= n 0) acc (nest-%s (- n 1) %s)))\n(define %s (nest-%s %d %s))\n"
                % (name, name, wrap, name, name, n, b))
    if shape == "mixed":
        b = base if base is not None else "0"
        arms = " ".join("[(= (modulo n %d) %d) %s]" % (len(MIX), i, w) for i, w in enumerate(MIX))
        return ("(define (wrap-%s n acc) (cond %s [else acc]))\n"
                "(define (nest-%s n acc) (if (= n 0) acc (nest-%s (- n 1) (wrap-%s n acc))))\n(define %s (nest-%s %d %s))\n"
                % (name, arms, name, name, name, name, name, n, b))
    if shape == "dag":
        b = base if base is not None else "0"
        return ("(define (nest-%s n acc) (if (= n 0) acc (nest-%s (- n 1) (list acc acc))))\n(define %s (nest-%s %d (list %s)))\n"
                % (name, name, name, name, n, b))
    if shape == "wide-list":
        return "(define %s (range 0 %d))\n" % (name, n) if base is None else "(define %s (append (range 0 %d) (list %s)))\n" % (name, n - 1, base)
    if shape == "wide-mvec":
        return "(define %s (make-vector %d %s))\n" % (name, n, base if base is not None else "7")
    if shape == "wide-ivec":
        return "(define %s (immutable-vector-push (make-immutable-vector %d 3) %s))\n" % (name, n - 1, base if base is not None else "7")
    if shape == "wide-map":
        return ("(define (fill-%s i m) (if (= i %d) m (fill-%s (+ i 1) (hash-insert m i (list i)))))\n(define %s (fill-%s 0 (hash 'x %s)))\n"
                % (name, n, name, name, name, base if base is not None else "7"))
    if shape == "wide-set":
        return ("(define (fill-%s i m) (if (= i %d) m (fill-%s (+ i 1) (hashset-insert m i))))\n(define %s (fill-%s 0 (hashset 'x %s)))\n"
                % (name, n, name, name, name, base if base is not None else "7"))
    if shape == "string":
        return "(define %s (make-string %d #\\%s))\n" % (name, n, "a" if base is None else "b")
    raise KeyError(shape)


# cycles -----------------------------------------------------------------------------------------------------------
# a cycle is a sequence of cells; each cell is a mutable container kind, optionally reached through an immutable connector
CELLS = {
    # kind: (constructor of an empty cell, setter of cell c to value v)
    "box": ("(box 0)", "(set-box! {c} {v})"),
    "sbox": ("(box-strong 0)", "(set-strong-box! {c} {v})"),
    "mvec": ("(vector 0)", "(vector-set! {c} 0 {v})"),
    "mstruct": ("(mnode 0)", "(set-mnode-next! {c} {v})"),
    "closure": ("(let ((next 0)) (lambda msg (if (null? msg) next (set! next (car msg)))))", "({c} {v})"),
}
CONNECT = {
    "": "{v}",
    "list": "(list 1 {v})",
    "ivec": "(immutable-vector {v})",
    "pair": "(cons {v} 2)",
    "struct": "(node {v})",
    "map": "(hash 'k {v})",
}


def cycle_src(kinds, conns, name):
    """Globals name0..name(L-1); cell i points (through connector conns[i]) to cell (i+1) mod L; `name` = cell 0."""
    L = len(kinds)
    out = []
    for i, k in enumerate(kinds):
        out.append("(define %s%d %s)" % (name, i, CELLS[k][0]))
    for i, k in enumerate(kinds):
        tgt = "%s%d" % (name, (i + 1) % L)
        out.append(CELLS[k][1].format(c="%s%d" % (name, i), v=CONNECT[conns[i]].format(v=tgt)))
    out.append("(define %s %s0)" % (name, name))
    return "\n".join(out) + "\n"


def cycle_name(kinds, conns):
    return "cycle:" + ",".join(k + ("/" + c if c else "") for k, c in zip(kinds, conns))


def necklaces(alphabet, L):
    """All sequences of length L over alphabet, one representative per rotation class."""
    seen, out = set(), []

    def rec(prefix):
        if len(prefix) == L:
            rots = [tuple(prefix[i:] + prefix[:i]) for i in range(L)]
            key = min(rots)
            if key not in seen:
                seen.add(key)
                out.append(list(key))
            return
        for a in alphabet:
            rec(prefix + [a])
    rec([])
    return out


# operations ---------------------------------------------------------------------------------------------------------
SEP = "\n;;;---\n"


def op_pieces(op, shape, n):
    """Returns (pieces, expected) — pieces after the prelude; expected: dict of what S says about the `R ` lines."""
    cyc = shape.startswith("cycle:")
    if cyc:
        kinds = [x.split("/")[0] for x in shape[6:].split(",")]
        conns = [(x.split("/") + [""])[1] for x in shape[6:].split(",")]
        mk = lambda nm, base=None: cycle_src(kinds, conns, nm)      # noqa: E731
    else:
        mk = lambda nm, base=None: build_src(shape, n, nm, base)   # noqa: E731
    R = lambda e: "(begin (simple-display \"R \") (simple-display %s) (newline))" % e   # noqa: E731
    if op == "create":
        return [mk("d"), R("\"built\"")], {"R": ["built"]}
    if op == "equal-copy":
        return [mk("d"), mk("e"), R("(equal? d e)")], {"R": ["BOOL" if cyc else "#true"]}
    if op == "equal-self":
        return [mk("d"), R("(equal? d d)")], {"R": ["#true"]}
    if op == "equal-diff":
        return [mk("d"), mk("e", "5"), R("(equal? d e)")], {"R": ["#false"]}
    if op == "host-eq":
        return [mk("d"), mk("e"), ";;;host-eq d e"], {"eq": "BOOL" if cyc else "true"}
    if op == "hash-key":
        return [mk("d"), "(define h (hash d 1))", R("(hash-ref h d)")], {"R": ["1"]}
    if op == "hash-set":
        return [mk("d"), "(define h (hashset d))", R("(hashset-contains? h d)")], {"R": ["#true"]}
    if op == "hash-code":
        return [mk("d"), R("(int? (hash-code d))")], {"R": ["#true"]}
    if op == "host-hash":
        return [mk("d"), ";;;host-hash d"], {"hash": "ok"}
    if op == "display-port":
        return [mk("d"), "(define o (open-output-string))\n(display d o)\n(define s (get-output-string o))", ";;;host-string s"], {"text": "display"}
    if op == "write-port":
        return [mk("d"), "(define o (open-output-string))\n(write d o)\n(define s (get-output-string o))", ";;;host-string s"], {"text": "write"}
    if op == "print-port":
        return [mk("d"), "(define o (open-output-string))\n(print d o)\n(define s (get-output-string o))", ";;;host-string s"], {"text": "print"}
    if op == "host-display":
        return [mk("d"), ";;;host-display d"], {"text": "hostdisplay"}
    if op == "host-debug":
        return [mk("d"), ";;;host-debug d"], {"text": "hostdebug"}
    if op == "send-channel":
        return [mk("d"),
                "(define ch (channels/new))\n(define back (channels/new))\n"
                "(define t (spawn-native-thread (lambda () (let ((v (channel/recv (channels-receiver ch)))) "
                "(channel/send (channels-sender back) (equal? v v)) 7))))\n"
                "(channel/send (channels-sender ch) d)\n(define got (channel/recv (channels-receiver back)))\n(define j (thread-join! t))",
                R("(list got j)")], {"R": ["(#true 7)"]}
    if op == "thread-result":
        # the thread builds the value itself and returns it
        return [_thread_result_src(mk("d")), R("(equal? r r)")], {"R": ["#true"]}
    if op == "gc-live":
        return [mk("d"), "(#%gc-collect)", R("(equal? d d)")], {"R": ["#true"]}
    if op == "gc-dead":
        return [mk("d"), "(set! d #f)", "(#%gc-collect)", R("\"collected\"")], {"R": ["collected"]}
    if op == "drop":
        return [mk("d"), "(set! d #f)", R("\"dropped\"")], {"R": ["dropped"]}
    if op == "host-drop":
        return [mk("d"), ";;;host-take d", "(set! d #f)", ";;;host-release", R("\"released\"")], {"R": ["released"]}
    if op == "serialize":
        return [mk("d"), "(define s (serialize-value d))", R("\"serialized\"")], {"R": ["serialized"]}
    raise KeyError(op)


def _thread_result_src(build):
    """`build` defines global d; turn it into a thunk run by the thread: the defines become local."""
    lines = build.strip().split("\n")
    inner = "\n".join(lines)
    return "(define t (spawn-native-thread (lambda () %s d)))\n(define r (thread-join! t))" % inner


OPS_ALL = ["create", "equal-copy", "equal-self", "equal-diff", "host-eq", "hash-key", "hash-set", "hash-code", "host-hash",
           "display-port", "write-port", "print-port", "host-display", "host-debug", "send-channel", "thread-result",
           "gc-live", "gc-dead", "drop", "host-drop", "serialize"]


def program(shape, op, n):
    pieces, exp = op_pieces(op, shape, n)
    return PRELUDE + SEP.join(pieces) + "\n", exp


# running ------------------------------------------------------------------------------------------------------------
def _limits():
    resource.setrlimit(resource.RLIMIT_STACK, (MAIN_STACK, MAIN_STACK))
    # no core files
    resource.setrlimit(resource.RLIMIT_CORE, (0, 0))


def run_case(src, stack, bound):
    """One child process.  Returns dict(status, lines, rc, stderr, secs). status: end | died | timeout."""
    mode = "main" if stack == "main" else "thread:%d" % THREAD_STACK
    t = time.time()
    try:
        p = subprocess.run([C.bin_path(BIN), mode], input=src.encode(), stdout=subprocess.PIPE, stderr=subprocess.PIPE,
                           timeout=bound, preexec_fn=_limits)
        out, err, rc = p.stdout.decode(errors="replace"), p.stderr.decode(errors="replace"), p.returncode
        status = "end" if out.rstrip().endswith("=== end") and rc == 0 else "died"
    except subprocess.TimeoutExpired as ex:
        out = (ex.stdout or b"").decode(errors="replace")
        err, rc, status = "timeout", 124, "timeout"
    return {"status": status, "lines": out.splitlines(), "rc": rc, "stderr": err[-400:], "secs": time.time() - t}


def judge(res, exp):
    """Compare one run with what S says.  Returns (verdict, detail): verdict in ok | error-value | crash | timeout | panic | wrong."""
    lines = res["lines"]
    if res["status"] == "timeout":
        done = sum(1 for l in lines if l.startswith("=> "))
        return "timeout", "no answer within the bound (pieces finished: %d)" % done
    if res["status"] == "died":
        why = "stack overflow" if "overflowed its stack" in res["stderr"] or "stack overflow" in res["stderr"] else (
            res["stderr"].strip().splitlines()[-1] if res["stderr"].strip() else "")
        where = "teardown" if any(l.startswith("=== pieces done") for l in lines) else "piece %d" % sum(1 for l in lines if l.startswith("=> "))
        return "crash", "process died rc=%s at %s: %s" % (res["rc"], where, why)
    pan = [l for l in lines if l.startswith("=> panic")]
    if pan:
        return "panic", pan[0][:200]
    errs = [l for l in lines if l.startswith("=> err")]
    if errs:
        return "error-value", errs[0][:200]
    if "R" in exp:
        got = [l[2:] for l in lines if l.startswith("R ")]
        want = exp["R"]
        if len(got) != len(want):
            return "wrong", "expected result lines %r, got %r" % (want, got)
        for g, w in zip(got, want):
            if w == "BOOL":
                if g not in ("#true", "#false"):
                    return "wrong", "expected a boolean, got %r" % g
            elif g != w:
                return "wrong", "expected %r, got %r" % (w, g[:200])
    if "eq" in exp:
        got = [l for l in lines if l.startswith("=> eq ")]
        if not got or (exp["eq"] != "BOOL" and got[0] != "=> eq " + exp["eq"]):
            return "wrong", "expected eq %s, got %r" % (exp["eq"], got)
    if "hash" in exp and not any(l.startswith("=> hash ok") for l in lines):
        return "wrong", "no hash answer"
    if "text" in exp and not any(l.startswith("=> text ") for l in lines):
        return "wrong", "no text answer"
    return "ok", ""


def run(ctx):
    ctx.log("not wired yet")
    return 1


def replay(ctx, path):
    C.build_harness(ctx, [BIN])
    src = open(path).read()
    m = re.search(r"^;+ *stack=(\S+) bound=(\d+)", src, re.M)
    stack, bound = (m.group(1), int(m.group(2))) if m else ("main", 60)
    body = "\n".join(l for l in src.split("\n") if not l.startswith(";;!"))
    res = run_case(body, stack, bound)
    print("\n".join(l[:300] for l in res["lines"][-12:]))
    print("status=%s rc=%s secs=%.1f %s" % (res["status"], res["rc"], res["secs"], res["stderr"][-200:]))
    return 0
