"""Shared machinery of the per-property checks (python3 stdlib only).

Decision procedure (DESIGN.md §3), the same for every property:
  translate -> prove (lake build of the property's Props + Audit) -> correspond (real code vs model)
  -> decide (oracle = specification S) -> evidence.
"""
import fcntl
import json
import os
import re
import subprocess
import sys
import time
from concurrent.futures import ThreadPoolExecutor

VERIF = os.path.dirname(os.path.dirname(os.path.abspath(__file__)))
REPO = "/repo"
LEAN = os.path.join(VERIF, "lean")
HARNESS = os.path.join(VERIF, "harness")
BUILD = os.path.join(VERIF, ".build")
TARGET = os.path.join(BUILD, "target")
ALLOWED_AXIOMS = {"propext", "Classical.choice", "Quot.sound"}
FORBIDDEN = re.compile(
    r"\b(sorry|admit|native_decide|bv_decide|implemented_by|unsafe )|^\s*axiom\s|maxHeartbeats 0"
)
NCPU = os.cpu_count() or 4


class Ctx:
    def __init__(self, pid, tier, seed):
        self.pid = pid
        self.tier = tier
        self.seed = seed
        self.t0 = time.time()
        self.violations = []          # (replay_path, suffix)
        self.known = []               # strings
        self.notes = []
        self.coverage = {}
        self.assumptions = []
        os.makedirs(os.path.join(BUILD, pid), exist_ok=True)
        os.makedirs(os.path.join(VERIF, "evidence"), exist_ok=True)
        os.makedirs(os.path.join(VERIF, "findings"), exist_ok=True)

    @property
    def scratch(self):
        return os.path.join(BUILD, self.pid)

    def quick(self):
        return self.tier == "quick"

    def log(self, *a):
        print("[%s %6.1fs]" % (self.pid, time.time() - self.t0), *a, flush=True)

    # ---- findings -------------------------------------------------------------------------
    def load_known(self):
        """Open findings of this property: list of dicts(id, cls, replay, text)."""
        out = []
        path = os.path.join(VERIF, "KNOWN_FINDINGS.txt")
        if not os.path.exists(path):
            return out
        for line in open(path):
            line = line.strip()
            if not line.startswith("finding:"):
                continue
            kv = dict(re.findall(r"(\w+)=(\S+)", line))
            if kv.get("property") != self.pid:
                continue
            kv["text"] = line
            out.append(kv)
        return out

    def known_finding(self, what):
        msg = "KNOWN-FINDING: property=%s %s" % (self.pid, what)
        if msg not in self.known:
            self.known.append(msg)
            print(msg, flush=True)

    def violation(self, replay_name, content, no_input=False):
        """Record a violation; writes the replay file under findings/."""
        path = os.path.join(VERIF, "findings", replay_name)
        with open(path, "w") as f:
            f.write(content)
        self.violations.append((path, no_input))
        print(
            "VIOLATION property=%s replay=%s%s"
            % (self.pid, path, " no-failing-input-found" if no_input else ""),
            flush=True,
        )

    # ---- evidence -------------------------------------------------------------------------
    def finish(self, level="proof"):
        cov = self.coverage
        ev = {
            "property_id": self.pid,
            "tier": self.tier,
            "seed": self.seed,
            "level": level,
            "coverage": cov,
            "assumptions": self.assumptions,
            "wall_s": round(time.time() - self.t0, 2),
            "violations": len(self.violations),
            "known_findings": self.known,
            "notes": self.notes,
        }
        with open(os.path.join(VERIF, "evidence", self.pid + ".json"), "w") as f:
            json.dump(ev, f, indent=1, default=str)
        self.log("evidence written; violations=%d known=%d wall=%.1fs" % (
            len(self.violations), len(self.known), ev["wall_s"]))
        return 1 if self.violations else 0


def sh(cmd, cwd=None, timeout=600, env=None, input=None):
    """Run a command; returns (rc, stdout+stderr). rc 124 on timeout."""
    e = dict(os.environ)
    e["CARGO_NET_OFFLINE"] = "true"
    if env:
        e.update(env)
    try:
        p = subprocess.run(
            cmd, cwd=cwd, env=e, input=input, stdout=subprocess.PIPE, stderr=subprocess.STDOUT,
            timeout=timeout, text=True, shell=isinstance(cmd, str), errors="replace",
        )
        return p.returncode, p.stdout
    except subprocess.TimeoutExpired as ex:
        out = ex.stdout or ""
        if isinstance(out, bytes):
            out = out.decode(errors="replace")
        return 124, out


def run_bin(argv, input_text, timeout=20, env=None):
    """Run a binary on input; returns (rc, stdout, stderr). rc 124 = timeout, <0 = signal."""
    e = dict(os.environ)
    if env:
        e.update(env)
    try:
        p = subprocess.run(argv, input=input_text, stdout=subprocess.PIPE, stderr=subprocess.PIPE,
                           timeout=timeout, text=True, env=e, errors="replace")
        return p.returncode, p.stdout, p.stderr
    except subprocess.TimeoutExpired as ex:
        o = ex.stdout or ""
        if isinstance(o, bytes):
            o = o.decode(errors="replace")
        return 124, o, "timeout"


class _Lock:
    def __init__(self, name):
        os.makedirs(BUILD, exist_ok=True)
        self.path = os.path.join(BUILD, name + ".lock")

    def __enter__(self):
        self.f = open(self.path, "w")
        fcntl.flock(self.f, fcntl.LOCK_EX)

    def __exit__(self, *a):
        fcntl.flock(self.f, fcntl.LOCK_UN)
        self.f.close()


def build_harness(ctx, bins):
    """cargo build of the harness binaries against /repo's current working tree (hooks on)."""
    with _Lock("cargo"):
        t = time.time()
        args = ["cargo", "build"]
        for b in bins:
            args += ["--bin", b]
        rc, out = sh(args, cwd=HARNESS, timeout=1500)
        ctx.log("cargo build %s: rc=%d %.0fs" % (bins, rc, time.time() - t))
        if rc != 0:
            tail = "\n".join(out.splitlines()[-60:])
            return False, tail
        return True, ""


def bin_path(name):
    return os.path.join(TARGET, "debug", name)


def driver_path(name):
    return os.path.join(LEAN, ".lake", "build", "bin", name)


def lake_build(ctx, targets, timeout=1500):
    with _Lock("lake"):
        t = time.time()
        rc, out = sh(["lake", "build"] + targets, cwd=LEAN, timeout=timeout)
        ctx.log("lake build %s: rc=%d %.0fs" % (targets, rc, time.time() - t))
        return rc == 0, out


def forbidden_scan(subdir):
    """Grep model/proof sources for constructs that would void a proof. Returns list of hits."""
    hits = []
    root = os.path.join(LEAN, "SteelVerif", subdir)
    for d, _, files in os.walk(root):
        for fn in files:
            if not fn.endswith(".lean"):
                continue
            in_block = False
            for i, line in enumerate(open(os.path.join(d, fn)), 1):
                code = line
                # strip comments (line comments and simple block comments)
                if in_block:
                    if "-/" in code:
                        code = code.split("-/", 1)[1]
                        in_block = False
                    else:
                        continue
                while "/-" in code:
                    pre, rest = code.split("/-", 1)
                    if "-/" in rest:
                        code = pre + rest.split("-/", 1)[1]
                    else:
                        code = pre
                        in_block = True
                        break
                code = code.split("--", 1)[0]
                if FORBIDDEN.search(code):
                    hits.append("%s:%d: %s" % (os.path.join(d, fn), i, line.strip()))
    return hits


def audit(ctx, subdir):
    """Build <subdir>.Audit (a file of `#print axioms thm`) and parse the axioms of each theorem.

    Returns (obligations, discharged, per_theorem dict, failed list, raw log)."""
    mod = "SteelVerif.%s.Audit" % subdir
    path = os.path.join(LEAN, "SteelVerif", subdir, "Audit.lean")
    names = re.findall(r"^#print axioms\s+(\S+)", open(path).read(), re.M)
    # force re-elaboration so the messages are printed: touch is not enough for lake's trace, so
    # run lean directly on the file through `lake env`.
    with _Lock("lake"):
        rc, out = sh(["lake", "env", "lean", path], cwd=LEAN, timeout=900)
    per = {}
    cur = None
    for line in out.splitlines():
        m = re.match(r"'([^']+)' depends on axioms: \[(.*)\]", line)
        m2 = re.match(r"'([^']+)' does not depend on any axioms", line)
        if m:
            per[m.group(1)] = [a.strip() for a in m.group(2).split(",") if a.strip()]
            cur = m.group(1) if not line.rstrip().endswith("]") else None
        elif m2:
            per[m2.group(1)] = []
    # multi-line axiom lists
    for m in re.finditer(r"'([^']+)' depends on axioms: \[([^\]]*)\]", out, re.S):
        per[m.group(1)] = [a.strip() for a in m.group(2).replace("\n", " ").split(",") if a.strip()]
    failed = []
    for n in names:
        short = n
        hit = None
        for k in per:
            if k == n or k.endswith("." + n) or n.endswith("." + k):
                hit = k
        if hit is None:
            failed.append((n, "not elaborated"))
            continue
        bad = [a for a in per[hit] if a not in ALLOWED_AXIOMS]
        if bad:
            failed.append((n, "axioms " + ",".join(bad)))
    if rc != 0 and not failed:
        failed.append(("Audit.lean", "lean exited with %d" % rc))
    return len(names), len(names) - len(failed), per, failed, out


def prove(ctx, subdir, extra_targets=()):
    """The `prove` step: build Props (+ extra), scan for forbidden constructs, audit axioms.

    Returns dict(ok, obligations, discharged, failed, log)."""
    targets = ["SteelVerif.%s.Props" % subdir] + list(extra_targets)
    ok, out = lake_build(ctx, targets)
    res = {"ok": ok, "obligations": 0, "discharged": 0, "failed": [], "log": out}
    hits = forbidden_scan(subdir)
    if hits:
        res["ok"] = False
        res["failed"] += [("forbidden construct", h) for h in hits]
    if not ok:
        errs = re.findall(r"error: (\S+\.lean:\d+:\d+: .*)", out)
        res["failed"] += [("lake build", e) for e in errs[:20]] or [("lake build", out[-2000:])]
        # count the theorems anyway so the evidence shows what is open
        try:
            path = os.path.join(LEAN, "SteelVerif", subdir, "Audit.lean")
            res["obligations"] = len(re.findall(r"^#print axioms", open(path).read(), re.M))
        except OSError:
            pass
        return res
    n, d, per, failed, log = audit(ctx, subdir)
    res["obligations"], res["discharged"] = n, d
    res["axioms"] = per
    if failed:
        res["ok"] = False
        res["failed"] += failed
    return res


def pool_map(fn, items, workers=None):
    with ThreadPoolExecutor(max_workers=workers or NCPU) as ex:
        return list(ex.map(fn, items))


def split_on(lines, sep):
    cur, out = [], []
    for l in lines:
        if l == sep:
            out.append(cur)
            cur = []
        else:
            cur.append(l)
    if cur:
        out.append(cur)
    return out


TRUSTED_BASE = [
    "Lean 4.33 kernel; axioms limited to propext, Classical.choice, Quot.sound (audited per theorem by #print axioms on every run)",
    "Lean compiler/runtime executing the model in the compiled driver",
    "the Rust harness, the python orchestrator and its line-by-line comparison",
    "hand-written model: the correspondence run is what ties it to /repo's current source",
]
