"""C11 — equal? is structural, hashing agrees with it, collections behave as their models.

translate  : translate/c11_cfg.py regenerates lean/SteelVerif/C11/GenCfg.lean (how `visited` is keyed,
             which worklist arms exist, how floats / vectors / hash maps hash) from /repo.
prove      : lake build SteelVerif.C11.Props + GenSound (the code's configuration is the sound one)
             + axiom audit.
correspond : harness `c11` builds value graphs as real SteelVals (a node mentioned twice is the same
             Rust object twice) and asks the real `equal?`, `==`, `Hash`, `hash-contains?`; the compiled
             model `c11driver` answers the same questions on the definitions the harness resolved
             (hash maps / sets with the entries and the iteration order the real object has).
oracle     : S = `eqSpec` (equality of the unfoldings) for equal?; `eqSpec a b -> same hash`;
             `key found <-> eqSpec`; for collection operations the model of the primitives on
             mathematical lists / finite maps / finite sets (they are their own specification).
"""
import json
import os
import random
import re
import struct

from . import common as C

PID = "C11"
META = {
    "ready": True,
    "category": "proof",
    "technique": "Lean 4 proof that a faithful model of the equal? worklist (two stacks, pair-keyed visited set, pointer short cuts, one arm per kind, nested == for keys) computes equality of the unfoldings on every acyclic value graph with arbitrary sharing, and that this is an equivalence relation through hash maps and hash sets; the hash-map / hash-set constructors establish the guards; hash/equality coherence; hash maps keyed by values as finite maps modulo equal?; a model P of the Rust collection primitives (argument conversions, bound checks, loops, byte offsets, imbl's union / symmetric_difference / intersection, ownership branches) proved to answer every operation sequence as the mathematical sequences / finite maps / finite sets do; models tied to /repo by two translators (equality/hash configuration; shape of the primitives) and by running the real code on generated value graphs (DAGs with shared nodes in every position, constructor arguments with equal-but-distinct members, maps keyed by collections) and collection operation sequences",
    "level_text": "Theorem eq_structural (SteelVerif/C11/Props.lean): for every acyclic value graph - leaves of every modelled kind, lists, pairs, immutable and mutable vectors, structs, boxes, hash maps and hash sets with arbitrary nesting and arbitrary sharing - the model of RecursiveEqualityHandler (as configured by the code that exists: GenSound.code_cfg_sound) returns exactly equality of the unfoldings. eq_refl, eq_symm, eq_trans, eq_equivalence: equal? is an equivalence relation THROUGH hash maps and hash sets (counting argument cover_symm; needs map keys and set members pairwise non-equal?, shown necessary by eq_symm_fails_without_distinct_members and shown to be ESTABLISHED by the constructors: mkSet_guards, mkMap_guards, built_guards - eq_equivalence_built has no guard left for values built by the constructors). NaN policy as theorems for every graph: nan_equal_nothing, container_equal_itself. hash_respects_eq (equal unfoldings hash alike, incl. order-independent map/set hashing and the two vector kinds), keys_interchangeable, and its composition with the map operations: keyed_map_get_insert/get_remove/length_insert/interchangeable/invariant/ofList_last_wins, keyed_set_laws, keyed_set_algebra (hashset-union/-intersection/-difference as imbl computes them and hashset-subset?, on members that are collections) - a hash map / hash set keyed by values (collections included) is a finite map / set modulo equal?. Collections: Prim.lean is a model P of the Rust primitives (lists: list-ref, list-tail, take, drop as the cdr loop of stdlib.scm, last through len-1, first/rest, n-ary append with its empty-first special case, reverse, range; vectors: vector-ref/-set!/-push!/-append; immutable vectors: vector-ref, immutable-vector-push/-set/-take/-drop/-rest/-append with the in-place and the copying branch; byte vectors: bytes, bytes-ref/-set!/-push!/-append with u8/usize conversion; strings: string-ref with its byte-length guard, substring/string->list through fn bounds with char_indices byte offsets, string-append; hash maps: hash constructor, hash-insert (replace), hash-remove, hash-ref/-try-get/-contains?, keys/values, hash-clear, hash-union = imbl's size-directed union under the four ownership branches of hm_union; hash sets: constructor, insert, contains?, subset?, union, intersection, symmetric difference as imbl implements them); theorem prim_refines: ANY operation sequence on P yields, answer by answer (errors at boundary indices included, unordered results up to permutation), what the same sequence yields on the mathematical model S (Coll.*), whose laws (finite map / finite set / sequence laws incl. boundary indices, duplicates, range_spec, keys_spec, subset_spec) are theorems; hash_union_left_biased, substring_char_indices, string_ref_char_index, drop_is_list_tail per primitive. GenSound.code_prims_modelled: the shape of the primitives' bodies re-extracted from /repo on every run is the shape P transcribes. The legacy algorithm is kept as Cfg.legacy with not_eq_structural_old / not_hash_respects_eq_old by decide, the list short cut without the next-pointer conjunct (K11j) as Cfg.k11j with not_eq_structural_k11j. Ties on every run: translate/c11_cfg.py, translate/c11_prims.py; the real equal?/==/Hash/hash-contains? on the same graphs; the members the real (hashset ..)/(hash ..) hold vs the model constructors mkSet/mkMap; gm/gs operation sequences (insert/remove/ref/contains/len, set union/intersection/difference/subset?) on maps/sets keyed by collections; collection operation sequences executed by the driver on P and on S side by side. The clauses no theorem carries are listed at the end of Props.lean.",
    "level_note": "Assumed about list identities (guard ListSigOK, checked by the run on every graph the harness builds, not proved about im-lists): a node id of the model = the pointer of a list's head cell (two real lists are one node exactly when as_ptr_usize() agrees), and two lists whose first nodes have the same element storage, the same index and the same next node have the same elements. Trusted: Lean kernel (propext, Classical.choice, Quot.sound only), the translators' regexes, harness/driver/comparison. Documented semantics outside eq_structural: a NaN is not equal? to itself (guard NoNaN; the policy itself is nan_equal_nothing / container_equal_itself), 1 and 1.0 differ. Not modelled below the primitives: imbl's HAMT (a hash map is an entry list with replace-on-insert), im-lists' unrolled cells (a list is a sequence; K11h/K11i/K11j are corpus and lx-stream regressions), the UTF-8 encoding itself (strings are character lists with utf8Size byte offsets), accidental 64-bit hash collisions, cyclic values built by mutation (C18; only the self-comparison short cut is a theorem), value kinds other than the ones of Model.Leaf/Node (closures, ports, streams, complex numbers: compared by corpus cases only), eq?/eqv?, primitives outside the operation language Op (improper pairs, vector-fill!/copy!, vector-swap!, pop), aliasing of in-place updates (C03).",
}

HARNESS = "c11"
DRIVER = "c11driver"


# ------------------------------------------------------------------------------------------------
# value graphs
# ------------------------------------------------------------------------------------------------
def fbits(x):
    return struct.unpack("<Q", struct.pack("<d", x))[0]


NAN = 0x7FF8000000000000
LEAF_POOL = [
    ("int", "0"), ("int", "1"), ("int", "-1"), ("int", "2"), ("int", "9223372036854775807"),
    ("int", "9223372036854775808"), ("int", "-9223372036854775809"), ("int", "100000000000000000000000"),
    ("flt", str(fbits(0.0))), ("flt", str(fbits(-0.0))), ("flt", str(fbits(1.0))), ("flt", str(fbits(1.5))),
    ("flt", str(fbits(float("inf")))), ("flt", str(fbits(float("-inf")))), ("flt", str(fbits(5e-324))),
    ("flt", str(fbits(2.0))),
    ("bool", "1"), ("bool", "0"), ("char", "97"), ("char", "955"), ("str", "-"), ("str", "97"),
    ("str", "97,98"), ("str", "955,32,120"), ("sym", "97"), ("sym", "97,98"), ("void",),
    ("rat", "1", "2"), ("rat", "-1", "2"), ("rat", "1", "3"), ("rat", "100000000000000000000000", "3"),
    ("rat", "2147483648", "3"), ("bytes", "-"), ("bytes", "1,2"), ("bytes", "1,3"), ("bytes", "0"),
]
SMALL_LEAVES = [("int", "1"), ("int", "2"), ("int", "3"), ("flt", str(fbits(1.0))), ("str", "97"),
                ("sym", "97"), ("bool", "1"), ("rat", "1", "2"), ("bytes", "1,2"), ("char", "97"), ("void",),
                ("flt", str(fbits(0.0))), ("flt", str(fbits(-0.0)))]
CONTAINERS = ["list", "pair", "vec", "mvec", "struct", "box", "map", "set"]


class G:
    """A value graph under construction: nodes[i] = (kind, args) with args = ids or literal strings."""

    def __init__(self):
        self.nodes = []
        self.queries = []      # (op, a, b)
        self.raw = []          # further protocol lines, tokens = strings and node ids (`gm insert <id> 5`)

    def leaf(self, spec):
        self.nodes.append((spec[0], list(spec[1:])))
        return len(self.nodes) - 1

    def node(self, kind, kids, tag=None):
        if kind == "pair":
            assert len(kids) == 2
        self.nodes.append((kind, list(kids)) if tag is None else (kind, [str(tag)] + list(kids)))
        return len(self.nodes) - 1

    def lx(self, *tokens):
        """a list computed by a Steel expression over defined nodes: tokens are strings and node ids"""
        self.nodes.append(("lx", list(tokens)))
        return len(self.nodes) - 1

    def is_leaf(self, i):
        return self.nodes[i][0] not in CONTAINERS and self.nodes[i][0] != "lx"

    def kids(self, i):
        k, a = self.nodes[i]
        if k not in CONTAINERS:
            return []          # (the elements of an `lx` list are known to the real code only)
        return a[1:] if k == "struct" else a

    def copy(self, i, mutate=None, share=None):
        """A structurally equal copy of node i made of fresh container objects (leaves are reused).
        mutate = path (list of child indices) at which the copy differs (near miss).
        share: dict old->new, reuse copies of shared nodes (keeps the sharing shape)."""
        k, a = self.nodes[i]
        if share is not None and mutate is None and i in share:
            return share[i]
        if k not in CONTAINERS:
            if mutate is not None and mutate == []:
                return self.leaf(("int", "77777"))
            return i
        kids = self.kids(i)
        if mutate == []:
            # differ at this container: drop to a different leaf
            return self.leaf(("int", "77777"))
        new = []
        for j, c in enumerate(kids):
            m = mutate[1:] if (mutate and mutate[0] == j) else None
            new.append(self.copy(c, m, share))
        r = self.node(k, new, tag=a[0] if k == "struct" else None)
        if share is not None and mutate is None:
            share[i] = r
        return r

    def reach_multi(self, i, acc):
        if self.is_leaf(i):
            return
        acc.append(i)
        for c in self.kids(i):
            self.reach_multi(c, acc)

    def shared_twice(self, a, b):
        """class predicate of the (fixed) finding K11a: some container is met more than once when
        both values are traversed as trees (mirrors Model.noSharingB)."""
        acc = []
        self.reach_multi(a, acc)
        self.reach_multi(b, acc)
        return len(acc) != len(set(acc))

    def lines(self, prefix):
        out = []
        for i, (k, a) in enumerate(self.nodes):
            args = [(prefix + str(x)) if isinstance(x, int) and not isinstance(x, bool) else x for x in a]
            out.append("def %s%d %s %s" % (prefix, i, k, " ".join(args)))
        for (op, a, b) in self.queries:
            out.append("%s %s%d %s%d" % (op, prefix, a, prefix, b))
        for toks in self.raw:
            out.append(" ".join((prefix + str(x)) if isinstance(x, int) else x for x in toks))
        return [l.rstrip() for l in out]


def ask(g, a, b, ops=("eq", "hq", "key")):
    for op in ops:
        g.queries.append((op, a, b))


def wrap(g, kind, x, tagn=1):
    """x inside a container of the given kind (for map: as key and as value)."""
    one = g.leaf(("int", "1"))
    if kind == "pair":
        return g.node("pair", [x, one])
    if kind == "struct":
        return g.node("struct", [x], tag=tagn)
    if kind == "box":
        return g.node("box", [x])
    if kind == "map":
        return g.node("map", [x, one])
    if kind == "mapv":
        return g.node("map", [one, x])
    if kind == "pairr":
        return g.node("pair", [one, x]) if g.nodes[x][0] not in ("list", "lx") else g.node("list", [one, x])
    if kind == "list3m":
        return g.node("list", [one, x, one])
    if kind == "list5l":
        return g.node("list", [one, one, one, one, x])
    if kind == "list2x":
        return g.node("list", [x, x])
    return g.node(kind, [x])


WRAPS = ["list", "list3m", "list5l", "list2x", "vec", "mvec", "pair", "pairr", "struct", "box", "set", "map", "mapv"]


def gen_cross_kind_cases():
    """equal? is not discriminant-respecting: a mutable and an immutable vector with equal elements are
    equal.  Such pairs (and near misses) as ELEMENTS of every container kind, at depth 1 and 2, in every
    position of a list, compared both ways, hashed, and used as keys / members (seeded defect m1: an
    "optimistic" discriminant check on list elements)."""
    cases = []

    def pair(g, i, one, two, three):
        if i == 0:
            return g.node("vec", [one, two]), g.node("mvec", [one, two])
        if i == 1:
            return g.node("vec", []), g.node("mvec", [])
        if i == 2:
            return g.node("vec", [g.node("vec", [one])]), g.node("mvec", [g.node("mvec", [one])])
        if i == 3:
            return (g.node("vec", [g.node("list", [g.node("mvec", [two])])]),
                    g.node("vec", [g.node("list", [g.node("vec", [two])])]))
        if i == 4:
            return g.node("vec", [one, two]), g.node("mvec", [one, three])       # near miss
        return g.node("mvec", [one, two]), g.node("mvec", [one, two])
    for i in range(6):
        g = G()
        one, two, three = g.leaf(("int", "1")), g.leaf(("int", "2")), g.leaf(("int", "3"))
        a, b = pair(g, i, one, two, three)
        ask(g, a, b)
        ask(g, b, a)
        for k1 in WRAPS:
            wa, wb = wrap(g, k1, a), wrap(g, k1, b)
            ask(g, wa, wb)
            ask(g, wb, wa)
            for k2 in WRAPS:
                ask(g, wrap(g, k2, wa), wrap(g, k2, wb))
        cases.append(g)
    return cases


def gen_leaf_cases():
    """every leaf kind against every leaf kind: top level and inside every container kind."""
    cases = []
    n = len(LEAF_POOL)
    for i in range(n):
        g = G()
        ids = [g.leaf(s) for s in LEAF_POOL]
        ids2 = [g.leaf(s) for s in LEAF_POOL]
        for j in range(n):
            ask(g, ids[i], ids2[j])
        cases.append(g)
    for kind in ["list", "vec", "mvec", "pair", "struct", "box", "set", "map", "mapv"]:
        for i in range(n):
            g = G()
            a = wrap(g, kind, g.leaf(LEAF_POOL[i]))
            for j in range(n):
                if j == i or LEAF_POOL[j][0] == LEAF_POOL[i][0] or j % 5 == i % 5:
                    b = wrap(g, kind, g.leaf(LEAF_POOL[j]))
                    ask(g, a, b)
            cases.append(g)
    # mixed container kinds with the same elements
    g = G()
    xs = [g.leaf(("int", "1")), g.leaf(("int", "2"))]
    outs = [g.node(k, xs) for k in ["list", "vec", "mvec", "set"]] + [g.node("pair", xs), g.node("struct", xs, tag=1),
                                                                      g.node("struct", xs, tag=2), g.node("map", xs)]
    outs2 = [g.node(k, xs) for k in ["list", "vec", "mvec", "set"]] + [g.node("pair", xs), g.node("struct", xs, tag=1),
                                                                       g.node("struct", xs, tag=2), g.node("map", xs)]
    for a in outs:
        for b in outs2:
            ask(g, a, b)
    cases.append(g)
    # NaN: documented semantics (not equal? to itself; a container holding it is equal? to itself)
    g = G()
    nan = g.leaf(("flt", str(NAN)))
    nan2 = g.leaf(("flt", str(NAN)))
    l1 = g.node("list", [nan])
    l2 = g.node("list", [nan2])
    ask(g, nan, nan2, ("eq", "hq"))
    ask(g, l1, l1, ("eq", "hq"))
    ask(g, l1, l2, ("eq", "hq"))
    cases.append(g)
    return cases


INNER = ["list", "vec", "mvec", "pair", "struct", "set", "map", "box"]
OUTER = ["list", "vec", "mvec", "struct", "set", "mapv", "pair", "box2"]


def mk_inner(g, kind, vals):
    """a small container of the given kind holding the leaves `vals` (two ints)."""
    ids = [g.leaf(("int", str(v))) for v in vals]
    if kind == "struct":
        return g.node("struct", ids, tag=3)
    if kind == "box":
        return g.node("box", [g.node("list", ids)])
    return g.node(kind, ids)


def mk_outer(g, kind, kids):
    if kind == "struct":
        return g.node("struct", kids, tag=4)
    if kind == "mapv":
        a = []
        for i, k in enumerate(kids):
            a += [g.leaf(("int", str(100 + i))), k]
        return g.node("map", a)
    if kind == "pair":
        # (x . (y . z)) chains cannot end in a list: use nested pairs ending in a leaf
        r = g.leaf(("int", "0"))
        for k in reversed(kids):
            r = g.node("pair", [k, r])
        return r
    if kind == "box2":
        return g.node("list", [g.node("box", [k]) for k in kids])
    return g.node(kind, kids)


def gen_dag_cases(rng, quick):
    """DAGs with a shared node in every position: left = K(p0..pn-1), right = K(q0..qn-1) where each
    slot is X (the shared object), C (a fresh equal copy), D (a fresh different value), and on the
    right also Y (a second shared object, equal to X).  Every assignment of slots is emitted: the
    legacy defect depended on the order in which the pairs are popped."""
    cases = []
    pats = []
    for n in (2, 3):
        import itertools
        for lp in itertools.product("XCD", repeat=n):
            for rp in itertools.product("XYCD", repeat=n):
                if lp.count("X") + rp.count("X") + rp.count("Y") < 2:
                    continue
                pats.append((lp, rp))
    combos = [(o, i) for o in OUTER for i in INNER]
    if quick:
        # every pattern with one (outer, inner) combination chosen round-robin, every combination at least once
        plan = [(combos[(k * 7 + rng.randrange(len(combos))) % len(combos)], p) for k, p in enumerate(pats)]
        plan += [(c, pats[rng.randrange(len(pats))]) for c in combos]
    else:
        plan = [(c, p) for c in combos for p in pats]
    g = None
    for (outer, inner), (lp, rp) in plan:
        if g is None or len(g.nodes) > 150:
            g = G()
            cases.append(g)
        if outer == "set" and inner in ("set",):
            pass
        x = mk_inner(g, inner, (1, 2))
        y = mk_inner(g, inner, (1, 2))

        def slot(s):
            if s == "X":
                return x
            if s == "Y":
                return y
            if s == "C":
                return mk_inner(g, inner, (1, 2))
            return mk_inner(g, inner, (3, 4))
        left = mk_outer(g, outer, [slot(s) for s in lp])
        right = mk_outer(g, outer, [slot(s) for s in rp])
        ask(g, left, right)
        ask(g, right, left, ("eq",))
    return cases


LX_LENGTHS_QUICK = [1, 2, 3, 4, 5, 7, 8, 9, 11, 12, 13, 16, 17, 27, 28, 29, 32, 33, 60, 61]
LX_LENGTHS_MORE = [15, 31, 59, 63, 64, 65, 123, 124, 125, 127, 128, 129, 251, 252, 253, 255, 256, 257, 507, 508, 509, 512]


def gen_shared_node_cases(rng, quick):
    """Lists that are DIFFERENT values but share nodes of the unrolled list (K11j), and lists that are EQUAL
    values built over different nodes: append / cons / cdr / list-tail / take / drop / reverse / map / range
    applied to common base lists whose lengths sit at and around the node capacities (4, 8, 16, .. 256;
    cumulative 4, 12, 28, 60, 124, 252, 508).  Every pair is compared (equal?, Hash, as key / member), and
    the interesting ones again nested inside every container kind, so that the visited set is involved."""
    cases = []
    lengths = LX_LENGTHS_QUICK if quick else LX_LENGTHS_QUICK + LX_LENGTHS_MORE
    for L in lengths:
        g = G()
        pool = [g.leaf(("int", str(i))) for i in range(10)]          # ids 0..9 = ints 0..9
        other = g.leaf(("int", "77"))
        el = [pool[i % 10] for i in range(L)]
        y = g.node("list", el)
        z = g.node("list", el)
        k1 = max(0, L - 1)
        kb = max(k for k in (0, 4, 12, 28, 60, 124, 252, 508) if k <= L)      # a node boundary inside y
        kh = L // 2
        tail5 = g.node("list", [pool[1], pool[2], pool[3], pool[4], pool[5]])
        tail5b = g.node("list", [pool[1], pool[2], pool[3], pool[4], pool[6]])
        d = {}
        d["A1"] = g.lx("(append", y, "(list", pool[4], "))")
        d["A2"] = g.lx("(append", y, "(list", pool[4], "))")
        d["B"] = g.lx("(append", y, "(list", pool[5], "))")               # shares y's nodes with A1, differs at the end
        d["A3"] = g.lx("(append", z, "(list", pool[4], "))")               # equal to A1, other nodes
        d["AL1"] = g.lx("(append", y, tail5, ")")
        d["AL2"] = g.lx("(append", y, tail5b, ")")
        d["AA"] = g.lx("(append", y, y, ")")
        d["AZ"] = g.lx("(append", y, z, ")")
        d["C1"] = g.lx("(cons", pool[0], y, ")")
        d["C2"] = g.lx("(cons", pool[0], y, ")")
        d["CD"] = g.lx("(cons", other, y, ")")
        d["CC"] = g.lx("(cons", pool[0], "(cons", pool[0], y, "))")
        d["T1"] = g.lx("(cdr", y, ")")
        d["T2"] = g.lx("(list-tail", y, "1)")
        d["T3"] = g.lx("(cdr", z, ")")
        d["DR"] = g.lx("(drop", y, "%d)" % kh)
        d["LT"] = g.lx("(list-tail", z, "%d)" % kh)
        d["K1"] = g.lx("(take", y, "%d)" % k1)
        d["K1z"] = g.lx("(take", z, "%d)" % k1)
        d["KL"] = g.lx("(take", y, "%d)" % L)
        d["KB"] = g.lx("(take", y, "%d)" % kb)
        d["P"] = g.lx("(append (take", y, "%d) (list-tail" % kb, y, "%d))" % kb)      # = y, other node structure
        d["PH"] = g.lx("(append (take", y, "%d) (list-tail" % kh, z, "%d))" % kh)
        d["RR"] = g.lx("(reverse (reverse", y, "))")
        d["RV"] = g.lx("(reverse", y, ")")
        d["RVz"] = g.lx("(reverse", z, ")")
        d["M"] = g.lx("(map (lambda (x) x)", y, ")")
        d["TA"] = g.lx("(cdr", d["C1"], ")")                                  # is y itself
        d["TB"] = g.lx("(list-tail", d["A1"], "1)")
        d["TBb"] = g.lx("(list-tail", d["B"], "1)")
        d["EA"] = g.lx("(list-tail", d["A1"], "%d)" % L)                      # the appended node alone
        d["EB"] = g.lx("(list-tail", d["B"], "%d)" % L)
        if L <= 10:
            d["RG"] = g.lx("(range 0 %d)" % L)
        names = list(d)
        if L > 64:      # long lists: the pairs that share nodes or are equal over different nodes
            names = [k for k in names if k in ("A1", "A2", "A3", "B", "AL1", "AL2", "C1", "C2", "CD", "P", "PH", "RR",
                                               "T1", "T2", "TB", "TBb", "EA", "EB", "KB", "KL", "M")]
        ids = [y, z] + [d[k] for k in names]
        # every pair at top level (equal?, hash, key); quick: all pairs for eq, a sample for hq/key
        for a in ids:
            for b in ids:
                if (quick or L > 64) and rng.random() < 0.6:
                    ask(g, a, b, ("eq",))
                else:
                    ask(g, a, b)
        # nested: slots from lists that share nodes (A1, B, AL1, AL2, C1, CD) and equal copies (A2, A3, C2)
        groups = [("A1", "A2", "A3", "B"), ("AL1", "AL1", "AL2", "AL2"), ("C1", "C2", "CD", "CC"), ("TB", "TBb", "T1", "T2"),
                  ("EA", "EB", "A1", "B")]
        for outer in OUTER:
            for grp in groups:
                slots = [d[k] for k in grp]
                npat = 6 if (quick or L > 64) else 40
                for _ in range(npat):
                    lp = [rng.choice(slots) for _ in range(2)]
                    rp = [rng.choice(slots) for _ in range(2)]
                    left = mk_outer(g, outer, lp)
                    right = mk_outer(g, outer, rp)
                    ask(g, left, right)
                    ask(g, right, left, ("eq",))
        cases.append(g)
    return cases


def gen_random_graph(rng, nmax):
    g = G()
    nleaf = rng.randint(2, 5)
    for _ in range(nleaf):
        g.leaf(rng.choice(SMALL_LEAVES))
    target = rng.randint(nleaf + 2, nmax)
    guard = 0
    while len(g.nodes) < target and guard < 200:
        guard += 1
        r = rng.random()
        n = len(g.nodes)
        conts = [i for i in range(n) if not g.is_leaf(i)]
        if r < 0.25 and conts:
            # an equal copy (fresh objects), maybe keeping the sharing shape
            src = rng.choice(conts)
            g.copy(src, None, {} if rng.random() < 0.5 else None)
            continue
        if r < 0.40 and conts:
            # a near miss: differs at one path only
            src = rng.choice(conts)
            path = []
            cur = src
            while not g.is_leaf(cur) and g.kids(cur) and (not path or rng.random() < 0.7):
                j = rng.randrange(len(g.kids(cur)))
                path.append(j)
                cur = g.kids(cur)[j]
            g.copy(src, path, None)
            continue
        kind = rng.choice(CONTAINERS)
        arity = 2 if kind == "pair" else (1 if kind == "box" else rng.choice([0, 1, 2, 2, 3]))
        if kind == "map":
            arity = 2 * rng.choice([0, 1, 2, 2, 3])
        # bias towards recent nodes and towards re-using the same node (sharing)
        pool = list(range(n))
        kids = []
        for _ in range(arity):
            if kids and rng.random() < 0.35:
                kids.append(rng.choice(kids))
            else:
                kids.append(pool[max(0, n - 1 - int(abs(rng.gauss(0, n / 2.0))))] if rng.random() < 0.6 else rng.choice(pool))
        if kind == "pair" and g.nodes[kids[1]][0] == "list":
            kind = "list"          # (cons x <list>) is a list, not a pair
        g.node(kind, kids, tag=rng.randint(1, 2) if kind == "struct" else None)
    n = len(g.nodes)
    conts = [i for i in range(n) if not g.is_leaf(i)] or [0]
    seen = set()
    for _ in range(12):
        a, b = rng.choice(conts), rng.choice(conts)
        if (a, b) in seen:
            continue
        seen.add((a, b))
        ask(g, a, b)
    if len(g.nodes) > 1400:
        return None
    return g


def gen_key_cases():
    """collections as keys of hash maps / members of hash sets, nested."""
    g = G()
    one, two, three = g.leaf(("int", "1")), g.leaf(("int", "2")), g.leaf(("int", "3"))

    def fam(mk):
        a, b, c = mk([one, two, three]), mk([one, two, three]), mk([one, two, two])
        return a, b, c
    fams = []
    for kind in ["list", "vec", "mvec", "set"]:
        fams.append(fam(lambda ks, kind=kind: g.node(kind, ks)))
    fams.append(fam(lambda ks: g.node("struct", ks, tag=5)))
    fams.append(fam(lambda ks: g.node("map", [ks[0], ks[1], ks[1], ks[2], ks[2], ks[0]] if ks[2] != ks[1] else [ks[0], ks[1], ks[1], ks[2]])))
    fams.append(fam(lambda ks: g.node("map", [g.node("list", ks[:2]), ks[2], g.node("set", ks), ks[0]])))
    fams.append(fam(lambda ks: g.node("set", [g.node("set", ks), g.node("set", ks[:1]), g.node("list", ks)])))
    fams.append(fam(lambda ks: g.node("set", [g.node("map", [ks[0], ks[1], ks[1], ks[2]]), g.node("vec", ks)])))
    for (a, b, c) in fams:
        ask(g, a, b)
        ask(g, b, a)
        ask(g, a, c)
        ask(g, c, a)
    # vector kinds are interchangeable, order of set members / map entries is irrelevant
    v, mv = g.node("vec", [one, two]), g.node("mvec", [one, two])
    ask(g, v, mv)
    ask(g, mv, v)
    s1, s2 = g.node("set", [one, two, three]), g.node("set", [three, two, one])
    ask(g, s1, s2)
    m1 = g.node("map", [one, two, two, three, three, one])
    m2 = g.node("map", [three, one, two, three, one, two])
    ask(g, m1, m2)
    big = [g.leaf(("int", str(i))) for i in range(10, 40)]
    sa, sb = g.node("set", big), g.node("set", list(reversed(big)))
    ask(g, sa, sb)
    ma = g.node("map", [x for i in range(0, 30, 2) for x in (big[i], big[i + 1])])
    mb = g.node("map", [x for i in reversed(range(0, 30, 2)) for x in (big[i], big[i + 1])])
    ask(g, ma, mb)
    return [g]


def gen_constructor_cases():
    """`(hashset ..)` / `(hash ..)` whose ARGUMENTS contain members that are equal? but different objects (separately built
    lists / sets / maps, a mutable and an immutable vector, 0.0 and -0.0), in every position: which object the real
    collection keeps is what the model constructors mkSet / mkMap must reproduce (`mk` tie), and the result must have
    pairwise different members (guards KeysDistinct / MembersDistinct, established by the constructors:
    Props.built_guards)."""
    import itertools
    cases = []
    for kind in ["list", "set", "vecs", "zero", "map", "nested", "struct"]:
        g = G()
        one, two = g.leaf(("int", "1")), g.leaf(("int", "2"))
        z, nz = g.leaf(("flt", str(fbits(0.0)))), g.leaf(("flt", str(fbits(-0.0))))
        if kind == "struct":
            e = [g.node("struct", [one], tag=7), g.node("struct", [one], tag=7), g.node("struct", [one], tag=7), g.node("struct", [two], tag=7)]
        elif kind == "vecs":
            e = [g.node("vec", [one, two]), g.node("mvec", [one, two]), g.node("vec", [one, two]), g.node("vec", [two, one])]
        elif kind == "zero":
            e = [z, nz, z, one]
        elif kind == "map":
            e = [g.node("map", [one, two, two, one]), g.node("map", [two, one, one, two]), g.node("map", [one, two, two, one]),
                 g.node("map", [one, two])]
        elif kind == "nested":
            e = [g.node("list", [g.node("set", [one, two])]) for _ in range(3)] + [g.node("list", [g.node("set", [one])])]
        else:
            e = [g.node(kind, [one, two]), g.node(kind, [one, two]), g.node(kind, [one, two]), g.node(kind, [two, one])]
        made = []
        for perm in itertools.permutations(range(4), 3):
            made.append(g.node("set", [e[i] for i in perm]))
            made.append(g.node("map", [x for n, i in enumerate(perm) for x in (e[i], [one, two, z][n])]))
        made.append(g.node("set", [e[0], e[1], e[2], e[0], e[3], e[1]]))
        for a in made[:4]:
            for b in made[:8]:
                ask(g, a, b)
        # sets of such sets: the members of the outer set are themselves constructor-built
        ask(g, g.node("set", made[0:6:2]), g.node("set", made[6:12:2]))
        cases.append(g)
    return cases


def gen_keyed_cases(rng, quick):
    """Operation SEQUENCES on a hash map / hash set whose keys are themselves collections (and equal-but-distinct
    objects, the two vector kinds, 0.0 / -0.0, nested sets and maps): `gm insert K v`, `gm remove K`, `gm ref K`,
    `gm contains K`, `gm len`, `gs insert K`, `gs contains K`, `gs len`, `gs union|inter|diff|subset[r] K..` (set algebra
    against a literal set).  Model: `gmInsert` / `gmGet` / `gmRemove` / `gsUnion` / `gsInter` / `gsSymDiff` / `gsSubset` with the
    key equality of the code; theorems Props.keyed_map_*, keyed_set_laws, keyed_set_algebra: a finite map / set whose keys
    are taken modulo equal?."""
    cases = []
    n = 40 if quick else 400
    for ci in range(n):
        g = G()
        pool = []
        for kind in rng.sample(INNER, 4):
            x = mk_inner(g, kind, (1, 2))
            pool += [x, mk_inner(g, kind, (1, 2)), mk_inner(g, kind, (3, 4))]
            if rng.random() < 0.5:
                pool += [mk_outer(g, rng.choice(OUTER), [x, x]), mk_outer(g, "list", [mk_inner(g, kind, (1, 2)), x])]
        one, two = g.leaf(("int", "1")), g.leaf(("int", "2"))
        pool += [g.node("vec", [one, two]), g.node("mvec", [one, two]), g.leaf(("flt", str(fbits(0.0)))),
                 g.leaf(("flt", str(fbits(-0.0)))), one, g.leaf(("str", "97")), g.leaf(("sym", "97")), g.leaf(("int", "1"))]
        g.raw.append(["gm", "new"])
        g.raw.append(["gs", "new"])
        for _ in range(30 if quick else 60):
            k = rng.choice(pool)
            r = rng.random()
            if r < 0.3:
                g.raw.append(["gm", "insert", k, str(rng.randint(0, 99))])
            elif r < 0.42:
                g.raw.append(["gm", "remove", k])
            elif r < 0.62:
                g.raw.append(["gm", "ref", k])
            elif r < 0.7:
                g.raw.append(["gm", "contains", k])
            elif r < 0.73:
                g.raw.append(["gm", "len"])
            elif r < 0.75:
                # hash-union with a literal map of 0..3 entries (equal-but-distinct keys among them), either side
                lit = []
                for _ in range(rng.randint(0, 3)):
                    lit += [rng.choice(pool), str(rng.randint(100, 199))]
                g.raw.append(["gm", rng.choice(["union", "unionr"])] + lit)
            elif r < 0.84:
                g.raw.append(["gs", "insert", k])
            elif r < 0.90:
                g.raw.append(["gs", "contains", k])
            elif r < 0.98:
                # the set algebra against a literal set of 0..4 members (equal-but-distinct objects among them)
                g.raw.append(["gs", rng.choice(["union", "unionr", "inter", "interr", "diff", "diffr", "subset", "subsetr"])]
                             + [rng.choice(pool) for _ in range(rng.randint(0, 4))])
            else:
                g.raw.append(["gs", "len"])
        cases.append(g)
    return cases


# ------------------------------------------------------------------------------------------------
# running graph cases
# ------------------------------------------------------------------------------------------------
def run_graph_batch(batch, timeout=120):
    """batch = list of (label, G).  Returns list of per-case results or an error description."""
    hin, spans = [], []
    for idx, (label, g) in enumerate(batch):
        ls = ["reset"] + g.lines("c%d_" % idx)
        spans.append((len(hin), len(hin) + len(ls)))
        hin += ls
    rc, hout, herr = C.run_bin([C.bin_path(HARNESS)], "\n".join(hin) + "\n", timeout=timeout)
    hl = hout.splitlines()
    if rc != 0 or len(hl) != len(hin):
        return {"error": "harness rc=%d lines=%d/%d %s" % (rc, len(hl), len(hin), herr[-300:]), "hin": hin, "hout": hl}
    # the driver reads the RESOLVED definitions; after every hash set / hash map it is also told the ORIGINAL arguments
    # (`mk NAME set|map A..`), so that the model constructors mkSet / mkMap (member-by-member insertion with the key
    # equality of the code, an equal member is replaced) are compared with the members the real object has
    din, owner = [], []
    for idx, (i, o) in enumerate(zip(hin, hl)):
        din.append(o if o.startswith("def ") else i)
        owner.append(idx)
        t = i.split()
        if o.startswith("def ") and len(t) >= 3 and t[0] == "def" and t[2] in ("set", "map") and "?" not in o.split():
            din.append("mk %s %s %s" % (t[1], t[2], " ".join(t[3:])))
            owner.append(-1 - idx)
    rc, dout, derr = C.run_bin([C.driver_path(DRIVER)], "\n".join(din) + "\n", timeout=max(300, timeout))
    dl_all = dout.splitlines()
    if rc != 0 or len(dl_all) != len(din):
        return {"error": "driver rc=%d lines=%d/%d %s" % (rc, len(dl_all), len(din), derr[-300:]), "hin": hin, "hout": hl}
    dl = [None] * len(hin)
    for w, line in zip(owner, dl_all):
        if w >= 0:
            dl[w] = line
        else:
            dl[-1 - w] = dl[-1 - w] + " | " + line          # `def NAME | mk same=true`
    res = []
    for (s, e) in spans:
        res.append((hin[s:e], hl[s:e], dl[s:e]))
    return {"cases": res}


def kv(line):
    return dict(re.findall(r"(\w+)=(\w+)", line))


def judge_graph(ctx, label, g, hin, hl, dl, stats):
    """compare one case; returns list of (kind, message) problems."""
    probs = []
    for i, (q, r, m) in enumerate(zip(hin, hl, dl)):
        op = q.split()[0]
        if op in ("reset",):
            continue
        if r.startswith("panic") or r.startswith("bad"):
            probs.append(("violation", "line `%s`: real code answered `%s`" % (q, r)))
            continue
        if op == "def":
            if "?" in r.split():
                probs.append(("violation", "line `%s`: a hash map/set holds a value that is none of the inserted objects: `%s`" % (q, r)))
            if not m.startswith("def "):
                probs.append(("model", "driver could not read `%s` -> `%s`" % (r, m)))
            if "| mk " in m:
                stats["constructor_ties"] += 1
                if "same=true" not in m:
                    probs.append(("model", "`%s`: the real object has the members `%s`, the model constructor mkSet/mkMap "
                                           "(insertion with the key equality of the code) yields other ones" % (q, r)))
            continue
        if op in ("gm", "gs"):
            stats["evaluations"] += 1
            stats["keyed_ops"] += 1
            if r != m:
                probs.append(("violation", "`%s`: the real %s keyed by values answers `%s`, the finite map/set whose keys are taken "
                                           "modulo equal? answers `%s`" % (q, "hash map" if op == "gm" else "hash set", r, m)))
            continue
        d = kv(m)
        stats["evaluations"] += 1
        if op == "eq":
            t = r.split()
            real, rust = t[1], t[2]
            stats["eq"] += 1
            if real != rust:
                probs.append(("violation", "`%s`: equal? through the engine = %s but Rust == = %s" % (q, real, rust)))
            if d.get("wf") != "true":
                probs.append(("model", "`%s`: generated graph is not well formed: %s" % (q, m)))
                continue
            if d.get("sig") != "true":
                probs.append(("violation", "`%s`: two real lists with the same (storage, index, next node) have different "
                                           "elements: the assumption ListSigOK about im-lists does not hold: %s" % (q, m)))
                continue
            if d.get("keys") != "true":
                # the definitions are the resolved ones: the REAL hash map holds two keys with equal unfoldings
                if d.get("nonan") == "true":
                    probs.append(("violation", "`%s`: a real hash map reachable here holds two keys whose unfoldings are equal "
                                               "(it is not a finite map): %s" % (q, m)))
                continue
            if d.get("members") != "true":
                if d.get("nonan") == "true":
                    probs.append(("violation", "`%s`: a real hash set reachable here holds two members whose unfoldings are equal "
                                               "(it is not a finite set): %s" % (q, m)))
                continue
            if d.get("shared") == "true":
                stats["eq_shared"] += 1
            if d.get("old") != d.get("spec"):
                stats["eq_legacy_would_fail"] += 1
            if d.get("nonan") == "true":
                if real != d["spec"]:
                    probs.append(("violation", "`%s`: equal? = %s, equality of the unfoldings = %s (model of the code: %s)" % (q, real, d["spec"], d["impl"])))
                    continue
                if d["spec"] == "true":
                    stats["eq_true"] += 1
            if real != d["impl"]:
                probs.append(("model", "`%s`: equal? = %s, model = %s (spec %s)" % (q, real, d["impl"], d["spec"])))
        elif op == "hq":
            real = r.split()[1]
            stats["hq"] += 1
            if d.get("impl") == "true" and real != "true":
                probs.append(("model", "`%s`: hashes differ but the model says they are fed the same stream" % q))
            stats["hq_true"] += real == "true"
            prev = kv(dl[i - 1]) if i > 0 and dl[i - 1].startswith("eq ") else None
            if prev and prev.get("spec") == "true" and prev.get("nonan") == "true" and real != "true":
                probs.append(("violation", "`%s`: the values are equal (unfoldings) but hash differently" % q))
        elif op == "key":
            t = r.split()
            stats["key"] += 1
            nonan = True
            for back in (1, 2):
                if i - back >= 0 and dl[i - back].startswith("eq "):
                    nonan = kv(dl[i - back]).get("nonan") == "true"
            if nonan:
                for what, real in (("hash-contains?", t[1]), ("hashset-contains?", t[2])):
                    if real != d["spec"]:
                        probs.append(("violation", "`%s`: %s = %s but equality of the unfoldings = %s: not interchangeable as key" % (q, what, real, d["spec"])))
            if t[1] != d["impl"] or t[2] != d["impl"]:
                probs.append(("model", "`%s`: real %s/%s, model %s" % (q, t[1], t[2], d["impl"])))
            stats["key_true"] += t[1] == "true"
    return probs


def minimise_text(hin):
    return "\n".join(hin) + "\n"


def run_graph_cases(ctx, cases, label, stats, batch_size=40):
    batches = [[("%s-%d" % (label, i + j), g) for j, g in enumerate(cases[i:i + batch_size])]
               for i in range(0, len(cases), batch_size)]
    results = C.pool_map(run_graph_batch, batches)
    for batch, res in zip(batches, results):
        if "error" in res:
            # a crash, a hang or an overloaded machine: rerun every case on its own (long timeout); a case that
            # still fails alone is a violation, the others are judged from their own run
            redone = []
            for (lab, g) in batch:
                one = run_graph_batch([(lab, g)], timeout=900)
                if "error" in one:
                    ctx.violation("C11-%s-crash.txt" % lab,
                                  "# the real code crashed / hung on this input (%s)\n" % one["error"].split("\n")[0]
                                  + "\n".join(["reset"] + g.lines("c0_")) + "\n")
                    redone = None
                    break
                redone.append(one["cases"][0])
            if redone is None:
                continue
            res = {"cases": redone}
        for (lab, g), (hin, hl, dl) in zip(batch, res["cases"]):
            stats["graphs"] += 1
            stats["nodes"] += len(g.nodes)
            stats["max_nodes"] = max(stats["max_nodes"], len(g.nodes))
            for k, _a in g.nodes:
                stats["kinds"][k] = stats["kinds"].get(k, 0) + 1
            probs = judge_graph(ctx, lab, g, hin, hl, dl, stats)
            if len(stats["samples"]) < 3 and any(l.startswith("eq true") for l in hl) and len(g.nodes) > 8 and label.startswith("rand"):
                stats["samples"].append({"input": hin[:40], "real": [l for l in hl if not l.startswith("def")][:6],
                                         "model": [l for l in dl if not l.startswith("def")][:6]})
            viol = [p for p in probs if p[0] == "violation"]
            mod = [p for p in probs if p[0] == "model"]
            body = "# feed to harness/c11 (and the resolved definitions to c11driver)\n" + minimise_text(hin)
            if viol:
                if len([v for v in ctx.violations if not v[1]]) < 5:
                    ctx.violation("C11-%s.txt" % lab, body + "".join("# %s\n" % m for _k, m in viol[:10]))
            elif mod:
                stats["pending"].append(("C11-%s.txt" % lab, body + "".join("# %s\n" % m for _k, m in mod[:10])))


# ------------------------------------------------------------------------------------------------
# corpus: literal Steel programs with the expected answer (regression witnesses of fixed defects)
# ------------------------------------------------------------------------------------------------
def run_corpus(ctx, stats):
    cdir = os.path.join(C.VERIF, "corpus", "C11")
    n = 0
    for fn in sorted(os.listdir(cdir)):
        if not fn.endswith(".txt"):
            continue
        path = os.path.join(cdir, fn)
        cases = []
        for line in open(path):
            line = line.rstrip("\n")
            if not line.strip() or line.startswith("# ") or " ==> " not in line:
                continue
            src, exp = line.rsplit(" ==> ", 1)
            cases.append((exp.strip(), src))
        hin = ["coll " + src for _e, src in cases]
        rc, out, err = C.run_bin([C.bin_path(HARNESS)], "\n".join(hin) + "\n", timeout=60)
        ol = out.splitlines()
        if rc != 0 or len(ol) != len(hin):
            # find the line that kills the process
            culprit = hin[len(ol)] if len(ol) < len(hin) else "?"
            ctx.violation("C11-corpus-%s-crash.txt" % fn[:-4],
                          "# corpus %s: the real code crashed (rc=%d) on\n%s\n" % (fn, rc, culprit))
            continue
        for (exp, src), o in zip(cases, ol):
            n += 1
            got = o[5:] if o.startswith("coll ") else o
            if got != exp:
                ctx.violation("C11-corpus-%s-%d.txt" % (fn[:-4], n),
                              "# corpus/C11/%s: regression of a fixed defect\ncoll %s\n# expected %s, real code: %s\n" % (fn, src, exp, got))
    stats["corpus_cases"] = n


# ------------------------------------------------------------------------------------------------
# collection operation sequences
# ------------------------------------------------------------------------------------------------
def gen_coll_seq(rng, reg, length):
    """list of driver op lines for one register"""
    ops = []

    def ival(lo=-2, hi=6):
        return rng.randint(lo, hi)

    def seq(n=None, lo=0, hi=9):
        return [rng.randint(lo, hi) for _ in range(rng.randint(0, 5) if n is None else n)]
    if reg == "cm":
        ops.append("cm new " + " ".join(str(x) for x in seq(2 * rng.randint(0, 4), 0, 4)))
        for _ in range(length):
            r = rng.random()
            if r < 0.12:
                own = rng.choice(["", "_let", "_n", "_c"])
                ops.append("cm %s%s " % (rng.choice(["union", "unionr"]), own)
                           + " ".join(str(x) for x in seq(2 * rng.randint(0, 3), 0, 5)))
            elif r < 0.16:
                l, rr = seq(2 * rng.randint(0, 3), 0, 5), seq(2 * rng.randint(0, 3), 0, 5)
                ops.append("cm uniontt%s %d " % (rng.choice(["", "_let", "_n", "_ln", "_nl"]), len(l)) + " ".join(str(x) for x in l + rr))
            elif r < 0.20:
                ops.append("cm insert2 %d %d %d %d" % (rng.randint(0, 5), rng.randint(0, 99), rng.randint(0, 5), rng.randint(0, 99)))
            elif r < 0.23:
                ops.append("cm insrem %d %d %d" % (rng.randint(0, 5), rng.randint(0, 99), rng.randint(0, 5)))
            elif r < 0.3:
                ops.append("cm insert %d %d" % (rng.randint(0, 5), rng.randint(0, 99)))
            elif r < 0.45:
                ops.append("cm remove %d" % rng.randint(0, 5))
            elif r < 0.6:
                ops.append("cm ref %d" % rng.randint(0, 5))
            elif r < 0.75:
                ops.append("cm tryget %d" % rng.randint(0, 5))
            elif r < 0.84:
                ops.append("cm contains %d" % rng.randint(0, 5))
            elif r < 0.89:
                ops.append("cm keys")
            elif r < 0.94:
                ops.append("cm values")
            elif r < 0.95:
                ops.append("cm clear")
            else:
                ops.append("cm len")
    elif reg == "cs":
        ops.append("cs new " + " ".join(str(x) for x in seq(None, 0, 4)))
        for _ in range(length):
            r = rng.random()
            if r < 0.25:
                ops.append("cs %s%s " % (rng.choice(["union", "unionr", "inter", "interr", "diff", "diffr"]), rng.choice(["", "_let", "_n"]))
                           + " ".join(str(x) for x in seq(None, 0, 5)))
            elif r < 0.4:
                ops.append("cs insert %d" % rng.randint(0, 5))
            elif r < 0.7:
                ops.append("cs contains %d" % rng.randint(0, 5))
            elif r < 0.8:
                ops.append("cs %s " % rng.choice(["subset", "subsetr"]) + " ".join(str(x) for x in seq(None, 0, 5)))
            elif r < 0.88:
                ops.append("cs list")
            elif r < 0.9:
                ops.append("cs clear")
            else:
                ops.append("cs len")
    elif reg == "cl":
        ops.append("cl new " + " ".join(str(x) for x in seq()))
        for _ in range(length):
            r = rng.random()
            if r < 0.2:
                ops.append("cl ref %d" % ival())
            elif r < 0.3:
                ops.append("cl first")
            elif r < 0.4:
                ops.append("cl last")
            elif r < 0.5:
                ops.append("cl rest")
            elif r < 0.6:
                ops.append("cl take %d" % ival())
            elif r < 0.7:
                ops.append("cl tail %d" % ival())
            elif r < 0.72:
                ops.append(rng.choice(["cl appendl " + " ".join(str(x) for x in seq()),
                                       "cl append2 %d %d" % (rng.randint(0, 9), rng.randint(0, 9)),
                                       "cl cons2 %d %d" % (rng.randint(0, 9), rng.randint(0, 9))]))
            elif r < 0.8:
                ops.append("cl append " + " ".join(str(x) for x in seq()))
            elif r < 0.84:
                ops.append("cl reverse")
            elif r < 0.88:
                ops.append("cl drop %d" % ival())
            elif r < 0.91:
                ops.append(rng.choice(["cl range %d %d" % (ival(-1, 6), ival(-1, 8)), "cl range1 %d" % ival(-1, 6)]))
            elif r < 0.93:
                b = seq()
                ops.append("cl append3 %d " % len(b) + " ".join(str(x) for x in b + seq()))
            elif r < 0.97:
                ops.append("cl cons %d" % rng.randint(0, 9))
            else:
                ops.append("cl len")
    elif reg == "cv":
        ops.append("cv new " + " ".join(str(x) for x in seq()))
        for _ in range(length):
            r = rng.random()
            if r < 0.35:
                ops.append("cv ref %d" % ival())
            elif r < 0.7:
                ops.append("cv set %d %d" % (ival(), rng.randint(0, 99)))
            elif r < 0.82:
                ops.append("cv push %d" % rng.randint(0, 99))
            elif r < 0.87:
                ops.append("cv append " + " ".join(str(x) for x in seq()))
            elif r < 0.92:
                b = seq()
                ops.append("cv append3 %d " % len(b) + " ".join(str(x) for x in b + seq()))
            else:
                ops.append("cv len")
    elif reg == "ci":
        ops.append("ci new " + " ".join(str(x) for x in seq()))
        for _ in range(length):
            r = rng.random()
            u = rng.choice(["", "_u"])          # `_u`: the primitive gets a uniquely owned copy (its in-place branch)
            if r < 0.25:
                ops.append("ci ref %d" % ival())
            elif r < 0.4:
                ops.append("ci set%s %d %d" % (u, ival(), rng.randint(0, 99)))
            elif r < 0.55:
                ops.append("ci take%s %d" % (u, ival(-1, 7)))
            elif r < 0.7:
                ops.append("ci drop%s %d" % (u, ival(-1, 7)))
            elif r < 0.78:
                ops.append("ci rest")
            elif r < 0.88:
                ops.append("ci push %d" % rng.randint(0, 99))
            elif r < 0.93:
                b = seq()
                ops.append("ci append3 %d " % len(b) + " ".join(str(x) for x in b + seq()))
            else:
                ops.append("ci len")
    elif reg == "cb":
        ops.append("cb new " + " ".join(str(x) for x in seq(None, 0, 255)))
        for _ in range(length):
            r = rng.random()
            if r < 0.3:
                ops.append("cb ref %d" % ival())
            elif r < 0.7:
                ops.append("cb set %d %d" % (ival(), rng.choice([0, 1, 255, 256, -1, 128, 300])))
            elif r < 0.8:
                ops.append("cb new " + " ".join(str(x) for x in seq(None, 250, 257)))
            elif r < 0.86:
                ops.append("cb append " + " ".join(str(x) for x in seq(None, 0, 255)))
            elif r < 0.9:
                b = seq(None, 0, 255)
                ops.append("cb append3 %d " % len(b) + " ".join(str(x) for x in b + seq(None, 0, 255)))
            elif r < 0.95:
                ops.append("cb push %d" % rng.choice([0, 7, 255, 256, -1]))
            else:
                ops.append("cb len")
    elif reg == "ct":
        alphabet = [97, 98, 233, 955, 128512, 32]
        ops.append("ct new " + " ".join(str(rng.choice(alphabet)) for _ in range(rng.randint(0, 6))))
        for _ in range(length):
            r = rng.random()
            if r < 0.3:
                ops.append("ct ref %d" % ival())
            elif r < 0.6:
                ops.append("ct sub %d %d" % (ival(-1, 7), ival(-1, 7)))
            elif r < 0.7:
                ops.append("ct sub1 %d" % ival(-1, 7))
            elif r < 0.78:
                ops.append(rng.choice(["ct tolist", "ct tolist %d" % ival(-1, 7), "ct tolist %d %d" % (ival(-1, 7), ival(-1, 7))]))
            elif r < 0.88:
                ops.append("ct append " + " ".join(str(rng.choice(alphabet)) for _ in range(rng.randint(0, 3))))
            elif r < 0.92:
                b = [rng.choice(alphabet) for _ in range(rng.randint(0, 2))]
                ops.append("ct append3 %d " % len(b) + " ".join(str(x) for x in b + [rng.choice(alphabet) for _ in range(rng.randint(0, 2))]))
            else:
                ops.append("ct len")
    return ops


def steel_of(op):
    """Steel source for one driver op line, and how to read the answer."""
    t = op.split()
    reg, o, a = t[0], t[1], t[2:]
    A = " ".join(a)
    state = {"cm": "(hash->list cm)", "cs": "(hashset->list cs)", "cl": "cl", "cv": "(vector->list cv)", "ci": "(immutable-vector->list ci)",
             "cb": "(bytes->list cb)", "ct": "(map char->integer (string->list ct))"}[reg]

    def upd(expr):
        return "(begin (set! %s %s) %s)" % (reg, expr, state), "state"
    base, _, own = o.partition("_")
    if reg == "cm" and base in ("union", "unionr", "uniontt"):
        # the same union under every ownership pattern of its arguments: `hm_union` has one branch per
        # (left uniquely owned?, right uniquely owned?)
        if base == "uniontt":
            n = int(a[0])
            m1, m2 = "(hash %s)" % " ".join(a[1:1 + n]), "(hash %s)" % " ".join(a[1 + n:])
            expr = {"": "(hash-union %s %s)" % (m1, m2),
                    "let": "(let ((ta %s) (tb %s)) (hash-union ta tb))" % (m1, m2),
                    "n": "(begin (set! cm2 %s) (set! cm3 %s) (hash-union cm2 cm3))" % (m1, m2),
                    "ln": "(begin (set! cm2 %s) (hash-union cm2 %s))" % (m1, m2),
                    "nl": "(begin (set! cm3 %s) (hash-union %s cm3))" % (m2, m1)}[own]
            return upd(expr)
        lit = "(hash %s)" % A
        other = {"": lit, "let": "t", "n": "cm2", "c": lit}[own]
        mine = "(hash-union cm (hash))" if own == "c" else "cm"       # `c`: a uniquely owned copy of cm
        call = "(hash-union %s %s)" % ((mine, other) if base == "union" else (other, mine))
        if own == "let":
            call = "(let ((t %s)) %s)" % (lit, call)
        if own == "n":
            call = "(begin (set! cm2 %s) %s)" % (lit, call)
        return upd(call)
    if reg == "cs" and base in ("union", "unionr", "inter", "interr", "diff", "diffr"):
        stem = {"unionr": "union", "interr": "inter", "diffr": "diff"}.get(base, base)
        fn = {"union": "hashset-union", "inter": "hashset-intersection", "diff": "hashset-difference"}[stem]
        lit = "(hashset %s)" % A
        other = {"": lit, "let": "t", "n": "cs2"}[own]
        left_is_mine = base in ("union", "inter", "diff")
        call = "(%s %s %s)" % ((fn, "cs", other) if left_is_mine else (fn, other, "cs"))
        if own == "let":
            call = "(let ((t %s)) %s)" % (lit, call)
        if own == "n":
            call = "(begin (set! cs2 %s) %s)" % (lit, call)
        return upd(call)
    if reg == "cm" and base == "insert2":
        return upd("(hash-insert (hash-insert cm %s %s) %s %s)" % tuple(a))
    if reg == "cm" and base == "insrem":
        return upd("(hash-remove (hash-insert cm %s %s) %s)" % tuple(a))
    if reg == "cl" and base == "appendl":
        return upd("(append (list %s) cl)" % A)
    if reg == "cl" and base == "append2":
        return upd("(append (append cl (list %s)) (list %s))" % tuple(a))
    if reg == "cl" and base == "cons2":
        return upd("(cons %s (cons %s cl))" % tuple(a))
    if base == "append3":
        # n-ary append with the register in the middle and an empty collection among the arguments
        n = int(a[0])
        bef, aft = " ".join(a[1:1 + n]), " ".join(a[1 + n:])
        if reg == "cl":
            return upd("(append (list %s) cl (list) (list %s))" % (bef, aft))
        if reg == "cv":
            return upd("(vector-append (vector %s) cv (vector %s) (vector))" % (bef, aft))
        if reg == "cb":
            return upd("(bytes-append (bytes %s) cb (bytes) (bytes %s))" % (bef, aft))
        if reg == "ci":
            return upd("(immutable-vector-append (immutable-vector %s) ci (immutable-vector %s) (immutable-vector))" % (bef, aft))
        if reg == "ct":
            mk = lambda x: "(list->string (map integer->char (list %s)))" % x
            return upd("(string-append %s ct \"\" %s)" % (mk(bef), mk(aft)))
    if reg == "cm":
        return {"new": upd("(hash %s)" % A), "insert": upd("(hash-insert cm %s)" % A), "remove": upd("(hash-remove cm %s)" % A),
                "ref": ("(hash-ref cm %s)" % A, "res"), "tryget": ("(hash-try-get cm %s)" % A, "opt"),
                "contains": ("(hash-contains? cm %s)" % A, "bool"), "len": ("(hash-length cm)", "num"),
                "keys": ("(hash-keys->list cm)", "bag"), "values": ("(hash-values->list cm)", "bag"),
                "clear": upd("(hash-clear cm)")}[o]
    if reg == "cs":
        return {"new": upd("(hashset %s)" % A), "insert": upd("(hashset-insert cs %s)" % A),
                "contains": ("(hashset-contains? cs %s)" % A, "bool"), "len": ("(hashset-length cs)", "num"),
                "subset": ("(hashset-subset? cs (hashset %s))" % A, "bool"),
                "subsetr": ("(hashset-subset? (hashset %s) cs)" % A, "bool"),
                "list": ("(hashset->list cs)", "bag"), "clear": upd("(hashset-clear cs)")}[o]
    if reg == "cl":
        return {"new": upd("(list %s)" % A), "ref": ("(list-ref cl %s)" % A, "res"), "first": ("(first cl)", "res"),
                "last": ("(last cl)", "res"), "rest": upd("(rest cl)"), "take": upd("(take cl %s)" % A),
                "tail": upd("(list-tail cl %s)" % A), "append": upd("(append cl (list %s))" % A),
                "reverse": upd("(reverse cl)"), "cons": upd("(cons %s cl)" % A), "len": ("(length cl)", "num"),
                "drop": upd("(drop cl %s)" % A), "range": upd("(range %s)" % A), "range1": upd("(range %s)" % A)}[o]
    if reg == "cv":
        return {"new": upd("(vector %s)" % A), "ref": ("(vector-ref cv %s)" % A, "res"),
                "set": ("(begin (vector-set! cv %s) %s)" % (A, state), "state"),
                "push": ("(begin (vector-push! cv %s) %s)" % (A, state), "state"), "len": ("(vector-length cv)", "num"),
                "append": upd("(vector-append cv (vector %s))" % A)}[o]
    if reg == "ci":
        # `_u`: a fresh, uniquely owned copy is handed to the primitive (Gc::get_mut succeeds: the in-place branch);
        # otherwise the global `ci` is a second owner (the copying branch)
        me = "(apply immutable-vector (immutable-vector->list ci))" if own == "u" else "ci"
        return {"new": upd("(immutable-vector %s)" % A), "ref": ("(vector-ref ci %s)" % A, "res"),
                "set": upd("(immutable-vector-set %s %s)" % (me, A)), "take": upd("(immutable-vector-take %s %s)" % (me, A)),
                "drop": upd("(immutable-vector-drop %s %s)" % (me, A)), "rest": upd("(immutable-vector-rest ci)"),
                "push": upd("(immutable-vector-push ci %s)" % A), "len": ("(vector-length ci)", "num")}[base]
    if reg == "cb":
        return {"new": upd("(bytes %s)" % A), "ref": ("(bytes-ref cb %s)" % A, "res"),
                "set": ("(begin (bytes-set! cb %s) %s)" % (A, state), "state"),
                "append": upd("(bytes-append cb (bytes %s))" % A), "len": ("(bytes-length cb)", "num"),
                "push": ("(begin (bytes-push! cb %s) %s)" % (A, state), "state")}[o]
    if reg == "ct":
        chars = "(list->string (map integer->char (list %s)))" % A
        return {"new": upd(chars), "ref": ("(char->integer (string-ref ct %s))" % A, "res"),
                "sub": upd("(substring ct %s)" % A), "sub1": upd("(substring ct %s)" % A),
                "tolist": ("(map char->integer (string->list ct %s))" % A, "state"),
                "append": upd("(string-append ct %s)" % chars), "len": ("(string-length ct)", "num")}[o]
    raise KeyError(op)


def canon_real(reg, how, out):
    """canonical form (the driver's) of the harness answer `coll ...`"""
    if not out.startswith("coll"):
        return out
    v = out[5:] if len(out) > 5 else ""
    if v == "err":
        return "err"
    nums = [int(x) for x in re.findall(r"-?\d+", v)]
    if how == "state":
        if reg == "cm":
            pairs = sorted(zip(nums[0::2], nums[1::2]))
            return " ".join(["map"] + ["%d:%d" % p for p in pairs])
        if reg == "cs":
            return " ".join(["set"] + [str(x) for x in sorted(nums)])
        return " ".join(["seq"] + [str(x) for x in nums])
    if how == "bag":
        return " ".join(["set"] + [str(x) for x in sorted(nums)])
    if how == "res":
        return "ok %d" % nums[0] if nums else "?" + v
    if how == "opt":
        return "none" if v == "#false" else ("some %d" % nums[0] if nums else "?" + v)
    if how == "bool":
        return {"#true": "true", "#false": "false"}.get(v, "?" + v)
    if how == "num":
        return str(nums[0]) if nums else "?" + v
    return v


PRELUDE = ["coll (define cm2 (hash))", "coll (define cm3 (hash))", "coll (define cs2 (hashset))",
           "coll (define cm (hash))", "coll (define cs (hashset))", "coll (define cl (list))", "coll (define cv (vector))", "coll (define ci (immutable-vector))",
           "coll (define cb (bytes))", "coll (define ct \"\")"]


def run_coll_batch(seqs):
    hin, hows, din = list(PRELUDE), [None] * len(PRELUDE), []
    for ops in seqs:
        for op in ops:
            src, how = steel_of(op)
            hin.append("coll " + src)
            hows.append((op.split()[0], how))
            din.append(op)
    rc, hout, herr = C.run_bin([C.bin_path(HARNESS)], "\n".join(hin) + "\n", timeout=120)
    hl = hout.splitlines()
    if rc != 0 or len(hl) != len(hin):
        return {"error": "harness rc=%d lines=%d/%d" % (rc, len(hl), len(hin)), "at": hin[len(hl)] if len(hl) < len(hin) else "?"}
    rc, dout, derr = C.run_bin([C.driver_path(DRIVER)], "\n".join(din) + "\n", timeout=120)
    dl = dout.splitlines()
    if rc != 0 or len(dl) != len(din):
        return {"error": "driver rc=%d lines=%d/%d" % (rc, len(dl), len(din)), "at": "?"}
    real = [canon_real(h[0], h[1], o) for h, o in zip(hows[len(PRELUDE):], hl[len(PRELUDE):])]
    raw = hl[len(PRELUDE):]
    return {"rows": list(zip(din, [h for h in hin[len(PRELUDE):]], real, raw, dl))}


def run_coll(ctx, rng, nseq, length, stats):
    regs = ["cm", "cs", "cl", "cv", "ci", "cb", "ct"]
    seqs = [gen_coll_seq(rng, regs[i % len(regs)], length) for i in range(nseq)]
    # directed boundary cases first
    seqs.insert(0, ["cl new", "cl first", "cl rest", "cl last", "cl ref 0", "cl take 0", "cl tail 0", "cl tail 1", "cl len",
                    "cl new 1 2 3", "cl ref 3", "cl ref 2", "cl ref -1", "cl take 5", "cl tail 3", "cl new 1 2 3", "cl tail 4",
                    "cl take -1", "cl tail -1"])
    # `take` cutting exactly at a node boundary of the unrolled list (K11h, fixed in 85136c18), then every reader
    seqs.insert(0, ["cl new 1 2 3 4 5 6 7 8 9", "cl take 5", "cl last", "cl first", "cl len", "cl ref 4", "cl reverse", "cl last",
                    "cl new 4 7 0 3 7", "cl take 1", "cl last", "cl append 9", "cl last", "cl new 4 7 0 3 7", "cl take 1", "cl rest", "cl len"])
    # ... and `reverse` after such a `take` (K11i, fixed in ba9eae93)
    seqs.insert(0, ["cl new 1 2 3 4 5 6 7 8 9", "cl take 5", "cl reverse", "cl first", "cl rest", "cl first", "cl len", "cl last",
                    "cl new 7 8 2 2 4 7 8 1", "cl take 4", "cl reverse", "cl rest", "cl cons 3", "cl ref 1", "cl reverse", "cl first"])
    seqs.insert(0, ["cv new", "cv ref 0", "cv set 0 1", "cv len", "cv push 5", "cv set 0 7", "cv set 1 7", "cv ref 1", "cv ref -1"])
    seqs.insert(0, ["cb new", "cb ref 0", "cb set 0 1", "cb new 1 2", "cb set 2 1", "cb set 1 255", "cb set 1 256", "cb set 1 -1",
                    "cb new 1 2 256", "cb new 0 255", "cb ref 2", "cb append", "cb append 3"])
    seqs.insert(0, ["ct new", "ct len", "ct ref 0", "ct sub 0 0", "ct sub 0 1", "ct new 104 233 955 128512", "ct len", "ct ref 3",
                    "ct ref 4", "ct sub 1 3", "ct new 104 233 955 128512", "ct sub 3 1", "ct sub 0 5", "ct sub 4 4", "ct sub -1 2"])
    seqs.insert(0, ["cm new", "cm len", "cm ref 1", "cm tryget 1", "cm contains 1", "cm remove 1", "cm new 1 2 1 3", "cm len",
                    "cm ref 1", "cm insert 1 9", "cm ref 1", "cm len", "cm remove 1", "cm len", "cm ref 1"])
    # hash-union with a DUPLICATE key and different values under every ownership pattern of the two arguments
    # (seeded defect m3: one of the four branches of hm_union had the operands swapped): the left value wins
    u = []
    for own in ["", "_let", "_n", "_c"]:
        u += ["cm new 1 10 2 20", "cm union%s 1 100 3 30" % own, "cm ref 1", "cm len",
              "cm new 1 10 2 20", "cm unionr%s 1 100 3 30" % own, "cm ref 1", "cm len"]
    for own in ["", "_let", "_n", "_ln", "_nl"]:
        u += ["cm uniontt%s 4 1 10 2 20 1 100 3 30" % own, "cm ref 1", "cm ref 3", "cm len"]
    u += ["cm new", "cm union 1 1", "cm unionr 1 2", "cm union", "cm unionr", "cm uniontt 0", "cm insert2 1 1 1 2", "cm insrem 1 5 1"]
    seqs.insert(0, u)
    v = []
    for own in ["", "_let", "_n"]:
        for opn in ["union", "unionr", "inter", "interr", "diff", "diffr"]:
            v += ["cs new 1 2 3", "cs %s%s 2 3 4 4" % (opn, own), "cs len"]
    v += ["cs new", "cs union", "cs inter 1", "cs diff 1", "cs diffr"]
    seqs.insert(0, v)
    seqs.insert(0, ["cl new", "cl appendl", "cl appendl 1 2", "cl append2 3 4", "cl cons2 0 0", "cl last", "cl first", "cl len", "cl appendl 9 9 9 9 9", "cl ref 5"])
    seqs.insert(0, ["cs new", "cs len", "cs contains 1", "cs subset", "cs subset 1", "cs new 1 1 2", "cs len", "cs insert 1",
                    "cs len", "cs insert 3", "cs len", "cs subset 1 2 3 4", "cs subset 1 2"])
    # the operations that only the model P of the primitives distinguishes from the mathematical model: `drop` (a cdr loop),
    # `range`, n-ary append with empty arguments, keys / values, `subset?` both ways, and the string primitives on text
    # whose BYTE length exceeds its character count (`bounds` compares a character index with the byte length first)
    seqs.insert(0, ["cl new 1 2 3", "cl drop 0", "cl drop 3", "cl new 1 2 3", "cl drop 4", "cl drop -1", "cl drop 1", "cl range 3 3",
                    "cl range 5 2", "cl range -1 2", "cl range 2 -1", "cl range1 0", "cl range1 4", "cl range1 -2", "cl range 2 6",
                    "cl new", "cl append3 0", "cl append3 2 1 2", "cl append3 0 5", "cl drop 0", "cl new", "cl drop 1"])
    seqs.insert(0, ["cm new 1 10 2 20 3 10", "cm keys", "cm values", "cm new 1", "cm new 1 2 3", "cm keys", "cm clear", "cm keys", "cm len",
                    "cm new 5 1 5 2", "cm values", "cm union 5 9 6 9", "cm values", "cm keys"])
    seqs.insert(0, ["cs new 1 2 3", "cs list", "cs subsetr 1 2", "cs subsetr 1 4", "cs subsetr", "cs subset", "cs clear", "cs list",
                    "cs subsetr", "cs subset 1", "cs subsetr 1"])
    seqs.insert(0, ["ct new 233 233", "ct len", "ct ref 1", "ct ref 2", "ct ref 3", "ct ref 4", "ct sub 2 2", "ct new 233 233", "ct sub 3 3",
                    "ct sub 4 4", "ct sub 2 3", "ct sub1 2", "ct new 233 233", "ct sub1 3", "ct sub1 4", "ct sub1 5", "ct sub1 -1",
                    "ct tolist", "ct tolist 1", "ct tolist 1 2", "ct tolist 2 1", "ct tolist 3", "ct new 128512 97 128512", "ct sub1 1",
                    "ct tolist 0 1", "ct append3 1 955 233", "ct sub 1 4", "ct new", "ct sub1 0", "ct tolist", "ct sub1 1"])
    seqs.insert(0, ["ci new 1 2 3", "ci ref 3", "ci ref 2", "ci ref -1", "ci set 3 9", "ci set_u 3 9", "ci set 2 9", "ci set_u 0 8", "ci take 5",
                    "ci take_u 5", "ci take 2", "ci take_u 0", "ci new 1 2 3", "ci drop 5", "ci new 1 2 3", "ci drop_u 5", "ci new 1 2 3",
                    "ci drop 3", "ci rest", "ci new 1 2 3", "ci drop_u 1", "ci take -1", "ci drop -1", "ci rest", "ci rest", "ci rest", "ci len",
                    "ci push 4", "ci append3 1 0 9", "ci append3 0", "ci len"])
    seqs.insert(0, ["cv new 1 2", "cv append 3 4", "cv append", "cv append3 1 0 9", "cv append3 0", "cv len", "cv ref 5",
                    "cb new 1 2", "cb push 255", "cb push 256", "cb push -1", "cb len", "cb append3 1 9 8", "cb append3 0"])
    chunk = 50
    batches = [seqs[i:i + chunk] for i in range(0, len(seqs), chunk)]
    for bi, res in enumerate(C.pool_map(run_coll_batch, batches)):
        if "error" in res:
            ctx.violation("C11-coll-crash-%d.txt" % bi,
                          "# collection operations: %s; first unanswered input:\n%s\n" % (res["error"], res["at"]))
            continue
        bad = None
        for (op, src, real, raw, model) in res["rows"]:
            stats["coll_ops"] += 1
            stats["coll_kinds"][op.split()[0] + " " + op.split()[1]] = stats["coll_kinds"].get(op.split()[0] + " " + op.split()[1], 0) + 1
            if real == "err":
                stats["coll_errors"] += 1
            if raw.startswith("panic") or real != model:
                bad = bad or (op, src, real, raw, model)
        if bad and len(ctx.violations) < 8:
            op, src, real, raw, model = bad
            # replay = the operations on the same register since it was last rebuilt, up to the failing one
            reg = op.split()[0]
            hist = []
            for row in res["rows"]:
                if row[0].split()[0] == reg:
                    if row[0].split()[1] == "new" or row[0].split()[1].startswith("uniontt"):
                        hist = []
                    hist.append(row)
                if row[0] == op and row[3] == raw and row[4] == model:
                    break
            body = "# collection operation sequence (model ops; the Steel source is in the comments)\n"
            for row in hist:
                body += "%s\n#   %s\n#   real: %s   model: %s\n" % (row[0], row[1], row[3], row[4])
            ctx.violation("C11-coll-%d.txt" % bi, body + "# the primitive's answer `%s` differs from the finite map/set/sequence model `%s`\n" % (raw, model))


# ------------------------------------------------------------------------------------------------
def run(ctx):
    stats = {"evaluations": 0, "eq": 0, "eq_true": 0, "eq_shared": 0, "eq_legacy_would_fail": 0, "hq": 0, "hq_true": 0,
             "key": 0, "key_true": 0, "graphs": 0, "nodes": 0, "max_nodes": 0, "kinds": {}, "samples": [], "pending": [],
             "coll_ops": 0, "coll_errors": 0, "coll_kinds": {}, "corpus_cases": 0, "constructor_ties": 0, "keyed_ops": 0}
    rng = random.Random(ctx.seed * 7919 + 11)

    # translate
    rc, tout = C.sh(["python3", os.path.join(C.VERIF, "translate", "c11_cfg.py")], timeout=60)
    extracted = None
    if rc == 0:
        try:
            extracted = json.loads(tout.strip().splitlines()[-1])
        except ValueError:
            rc = 3
    if rc != 0:
        stats["pending"].append(("C11-translator.txt",
                                 "# translate/c11_cfg.py no longer understands rvals/cycles.rs / rvals.rs:\n# %s\n" % tout.strip()[-600:]))
    # translate 2: the shape of the collection primitives that the model P (Prim.lean) transcribes
    rc2, tout2 = C.sh(["python3", os.path.join(C.VERIF, "translate", "c11_prims.py")], timeout=60)
    extracted2 = None
    if rc2 == 0:
        try:
            extracted2 = json.loads(tout2.strip().splitlines()[-1])
        except ValueError:
            rc2 = 3
    if rc2 != 0:
        stats["pending"].append(("C11-translator-prims.txt",
                                 "# translate/c11_prims.py no longer understands the bodies of the collection primitives "
                                 "(primitives/{lists,vectors,hashmaps,hashsets,strings,bytevectors}.rs, stdlib.scm `drop`):\n# %s\n"
                                 % tout2.strip()[-600:]))
    # prove
    pr = C.prove(ctx, "C11", ["SteelVerif.C11.GenSound", DRIVER])
    ok, log = C.build_harness(ctx, [HARNESS])
    cov_base = {"obligations": pr["obligations"], "discharged": pr["discharged"],
                "checker_cmd": "cd lean && lake build SteelVerif.C11.Props SteelVerif.C11.GenSound && lake env lean SteelVerif/C11/Audit.lean",
                "trusted_base": C.TRUSTED_BASE + ["translate/c11_cfg.py (regex extraction of the equality/hash configuration)",
                                                "translate/c11_prims.py (regex extraction of the shape of the collection primitives)"]}
    if not ok:
        ctx.violation("C11-harness-build.txt", "the harness no longer builds against /repo:\n" + log, no_input=True)
        ctx.coverage = cov_base
        return ctx.finish()
    if not os.path.exists(C.driver_path(DRIVER)):
        ctx.violation("C11-driver-build.txt", pr["log"][-3000:], no_input=True)
        ctx.coverage = cov_base
        return ctx.finish()

    # corpus first
    run_corpus(ctx, stats)
    # generated graphs
    quick = ctx.quick()
    run_graph_cases(ctx, gen_leaf_cases(), "leaf", stats, batch_size=20)
    run_graph_cases(ctx, gen_key_cases(), "keys", stats, batch_size=1)
    run_graph_cases(ctx, gen_cross_kind_cases(), "xkind", stats, batch_size=1)
    run_graph_cases(ctx, gen_constructor_cases(), "ctor", stats, batch_size=1)
    run_graph_cases(ctx, gen_keyed_cases(rng, quick), "keyed", stats, batch_size=4)
    dag = gen_dag_cases(rng, quick)
    run_graph_cases(ctx, dag, "dag", stats, batch_size=4)
    run_graph_cases(ctx, gen_shared_node_cases(rng, quick), "lx", stats, batch_size=1)
    nrand = 1500 if quick else 40000
    nmax = 12 if quick else 40
    done = 0
    while done < nrand and not ctx.violations:
        k = min(4000, nrand - done)
        graphs = [g for g in (gen_random_graph(rng, nmax) for _ in range(k)) if g is not None]
        run_graph_cases(ctx, graphs, "rand%d" % done, stats, batch_size=50)
        done += k
    ctx.log("graphs=%d queries=%d (eq %d, of which shared %d, legacy algorithm wrong on %d)" % (
        stats["graphs"], stats["evaluations"], stats["eq"], stats["eq_shared"], stats["eq_legacy_would_fail"]))
    # collections
    run_coll(ctx, rng, 600 if quick else 3000, 14 if quick else 40, stats)
    ctx.log("collection ops=%d (errors %d)" % (stats["coll_ops"], stats["coll_errors"]))

    # decide
    if not pr["ok"] and not ctx.violations:
        body = "proof obligations of SteelVerif.C11 that no longer check:\n" + "\n".join("%s: %s" % f for f in pr["failed"]) + "\n"
        if extracted:
            body += "configuration extracted from /repo: %s\n" % json.dumps(extracted.get("cfg"))
        if extracted2:
            body += "shape of the primitives extracted from /repo (facts that are not as the model P transcribes them: %s)\n" % json.dumps(
                {k: v for k, v in extracted2.get("shape", {}).items()
                 if v is False or (k == "unionSwapped" and v != 0) or (k in ("unionBranches", "unionLeftRight") and v != 4)})
        ctx.violation("C11-proof-broken.txt", body, no_input=True)
    if stats["pending"] and not ctx.violations:
        name, body = stats["pending"][0]
        ctx.violation(name, body + "# correspondence SteelVerif.C11.Model <-> /repo no longer holds (%d cases disagree); "
                      "no property violation exhibited\n" % len(stats["pending"]), no_input=True)

    cov = dict(cov_base)
    cov.update({
        "evaluations": stats["evaluations"] + stats["coll_ops"] + stats["corpus_cases"],
        "distinct_nontrivial": stats["eq_shared"],
        "rule": "graph cases = every leaf kind x leaf kind at top level and inside every container kind; cross-kind equal values (mutable vs immutable vector) as elements of every container kind at depth 1 and 2; "
                "constructor family: (hashset ..)/(hash ..) over every 3-permutation of {x, equal copy, equal copy, different} for 7 member kinds incl. vec/mvec and 0.0/-0.0 (members the real object holds vs mkSet/mkMap, after EVERY set/map definition of every graph); "
                "keyed family: 30-60 random gm/gs operations (insert/remove/ref/contains/len, set union/intersection/difference/subset? against literal sets) with keys drawn from collections, equal-but-distinct copies, nested containers, the two vector kinds, 0.0/-0.0; "
                "collection sequences: random ops per register (hash map, hash set, list, mutable vector, immutable vector with owned/shared argument, byte vector, string over {a,b,e-acute,lambda,emoji,space}) incl. drop/range/n-ary append/keys/values/subset? both ways/substring to the end/string->list ranges, each executed on the model P of the primitives and on the mathematical model S; "
                "DAG family: outer container x inner container x every assignment of {shared object, second shared object, "
                "fresh equal copy, fresh different value} to 2..3 slots on both sides (both query orders); collections as "
                "keys/members; shared-node lists: append/cons/cdr/list-tail/take/drop/reverse/map/range over common base lists of "
                "lengths at and around the unrolled-list node capacities (4,8,16,..; cumulative 4,12,28,60,124,252,508), all pairs "
                "and nested in every container kind; random graphs (<=%d nodes) with copies and near misses from random.Random(VERIF_SEED); "
                "non-trivial = eq query in which some container occurs more than once in the two traversals (Model.noSharingB "
                "false); distinct = different query lines" % nmax,
        "samples": stats["samples"],
        "graphs": stats["graphs"], "graph_nodes": stats["nodes"], "max_nodes": stats["max_nodes"],
        "node_kinds": stats["kinds"],
        "eq_queries": stats["eq"], "eq_true": stats["eq_true"], "eq_with_sharing": stats["eq_shared"],
        "eq_queries_the_legacy_algorithm_gets_wrong": stats["eq_legacy_would_fail"],
        "hash_queries": stats["hq"], "hash_equal": stats["hq_true"], "key_queries": stats["key"], "key_found": stats["key_true"],
        "corpus_cases": stats["corpus_cases"],
        "collection_ops": stats["coll_ops"], "collection_errors_hit": stats["coll_errors"], "collection_op_kinds": stats["coll_kinds"],
        "translator": extracted,
        "translator_prims": extracted2,
        "constructor_ties": stats["constructor_ties"], "keyed_map_set_ops": stats["keyed_ops"],
        "axioms": pr.get("axioms", {}),
        "proof_failures": ["%s: %s" % f for f in pr["failed"]],
        "correspondence_disagreements": len(stats["pending"]),
    })
    ctx.coverage = cov
    ctx.assumptions = ["list identity: same head cell = same list; same (storage, index, next node) => same elements (ListSigOK, "
                       "checked on every generated graph)", "no accidental 64-bit hash collisions", "NaN excluded (documented: not equal? to itself)",
                       "acyclic values (cycles through mutation are C18's)"]
    return ctx.finish("proof")


def replay(ctx, path):
    lines = [l.rstrip("\n") for l in open(path) if l.strip() and not l.startswith("#")]
    C.build_harness(ctx, [HARNESS])
    if lines and lines[0].split()[0] in ("cm", "cs", "cl", "cv", "ci", "cb", "ct"):
        res = run_coll_batch([lines])
        if "error" in res:
            print(res)
            return 1
        for (op, src, real, raw, model) in res["rows"]:
            print("%-24s real: %-28s model: %s" % (op, raw, model))
        return 0
    rc, hout, herr = C.run_bin([C.bin_path(HARNESS)], "\n".join(lines) + "\n", timeout=60)
    hl = hout.splitlines()
    print("--- real (rc=%d)" % rc)
    print("\n".join(hl))
    din = [o if o.startswith("def ") else i for i, o in zip(lines, hl)]
    rc, dout, _ = C.run_bin([C.driver_path(DRIVER)], "\n".join(din) + "\n", timeout=60)
    print("--- model (impl = the code's configuration, old = legacy algorithm, spec = equality of unfoldings)")
    print(dout)
    return 0
