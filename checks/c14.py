"""C14 — modules expose exactly what they provide and are instantiated once.

translate  : translate/c14_constants.py regenerates lean/SteelVerif/C14/GenConsts.lean from modules.rs / mangle.rs
             (mangling constants, prefix layout, "the module key is the canonical path": try_canonicalize);
             translate/c14_tables.py regenerates GenTables.lean (removal sites of unused-import pruning, the list
             forms `require` accepts, the arity dispatch and the test-arg / check-output structure of contracts.scm).
prove      : lake build SteelVerif.C14.Props + axiom audit (mangling injective and not writable in source
             text, require modifiers, visibility = provided-and-surviving, instantiation machine for every
             request sequence over every acyclic graph).
correspond : generated module graphs are written as real files and evaluated, request by request, on ONE
             real `Engine` per case by harness `c14`; the driver `c14driver` runs the model M (the code as
             it is), the model with one or more known defects repaired, and the specification S on the
             same text.
oracle     : S (per-module environments, modifiers composed, every body evaluated exactly once per engine).
             real != S is a VIOLATION unless real == M and switching M to the behaviour S asks for in
             exactly the points that are open findings of KNOWN_FINDINGS.txt turns M into S on that input.
             Two defects found by this check were fixed in /repo (d10f8017, 1587f6f5); their witnesses
             (corpus d01-d04) must equal S now and are VIOLATIONs if they come back.
"""
import itertools
import json
import os
import random
import re
import shutil

from . import common as C

PID = "C14"
META = {
    "ready": True,
    "category": "proof",
    "technique": "Lean 4 proofs over an executable model of the module system (name mangling, require-modifier "
                 "flattening, compiled-module table + metadata roll-back, depth-first instantiation, the flat global "
                 "table with per-module `__module-` tables) incl. a refinement proof M = S on whole requests by "
                 "simulation over all acyclic module graphs and all request sequences; a model of the contract "
                 "mechanism of contracts.scm and of unused-import pruning, both parameterised by tables that "
                 "translators regenerate from the source on every run; a model of macro scope across modules; "
                 "correspondence of all of them with one real Engine per generated module tree",
    "level_text": "Theorems of SteelVerif/C14/Props.lean, for every acyclic module graph, every combination of "
                  "only-in / prefix-in / renaming modifiers and every sequence of evaluation requests (failing "
                  "ones included). (1) Mangling: \"##mm\"+id+\"__%#__\"+name determines (id, name), is never an "
                  "identifier that does not begin with ##, private names of different modules never collide. "
                  "(2) Modifiers: a required name is bound iff it is provided and survives the flattened modifiers; "
                  "flattening agrees with composing on the documented forms (witnesses of disagreement elsewhere); the "
                  "only list forms require accepts are only-in, prefix-in, for-syntax (read from the parser). "
                  "(3) Instantiation: every body at most once, exactly once as soon as a request that gets as far as "
                  "running needs it, whatever failed before. (4) whole_request_refinement_partial: the flat machine "
                  "M (the code: mangled keys in one global table, flattened requires, roll-back, depth-first "
                  "instantiation) and the per-module environments S give, request by request, the same status, bind "
                  "every source identifier alike, have run the same module bodies exactly once each, and every read "
                  "inside every instantiated module body resolves to what the module's own environment holds (its own "
                  "definition first, then the import bound last) - for all graphs / request sequences / failure "
                  "patterns inside a decidable guard (specs in the fragment canonical2, modules that refer only to "
                  "names bound in them, programs that bind plain identifiers); outside the guard the statement is "
                  "false for the code and the witnesses are open findings K14c / K14d. (5) Contracts: for every "
                  "contract of order <= 2, every function body, argument list and predicate interpretation, a call "
                  "through a contract/out export performs exactly the checks of S - each first-order value when it "
                  "crosses the boundary, once, in order, before the body runs, callbacks wrapped so that their "
                  "crossings are checked - and a call from inside performs none (contract_checked_at_boundary, "
                  "contract_not_checked_inside, contract_call_ok, contract_violation_stops_at_boundary); the arity "
                  "dispatch of bind/c and the test-arg / check-output structure of every path are re-read from "
                  "contracts.scm on every run and checked by a theorem. (6) Pruning: a used import is never pruned, "
                  "only unused generated ##mm imports that no macro mentions are (removal sites re-read from "
                  "analysis.rs). (7) Macros across modules: a require without modifiers binds exactly the provided "
                  "macros; the model follows find_in_scope_macros and the roll-back of the macro environment as they are "
                  "since 0fe3fa8e / 3bef0920 (read from the source: rollback_and_macro_repairs_in_source, which also "
                  "carries the fact that compile_main snapshots its roll-back state before anything in it can fail); "
                  "one violation of the property by the code remains, with a witness (K14g). (8) Whether a request "
                  "fails is an output of both machines where the module system decides it: a program that refers to "
                  "a name its requires do not bind is rejected with a free identifier by M and by S alike "
                  "(free_identifier_is_decided_by_the_machines; part of the refinement theorem). "
                  "The models are hand-written; they are tied to the code on every run by translators "
                  "(c14_constants.py, c14_tables.py + decide obligations) and by evaluating generated module trees "
                  "(diamonds, chains, shared private and provided names, all modifier nestings, contract/out on "
                  "functions of 1-6 parameters with higher-order contracts, violating callbacks and a counting "
                  "predicate (number of predicate evaluations per call from outside and from inside), re-exports, "
                  "macros provided as identifiers / for-syntax / private and used inside modules, module files in "
                  "sub-directories required through different spellings of one path, programs that refer to names they "
                  "may or may not have imported, failing requests of every kind (rejected by the reader, malformed "
                  "macro definition, macro use that does not match, free identifier at build, run-time error) - also "
                  "directly before and directly after the first require of a module with nothing evaluated in "
                  "between, the module then required again -, unknown require forms, several request orders) on a real Engine and comparing bindings, module-internal "
                  "views, error kinds, instantiation counters, check counts and the real location of every private "
                  "define line by line; inside the guard of the refinement theorem the real engine must equal S "
                  "outright (no finding can be appealed to).",
    "level_note": "Trusted: Lean kernel (axioms propext, Classical.choice, Quot.sound only), the translators (regex / "
                  "bracket matching / an s-expression reader), harness/driver/comparison, the file system (module "
                  "files do not change while an engine lives). Whether a request fails is an input of the models "
                  "(macro mismatch, free identifier, runtime error in the last expression); module bodies that raise "
                  "half-way, what macros expand to, blame labels, contracts of order > 2, built-in and resolver "
                  "modules are not modelled. The macro layer is outside the refinement theorem. Open findings: "
                  "K14c modifiers are flattened instead of composed (by design), K14d a mangled name can be written "
                  "as |##mm...|, K14g an imported macro displaces (and a plain require even deletes) a module's own "
                  "macro of the same name, K14h (witness findings/C14-K14h.raw replayed on every run, not modelled): "
                  "a required module's private macros are applied to a whole expression of the requiring module once "
                  "one of its provided macros fired there. Fixed by this check: d10f8017 (roll-back of table and "
                  "metadata), 1587f6f5 (contract/out imports mangled), 0fe3fa8e (K14e: only-in / prefix-in apply to "
                  "provided macros), 3bef0920 (K14f: the macros of a failed program are rolled back); their witnesses "
                  "(corpus d01-d04, d06, d07) must equal S and are VIOLATIONs, named as regressions, if they return.",
}

VAL_NAMES = ["x", "y", "z", "w", "p"]
FN_NAMES = ["f", "g"]
HOF_NAMES = ["h2", "h3", "h4", "h6"]     # h<n>: n parameters, the first one a callback (contract (->/c int? int?))
NAMES = VAL_NAMES + FN_NAMES + HOF_NAMES
MAC_NAMES = ["mq", "mr"]                 # macros (a name whose last component starts with m)
MAC_ALIASES = ["mm", "mz"]
DIRS = ["", "", "sub", "sub/deep", "lib"]
PREFIXES = ["a.", "b-", "q."]
VAL_ALIASES = ["xx", "yy", "r1"]
FN_ALIASES = ["ff", "g2"]

# model switches of the driver that move M towards S, one per open finding (KNOWN_FINDINGS.txt)
FIXES = {
    "K14c": ("m", "require_modifiers_flattened_not_composed"),
    "K14g": ("g", "imported_macro_displaces_own_macro_of_the_module"),
}
# defects that were fixed in /repo: the driver can re-introduce them, to name a regression
LEGACY = {
    "R": "the roll-back defect fixed by d10f8017 (finding K14a, corpus d01/d02)",
    "C": "the unmangled contract/out imports fixed by 1587f6f5 (finding K14b, corpus d03/d04)",
    "E": "require modifiers not applied to provided macros, fixed by 0fe3fa8e (finding K14e, corpus d06)",
    "F": "the macros of a failed request staying in scope, fixed by 3bef0920 (finding K14f, corpus d07)",
}


# repairs that are in /repo and that the model reads from the source (translate/c14_tables.py): driver flags that
# force them on
REPAIRS = {
    "e": "0fe3fa8e (K14e: only-in / prefix-in apply to provided macros)",
    "f": "3bef0920 (K14f: the macros of a failed program are rolled back)",
}


# ------------------------------------------------------------------------------------------ case text

def spec_text(s):
    if s[0] == "path":
        return str(s[1]) if len(s) < 3 or not s[2] else "%d~%d" % (s[1], s[2])
    if s[0] == "p":
        return "p:%s:%s" % (s[1], spec_text(s[2]))
    ids = ",".join(a if b is None else "%s=%s" % (a, b) for a, b in s[1])
    return "o:%s:%s" % (ids, spec_text(s[2]))


def spec_target(s):
    return s[1] if s[0] == "path" else spec_target(s[2])


def case_text(c):
    out = ["case %s" % c["id"]]
    for k, m in enumerate(c["mods"]):
        out.append("module %d" % k)
        if m.get("dir"):
            out.append("dir %s" % m["dir"])
        out += ["def %s" % d for d in m["defs"]]
        out += [("cprov %s" if ct else "prov %s") % n for n, ct in m["provs"]]
        out += ["mac %s" % n for n in m.get("macs", [])]
        out += ["mprov %s" % n for n in m.get("mprovs", [])]
        out += ["fsprov %s" % n for n in m.get("fsprovs", [])]
        out += ["req %s" % spec_text(s) for s in m["reqs"]]
        out.append("end")
    for r in c["reqs"]:
        out.append("request")
        out += ["req %s" % spec_text(s) for s in r["reqs"]]
        out += ["def %s" % d for d in r["defs"]]
        if r.get("uses"):
            out.append("use " + " ".join(r["uses"]))
        if r["mode"] != "ok":
            out.append("mode %s" % r["mode"])
        if r["obs"]:
            out.append("obs " + " ".join(r["obs"]))
        out.append("end")
    if c.get("poke"):
        out.append("poke")
    out.append("endcase")
    return "\n".join(out) + "\n"


# ------------------------------------------------------------------------------------------ generator
# (python only chooses shapes; it never decides what is right)

def flat_bound(s, provs):
    """names the flattened require binds (mirror of Req.rename, used to pick names worth observing)"""
    pfx, ids = "", []

    def walk(t):
        nonlocal pfx, ids
        if t[0] == "p":
            pfx += t[1]
            walk(t[2])
        elif t[0] == "o":
            walk(t[2])
            ids += t[1]
    walk(s)
    names = provs[spec_target(s)]
    if not ids:
        return [pfx + n for n in names]
    last = {}
    for a, b in ids:
        last[a] = b
    return [pfx + (last[n] or n) for n in names if n in last]


def all_mentioned(s):
    """every name a spec could bind under any reading (for the observation list)"""
    out = set()
    if s[0] == "p":
        for n in all_mentioned(s[2]):
            out.add(n)
            out.add(s[1] + n)
    elif s[0] == "o":
        out |= all_mentioned(s[2])
        for a, b in s[1]:
            out.add(a)
            if b:
                out.add(b)
    return out


def respell(rng, s):
    """the same spec with every path written in a randomly chosen spelling"""
    if s[0] == "path":
        return ("path", s[1], rng.choice([0, 0, 1, 2, 3]))
    if s[0] == "p":
        return ("p", s[1], respell(rng, s[2]))
    return ("o", s[1], respell(rng, s[2]))


def alias_for(rng, n):
    base = re.split(r"[.-]", n)[-1]  # a re-exported name may carry prefixes (b-h4)
    if base[:1] == "h":             # the harness reads the arity off the name: keep the h<n> marker
        return base[:2] + rng.choice("xyz")
    if base[:1] == "m":             # a macro stays recognisable as one
        return rng.choice(MAC_ALIASES)
    return rng.choice(FN_ALIASES if base[:1] in ("f", "g") else VAL_ALIASES)


def gen_spec(rng, provs, j, weird_ok=True):
    P = provs[j]
    base = ("path", j)
    kind = rng.random()

    def only(inner, names, rename_p=0.4):
        ids, used = [], set(names)
        for n in names:
            al = alias_for(rng, n) if rng.random() < rename_p else None
            if al in used:          # two identifiers bound to one name: ambiguous under any reading
                al = None
            used.add(al)
            ids.append((n, al))
        return ("o", ids, inner)

    some = rng.sample(P, rng.randint(1, len(P))) if P else []
    if kind < 0.35 or not P:
        return base
    if kind < 0.50:
        return only(base, some)
    if kind < 0.62:
        return ("p", rng.choice(PREFIXES), base)
    if kind < 0.68:
        return ("p", rng.choice(PREFIXES), ("p", rng.choice(PREFIXES), base))
    if kind < 0.85 or not weird_ok:
        inner = only(base, some)
        s = ("p", rng.choice(PREFIXES), inner)
        if rng.random() < 0.3:
            s = ("p", rng.choice(PREFIXES), s)
        return s
    # forms on which flattening and composing can differ
    w = rng.randint(0, 6)
    if w == 0:      # only-in around prefix-in, naming the unprefixed names
        return only(("p", rng.choice(PREFIXES), base), some)
    if w == 1:      # only-in around prefix-in, naming the prefixed names
        pf = rng.choice(PREFIXES)
        return ("o", [(pf + n, None) for n in some], ("p", pf, base))
    if w == 2:      # nested only-in
        return only(only(base, some), rng.sample(P, rng.randint(1, len(P))))
    if w == 3:      # empty only-in
        return ("o", [], base)
    if w == 4:      # only-in naming something that is not provided
        return ("o", [(rng.choice(NAMES + ["nope"]), None)] + [(n, None) for n in some[:1]], base)
    if w == 5:      # the same identifier twice with different aliases
        n = some[0]
        return ("o", [(n, alias_for(rng, n)), (n, None)], base)
    return only(("p", rng.choice(PREFIXES), only(base, some)), some[:1])


def gen_graph(rng, n, shape, weird, spell=False, macros=False):
    mods, provs = [], []
    for k in range(n):
        if k == 0:
            targets = []
        elif shape == "chain":
            targets = [k - 1]
        elif shape == "star":
            targets = [0]
        elif shape == "diamond":
            # layers: 0 | 1..n-2 | n-1
            targets = [0] if k < n - 1 else list(range(1, n - 1)) or [0]
        else:
            cnt = rng.randint(1, min(3, k))
            targets = sorted(rng.sample(range(k), cnt))
            if rng.random() < 0.3 and 0 not in targets:
                targets.append(0)
        if targets and rng.random() < 0.15:
            targets.append(rng.choice(targets))       # the same module twice, other modifiers
        reqs = [gen_spec(rng, provs, j, weird) for j in targets]
        if spell:
            reqs = [respell(rng, q) for q in reqs]
        defs = rng.sample(NAMES, rng.randint(1, 4))
        if rng.random() < 0.5 and "p" not in defs:
            defs.append("p")
        pv = []
        for d in defs:
            if d != "p" and rng.random() < 0.65:
                pv.append((d, d[0] in "fgh" and rng.random() < 0.5))
        # re-export something imported by a plain / prefix-only require
        for s in reqs:
            if s[0] == "path" or (s[0] == "p" and s[2][0] == "path"):
                for nme in flat_bound(s, provs):
                    if nme.split(".")[-1].split("-")[-1][:1] == "m":
                        continue        # only a module's own macros can be provided
                    if nme not in defs and nme not in [q[0] for q in pv] and rng.random() < 0.2:
                        pv.append((nme, False))
        if not pv and rng.random() < 0.8:
            pv.append((defs[0], False))
        macs, mprovs, fsprovs = [], [], []
        if macros and rng.random() < 0.7:
            macs = rng.sample(MAC_NAMES, rng.randint(1, 2))
            for mname in macs:
                u = rng.random()
                if u < 0.55:
                    fsprovs.append(mname)
                elif u < 0.8:
                    mprovs.append(mname)        # else: a private macro
        mods.append({"defs": defs, "provs": pv, "reqs": reqs, "dir": rng.choice(DIRS) if spell else "",
                     "macs": macs, "mprovs": mprovs, "fsprovs": fsprovs})
        provs.append([q[0] for q in pv] + fsprovs + mprovs)
    return mods, provs


def gen_requests(rng, mods, provs, nreq, weird, spell=False):
    reqs = []
    for _ in range(nreq):
        cnt = 1 if rng.random() < 0.7 else 2
        specs = [gen_spec(rng, provs, rng.randrange(len(mods)), weird) for _ in range(cnt)]
        if spell:
            specs = [respell(rng, q) for q in specs]
        defs = rng.sample(NAMES, rng.randint(1, 2)) if rng.random() < 0.3 else []
        u = rng.random()
        mode = ("ok" if u < 0.70 else "reader" if u < 0.74 else "macrodef" if u < 0.79 else "syntax" if u < 0.85
                else "freeid" if u < 0.93 else "runtime")
        # names the program itself refers to: what its requires bind (under the code's reading), its own defines,
        # and names it may or may not have from elsewhere - whether it is rejected is for the machines to say
        uses = []
        if rng.random() < 0.35:
            pool = [n for q in specs for n in flat_bound(q, provs)] + defs
            pool = [n for n in pool if re.split(r"[.-]", n)[-1][:1] != "m"]
            if pool and rng.random() < 0.7:
                uses += rng.sample(pool, min(len(pool), rng.randint(1, 2)))
            if rng.random() < 0.5:
                uses.append(rng.choice(VAL_NAMES + FN_NAMES + [pf + n for pf in PREFIXES for n in VAL_NAMES[:2]]))
        reqs.append({"reqs": specs, "defs": defs, "mode": mode, "obs": [], "uses": uses})
    return reqs


FAIL_KINDS = ["reader", "macrodef", "syntax", "freeid", "runtime"]


def gen_failing_between(rng, mods):
    """Every kind of failing evaluation directly before and directly after the FIRST require of a module, with
    nothing evaluated in between (quiet requests: no observations), then the module required again: the body
    counters say whether a rejected evaluation disturbed the module table."""
    reqs = []
    order = list(range(len(mods)))
    rng.shuffle(order)
    for k in order[:4]:
        ka, kb = rng.choice(FAIL_KINDS), rng.choice(FAIL_KINDS)
        with_req = lambda: [("path", k)] if rng.random() < 0.5 else []
        reqs.append({"reqs": with_req(), "defs": [], "mode": ka, "obs": [], "quiet": True})
        reqs.append({"reqs": [("path", k)], "defs": [], "mode": "ok", "obs": [], "quiet": True})
        reqs.append({"reqs": with_req(), "defs": [], "mode": kb, "obs": [], "quiet": True})
        reqs.append({"reqs": [("path", k)], "defs": [], "mode": "ok", "obs": []})
    return reqs


def observe_list(c):
    names = set(NAMES)
    if any(m.get("macs") for m in c["mods"]):
        names |= set(MAC_NAMES)
    for m in c["mods"]:
        for s in m["reqs"]:
            names |= all_mentioned(s)
    for r in c["reqs"]:
        for s in r["reqs"]:
            names |= all_mentioned(s)
    provided = set(n for m in c["mods"] for n, _ in m["provs"]) | set(
        n for m in c["mods"] for n in m.get("mprovs", []) + m.get("fsprovs", []))
    for pf in PREFIXES:
        for s in [q for m in c["mods"] for q in m["reqs"]] + [q for r in c["reqs"] for q in r["reqs"]]:
            if pf in spec_text(s):
                names |= set(pf + n for n in provided)
    return sorted(names)


def gen_cases(rng, ngraphs, max_mods, orders, tag):
    cases = []
    shapes = ["chain", "diamond", "star", "dag", "dag", "dag"]
    for gi in range(ngraphs):
        shape = shapes[gi % len(shapes)]
        n = rng.randint(2 if shape != "diamond" else 3, max_mods)
        weird = rng.random() < 0.3      # forms on which flattening and composing modifiers differ
        # one file reached through several spellings of its path (sub-directories, ./, zz/.., symlinks)
        spell = rng.random() < 0.5
        # modules that define, provide (as identifier / for-syntax) and use macros
        macros = rng.random() < 0.3
        mods, provs = gen_graph(rng, n, shape, weird, spell, macros)
        base = gen_requests(rng, mods, provs, rng.randint(3, 6), weird, spell)
        seen = set()
        for oi in range(orders):
            reqs = list(base)
            if oi > 0:
                rng.shuffle(reqs)
            key = tuple(id(r) for r in reqs)
            if key in seen:
                continue
            seen.add(key)
            c = {"id": "%s%dg%do%d" % (tag, rng.randrange(10 ** 6), gi, oi), "mods": mods,
                 "reqs": [dict(r) for r in reqs], "shape": shape}
            obs = observe_list(c)
            for r in c["reqs"]:
                r["obs"] = obs
            cases.append(c)
        c = {"id": "%s%dg%dfk" % (tag, rng.randrange(10 ** 6), gi), "mods": mods,
             "reqs": gen_failing_between(rng, mods), "shape": shape}
        obs = observe_list(c)
        for r in c["reqs"]:
            r["obs"] = [] if r.get("quiet") else obs
        cases.append(c)
    return cases


# ------------------------------------------------------------------------------------------ running

def split_cases(text):
    """{case id: [result lines]} of a harness / driver output"""
    out, cur, cid = {}, None, None
    for l in text.splitlines():
        if l.startswith("case "):
            cid, cur = l.split()[1], []
        elif l == "endcase":
            if cid is not None:
                out[cid] = cur
            cid, cur = None, None
        elif cur is not None:
            cur.append(l.rstrip())
    return out


def driver(mode, text, timeout=600):
    rc, out, err = C.run_bin([C.driver_path("c14driver"), mode], text, timeout=timeout)
    return rc, out, err


def elab(text):
    rc, out, err = driver("elab", text)
    if rc != 0:
        raise RuntimeError("c14driver elab failed: rc=%d %s" % (rc, err[-500:]))
    return out


def real_batch(args):
    idx, text, root = args
    d = os.path.join(root, "b%d" % idx)
    # C14_BIN: run another build of the same harness (used to validate a proposed patch on a copy)
    rc, out, err = C.run_bin([os.environ.get("C14_BIN") or C.bin_path("c14"), d], text, timeout=300)
    shutil.rmtree(d, ignore_errors=True)
    return rc, out, err


def run_real(ctx, texts, label):
    """texts: list of elaborated single-case texts -> {cid: lines} (crashes / hangs become a marker)"""
    root = os.path.join(ctx.scratch, "mods", label)
    shutil.rmtree(root, ignore_errors=True)
    os.makedirs(root, exist_ok=True)
    per = 12
    batches = [(i, "".join(texts[i:i + per]), root) for i in range(0, len(texts), per)]
    res = {}
    redo = []
    for (i, t, _), (rc, out, err) in zip(batches, C.pool_map(real_batch, batches)):
        got = split_cases(out)
        res.update(got)
        if rc != 0 or len(got) != t.count("\nendcase"):
            redo += [x for x in texts[i:i + per] if x.split()[1] not in got]
    for j, t in enumerate(redo):      # bisect a failing batch to single cases
        rc, out, err = real_batch((10 ** 6 + j, t, root))
        got = split_cases(out)
        cid = t.split()[1]
        res[cid] = got.get(cid, []) + (["harness rc=%d %s" % (rc, err.strip().splitlines()[-1:] or "")] if rc != 0 or cid not in got else [])
    return res


def strip_extra(lines):
    return [l for l in lines if not l.startswith(("mangle ", "poke "))]


def has_failing_request(text):
    return bool(re.search(r"^mode (syntax|freeid)$", text, re.M))


def classify(ctx, cid, text, real, variants, known_ids):
    """variants: {flags: lines}; '' = the code as it is.  Returns (kind, detail)."""
    r = strip_extra(real)
    spec = variants["spec"]

    def same_as_model(m):
        # the model stops at a request whose outcome it declares undetermined (see Model.clashes)
        if "undetermined" in m:
            cut = m.index("undetermined")
            return r[:cut] == m[:cut]
        return r == m
    if r == spec:
        return ("agree", "") if same_as_model(variants[""]) else ("model-differs", "real == S but the model says otherwise")
    if not same_as_model(variants[""]):
        for key, what in LEGACY.items():
            m = variants.get(key)
            if m is not None and ((r[:m.index("undetermined")] == m[:m.index("undetermined")])
                                  if "undetermined" in m else r == m):
                return "regression", "real differs from S and equals the model with %s re-introduced" % what
        return "unexplained", "real differs from S and from the model of the code"
    # real == M != S: which repairs turn M into S?
    flags = "".join(f for f, _ in FIXES.values())
    for n in range(1, len(flags) + 1):
        for combo in itertools.combinations(sorted(flags), n):
            key = "".join(combo)
            if variants.get(key) == spec:
                ids = sorted(k for k, (f, _) in FIXES.items() if f in combo)
                missing = [k for k in ids if k not in known_ids]
                return ("unlisted" if missing else "known"), ",".join(ids)
    # the model follows the source: has a repair that /repo once had gone from the source again?
    for n in range(1, len(REPAIRS) + 1):
        for rep in itertools.combinations(sorted(REPAIRS), n):
            for m in range(0, len(flags) + 1):
                for combo in itertools.combinations(sorted(flags), m):
                    rc, out, _ = driver("variant:" + "".join(rep) + "".join(combo), text)
                    if rc == 0 and split_cases(out).get(cid) == spec:
                        return "regression", ("real differs from S and equals the model of the code as the translator "
                                              "reads it now; forcing %s back on%s yields S" % (
                                                  " and ".join(REPAIRS[x] for x in rep),
                                                  (" (with the open findings %s repaired)" % ",".join(
                                                      k for k, (f, _) in FIXES.items() if f in combo)) if combo else ""))
    return "unexplained", "real == model of the code, but no combination of the known repairs yields S"


def lead_lines(lines, n):
    """the result lines of the first n requests of a case"""
    out = []
    for l in lines:
        if l.startswith("req ") and int(l.split()[1]) >= n:
            break
        out.append(l)
    return out


def first_diff(a, b):
    for i, (x, y) in enumerate(zip(a, b)):
        if x != y:
            return "line %d\n#   real: %s\n#   spec: %s" % (i + 1, x, y)
    return "length %d vs %d" % (len(a), len(b))


FIX_FLAGS = "".join(sorted(f for f, _ in FIXES.values()))
VARIANT_KEYS = ["".join(c) for n in range(len(FIX_FLAGS) + 1) for c in itertools.combinations(FIX_FLAGS, n)] + sorted(LEGACY)


def evaluate(ctx, texts, label, stats, known_ids):
    """texts: raw single-case texts.  Runs everything, classifies, records violations."""
    if not texts:
        return
    el = elab("".join(texts))
    el_cases = re.findall(r"^case .*?^endcase\n", el, re.M | re.S)
    if len(el_cases) != len(texts):
        ctx.violation("C14-driver-elab.txt", "elab returned %d of %d cases\n" % (len(el_cases), len(texts)), no_input=True)
        return
    alltext = "".join(el_cases)
    variants = {}

    def run_variants(keys, text):
        jobs = [(k, "spec" if k == "spec" else ("model" if k == "" else "variant:" + k)) for k in keys]
        for (k, mode), (rc, out, err) in zip(jobs, C.pool_map(lambda j: driver(j[1], text), jobs)):
            if rc != 0:
                ctx.violation("C14-driver-failed.txt", "c14driver %s: rc=%d\n%s" % (mode, rc, err[-2000:]), no_input=True)
                return False
            variants.setdefault(k, {}).update(split_cases(out))
        return True
    if not run_variants(["", "spec"], alltext):
        return
    rc, gout, err = driver("guard", alltext)
    if rc != 0:
        ctx.violation("C14-driver-failed.txt", "c14driver guard: rc=%d\n%s" % (rc, err[-2000:]), no_input=True)
        return
    guards = split_cases(gout)
    real = run_real(ctx, el_cases, label)
    # the repaired / legacy variants of the model are needed only where the real engine differs from S
    off = [t for t in el_cases
           if strip_extra(real.get(t.split()[1], ["missing"])) != variants["spec"].get(t.split()[1])]
    if off and not run_variants([k for k in VARIANT_KEYS if k != ""], "".join(off)):
        return
    for t in el_cases:
        cid = t.split()[1]
        rl = real.get(cid, ["missing"])
        v = {k: variants[k][cid] for k in variants if cid in variants[k]}
        v.setdefault("", ["missing"])
        v.setdefault("spec", ["missing"])
        stats["cases"] += 1
        stats["spelled"] += 1 if re.search(r"^req \S*~", t, re.M) else 0
        stats["with_macros"] += 1 if re.search(r"^mac ", t, re.M) else 0
        seen, prev_first_quiet = set(), False
        for blk in re.findall(r"^request\n(.*?)^end$", t, re.M | re.S):
            md = (re.search(r"^mode (\S+)", blk, re.M) or [None, "ok"])[1]
            tg = set(re.findall(r"^req (?:[po]:[^:]*:)*(\d+)", blk, re.M))
            quiet = not re.search(r"^obs ", blk, re.M)
            if re.search(r"^use ", blk, re.M):
                stats["requests_with_uses"] += 1
            if md not in ("ok", "runtime"):
                stats["fail_kinds"][md] = stats["fail_kinds"].get(md, 0) + 1
                if prev_first_quiet:
                    stats["fail_directly_after_first_require"][md] = stats["fail_directly_after_first_require"].get(md, 0) + 1
            elif md == "runtime":
                stats["fail_kinds"][md] = stats["fail_kinds"].get(md, 0) + 1
            prev_first_quiet = md in ("ok", "runtime") and quiet and bool(tg - seen)
            if md in ("ok", "runtime"):
                seen |= tg
        stats["evaluations"] += t.count("\nrequest\n")
        stats["obs"] += sum(len(l.split()) - 1 for l in rl if l.startswith("obs"))
        for l in rl:
            if l.startswith("poke ") and not l.startswith("poke err:"):
                # a module-private definition was read from source text through |##mm…| (K14d)
                stats["poke_hits"].append((cid, l))
            if l.startswith("mangle ok"):
                stats["mangle_checked"] += int(l.split()[2])
            elif l.startswith("mangle bad"):
                stats["mangle_bad"].append((cid, l))
            elif l.startswith("req "):
                stats["status"][l.split()[2]] = stats["status"].get(l.split()[2], 0) + 1
        for m in re.findall(r"^req (\S+)$", t, re.M):
            kind = re.sub(r"[^pio:]", "", re.sub(r"o:[^:]*:", "o:", re.sub(r"p:[^:]*:", "p:", m))) or "plain"
            stats["spec_kinds"][kind] = stats["spec_kinds"].get(kind, 0) + 1
        if t.count("\nmodule ") >= 2 and re.search(r"^req [po]:", t, re.M):
            stats["nontrivial"].add(re.sub(r"^case \S+", "case", t))
        kind, detail = classify(ctx, cid, t, rl, v, known_ids)
        # the prediction of whole_request_refinement_partial: inside its guard (graph + leading requests) the
        # flat machine equals S, so the real engine must equal S there - no finding may be appealed to
        gl = (guards.get(cid) or ["guard false 0 0"])[0].split()
        lead = int(gl[2]) if gl[1] == "true" else 0
        stats["guard"]["graphs_in_guard" if gl[1] == "true" else "graphs_outside"] += 1
        stats["guard"]["requests_in_guard"] += lead
        stats["guard"]["requests_total"] += int(gl[3])
        if lead:
            rs, ss, ms_ = (lead_lines(x, lead) for x in (strip_extra(rl), v["spec"], v[""]))
            if ms_ != ss and "undetermined" not in ms_:
                kind, detail = "theorem-vs-driver", ("the driver's model and spec differ inside the guard of "
                                                     "whole_request_refinement_partial (%d leading requests)" % lead)
            elif rs != ss:
                kind, detail = "in-guard", ("real != S on the first %d requests, which are inside the guard of "
                                            "whole_request_refinement_partial (M = S proved there)" % lead)
        ck = kind + ":" + detail if kind in ("known", "unlisted") else kind
        stats["class"][ck] = stats["class"].get(ck, 0) + 1
        if len(stats["samples"]) < 3 and kind == "agree" and t.count("\nmodule ") >= 3:
            stats["samples"].append({"case": t.splitlines()[:40], "real": rl[:12]})
        if kind == "agree":
            continue
        if kind == "known":
            for k in detail.split(","):
                stats["known_hits"].setdefault(k, []).append(cid)
            continue
        if kind == "unlisted":
            detail = "explained by repairing %s in the model, but not all of them are open findings of KNOWN_FINDINGS.txt" % detail
        body = ("# %s: %s\n# first difference real/spec: %s\n" % (kind, detail, first_diff(strip_extra(rl), v["spec"]))
                + t + "# --- real\n" + "\n".join("# " + l for l in rl) + "\n# --- spec\n"
                + "\n".join("# " + l for l in v["spec"]) + "\n# --- model of the code\n"
                + "\n".join("# " + l for l in v[""]) + "\n")
        if kind == "model-differs":
            stats["pending"].append(("C14-%s-%s.txt" % (label, cid), body))
        else:
            stats["bad"].append((cid, kind, t, body))


def minimise(ctx, text, known_ids, budget=40):
    """Greedy structural shrinking of one failing case (keeps `real != S and not known`)."""
    def still_bad(t):
        st = new_stats()
        try:
            evaluate_quiet(ctx, [t], st, known_ids)
        except Exception:
            return False
        return bool(st["bad"])

    lines = [l for l in text.splitlines() if not l.startswith("view ")]   # re-derived by `c14driver elab`
    tries = 0
    changed = True
    while changed and tries < budget:
        changed = False
        # drop whole requests, then single def/prov/obs-free lines
        blocks = [i for i, l in enumerate(lines) if l == "request"]
        for b in reversed(blocks):
            e = next(i for i in range(b, len(lines)) if lines[i] == "end")
            cand = lines[:b] + lines[e + 1:]
            tries += 1
            if tries > budget:
                break
            if "request" in cand and still_bad("\n".join(cand) + "\n"):
                lines, changed = cand, True
        for i in reversed(range(len(lines))):
            if tries > budget:
                break
            if lines[i].startswith(("def ", "prov ", "cprov ", "mode ")) or (lines[i].startswith("req ") and ":" in lines[i]):
                if lines[i].startswith("req "):
                    cand = lines[:i] + ["req " + lines[i].split(":")[-1]] + lines[i + 1:]
                else:
                    cand = lines[:i] + lines[i + 1:]
                tries += 1
                if still_bad("\n".join(cand) + "\n"):
                    lines, changed = cand, True
    return "\n".join(lines) + "\n"


def evaluate_quiet(ctx, texts, stats, known_ids):
    class Quiet:
        scratch = ctx.scratch

        def violation(self, *a, **k):
            stats["bad"].append(("driver", "driver", "", ""))
    evaluate(Quiet(), [re.sub(r"^view .*\n", "", t, flags=re.M) for t in texts], "min", stats, known_ids)


def new_stats():
    return {"cases": 0, "evaluations": 0, "obs": 0, "mangle_checked": 0, "mangle_bad": [], "status": {},
            "spec_kinds": {}, "nontrivial": set(), "class": {}, "samples": [], "known_hits": {},
            "pending": [], "bad": [], "poke_hits": [], "spelled": 0, "with_macros": 0,
            "fail_kinds": {}, "fail_directly_after_first_require": {}, "requests_with_uses": 0,
            "guard": {"graphs_in_guard": 0, "graphs_outside": 0, "requests_in_guard": 0, "requests_total": 0}}


def corpus_texts():
    cdir = os.path.join(C.VERIF, "corpus", "C14")
    out = []
    for fn in sorted(os.listdir(cdir)):
        txt = "".join(l for l in open(os.path.join(cdir, fn)) if not l.startswith("#"))
        out += re.findall(r"^case .*?^endcase\n", txt, re.M | re.S)
    return out


def run(ctx):
    stats = new_stats()
    trc, tout = C.sh(["python3", os.path.join(C.VERIF, "translate", "c14_constants.py"), C.REPO,
                      os.path.join(C.LEAN, "SteelVerif", "C14", "GenConsts.lean")], timeout=60)
    try:
        facts = json.loads(tout.strip().splitlines()[-1])
    except (ValueError, IndexError):
        facts = {"errors": [tout[-500:]]}
    if trc != 0:
        ctx.violation("C14-translator.txt", "translate/c14_constants.py no longer parses modules.rs / mangle.rs:\n"
                      + json.dumps(facts, indent=1) + "\n", no_input=True)
    trc2, tout2 = C.sh(["python3", os.path.join(C.VERIF, "translate", "c14_tables.py"), C.REPO,
                        os.path.join(C.LEAN, "SteelVerif", "C14", "GenTables.lean")], timeout=60)
    try:
        tables = json.loads(tout2.strip().splitlines()[-1])
    except (ValueError, IndexError):
        tables = {"errors": [tout2[-500:]]}
    if trc2 != 0:
        ctx.violation("C14-translator-tables.txt", "translate/c14_tables.py no longer parses analysis.rs / compiler.rs / "
                      "modules.rs / contracts.scm:\n" + json.dumps(tables, indent=1) + "\n", no_input=True)
    pr = C.prove(ctx, "C14", ["c14driver"])
    ok, log = C.build_harness(ctx, ["c14"])
    base_cov = {"obligations": pr["obligations"], "discharged": pr["discharged"],
                "checker_cmd": "cd lean && lake build SteelVerif.C14.Props && lake env lean SteelVerif/C14/Audit.lean",
                "trusted_base": C.TRUSTED_BASE + ["translate/c14_constants.py (regex extraction of the mangling "
                                                  "constants, the prefix layout and try_canonicalize)",
                                                  "translate/c14_tables.py (bracket matching over "
                                                  "remove_unused_globals_with_prefix, the arms of "
                                                  "parse_require_object_inner, an s-expression reader over "
                                                  "contracts.scm)"]}
    if not ok:
        ctx.violation("C14-harness-build.txt", "the harness no longer builds against /repo:\n" + log, no_input=True)
        ctx.coverage = base_cov
        return ctx.finish()
    if not os.path.exists(C.driver_path("c14driver")):
        ctx.violation("C14-driver-build.txt", pr["log"][-3000:], no_input=True)
        ctx.coverage = base_cov
        return ctx.finish()
    known = ctx.load_known()
    known_ids = set(k.get("id") for k in known)

    # 1. corpus: directed cases and the witnesses of the findings
    evaluate(ctx, corpus_texts(), "corpus", stats, known_ids)
    ctx.log("corpus: %d cases %s" % (stats["cases"], stats["class"]))
    # 2. generated graphs
    rng = random.Random(ctx.seed * 7919 + 14)
    if ctx.quick():
        plan = [(150, 6, 3)]
    else:
        plan = [(600, 6, 6), (900, 10, 6), (500, 15, 6)]
    for pi, (ngraphs, max_mods, orders) in enumerate(plan):
        done = 0
        while done < ngraphs:
            k = min(100, ngraphs - done)
            cases = gen_cases(rng, k, max_mods, orders, "p%d" % pi)
            evaluate(ctx, [case_text(c) for c in cases], "gen%d_%d" % (pi, done), stats, known_ids)
            done += k
            ctx.log("generated: graphs=%d/%d (<=%d modules) cases=%d %s" % (
                done, ngraphs, max_mods, stats["cases"], stats["class"]))
            if len(stats["bad"]) > 20:
                break

    # decide
    for kid, cids in sorted(stats["known_hits"].items()):
        ent = next((k for k in known if k.get("id") == kid), {})
        ctx.known_finding("id=%s class=%s replay=%s reproduced on %d generated/corpus cases (e.g. %s)" % (
            kid, ent.get("class", FIXES[kid][1]), ent.get("replay", "findings/C14-%s.txt" % kid), len(cids), cids[0]))
    if stats["poke_hits"]:
        cid, l = stats["poke_hits"][0]
        if "K14d" in known_ids:
            ent = next(k for k in known if k.get("id") == "K14d")
            ctx.known_finding("id=K14d class=%s replay=%s a private definition is readable at top level as "
                              "|<mangled name>| (%s: %s)" % (ent.get("class"), ent.get("replay"), cid, l))
        else:
            ctx.violation("C14-K14d-%s.txt" % cid, open(os.path.join(C.VERIF, "findings", "C14-K14d.txt")).read()
                          if os.path.exists(os.path.join(C.VERIF, "findings", "C14-K14d.txt")) else
                          "case %s: %s (a module-private definition is readable through |##mm…|)\n" % (cid, l))
    # the witness of a listed finding that the generated family does not reach (every name is probed in an
    # expression of its own): replayed as it is, against the S answer recorded in the file
    if "K14h" in known_ids:
        ent = next(k for k in known if k.get("id") == "K14h")
        wpath = os.path.join(C.VERIF, ent.get("replay", "findings/C14-K14h.raw"))
        if os.path.exists(wpath):
            wtxt = open(wpath).read()
            want = (re.search(r"^# spec: (.*)$", wtxt, re.M) or [None, ""])[1].strip()
            rc, out, err = C.run_bin([C.bin_path("c14"), "--raw", os.path.join(ctx.scratch, "raw")],
                                     "".join(l + "\n" for l in wtxt.splitlines() if not l.startswith("#")), timeout=120)
            got = (out.splitlines() or [""])[0].strip()
            stats["k14h_witness"] = {"real": got, "spec": want}
            if want and got != want:
                ctx.known_finding("id=K14h class=%s replay=%s witness reproduces: real `%s`, S `%s`" % (
                    ent.get("class"), ent.get("replay"), got, want))
            else:
                ctx.log("K14h: the witness no longer reproduces (real == S: %s)" % got)
    reported = set()
    for cid, kind, text, body in stats["bad"][:5]:
        if kind in reported:
            continue
        reported.add(kind)
        small = minimise(ctx, text, known_ids) if text else text
        ctx.violation("C14-%s.txt" % cid, "# minimised input (feed to harness/c14 after `c14driver elab`, and to c14driver spec)\n"
                      + small + "# ---- as found\n" + body)
    if stats["mangle_bad"] and not ctx.violations:
        cid, l = stats["mangle_bad"][0]
        ctx.violation("C14-mangle-%s.txt" % cid, "the real prefix/name layout differs from `mangle`: %s\n" % l, no_input=True)
    if not pr["ok"] and not ctx.violations:
        ctx.violation("C14-proof-broken.txt", "proof obligations of SteelVerif.C14.Props that no longer check:\n"
                      + "\n".join("%s: %s" % f for f in pr["failed"]) + "\n", no_input=True)
    if stats["pending"] and not ctx.violations:
        name, body = stats["pending"][0]
        ctx.violation(name, body + "# correspondence SteelVerif.C14.Model <-> modules.rs no longer holds (%d cases); "
                      "the real engine agrees with S on them\n" % len(stats["pending"]), no_input=True)

    ctx.coverage = dict(base_cov)
    ctx.coverage.update({
        "evaluations": stats["evaluations"],
        "cases_one_engine_each": stats["cases"],
        "observations_compared": stats["obs"],
        "distinct_nontrivial": len(stats["nontrivial"]),
        "rule": "case = module graph (files on disk) + request sequence on one Engine; generated from VERIF_SEED: "
                "chains/diamonds/stars/random DAGs, shared private+provided names, plain/only-in(+renames)/"
                "prefix-in(nested)/mixed and non-compositional modifier nestings, contract/out, re-exports, the "
                "same module required twice, module files in sub-directories required through different "
                "spellings of one path (./, dir/.., symbolic links), functions of 1-6 parameters with "
                "higher-order contracts and violating callbacks, failing requests (macro mismatch, free identifier, runtime error), "
                "several orders of the same requests; non-trivial = >=2 modules and at least one modifier; "
                "distinct = different text",
        "samples": stats["samples"],
        "classification": stats["class"],
        "request_status_real": stats["status"],
        "require_spec_shapes": stats["spec_kinds"],
        "private_defines_found_under_mangled_name": stats["mangle_checked"],
        "translated_from_source": facts,
        "translated_tables": tables,
        "cases_with_respelled_paths": stats["spelled"],
        "cases_with_macros": stats["with_macros"],
        "K14h_witness": stats.get("k14h_witness"),
        "failing_requests_by_kind": stats["fail_kinds"],
        "requests_whose_program_refers_to_names": stats["requests_with_uses"],
        "failing_request_directly_after_first_require_of_a_module_nothing_evaluated_between":
            stats["fail_directly_after_first_require"],
        "refinement_guard": stats["guard"],
        "axioms": pr.get("axioms", {}),
        "proof_failures": ["%s: %s" % f for f in pr["failed"]],
    })
    ctx.assumptions = ["module files are not modified while the engine lives",
                       "every observed name is probed in a top-level expression of its own (see K14h)"]
    return ctx.finish("proof")


def replay(ctx, path):
    txt = "".join(l for l in open(path) if not l.startswith("#"))
    if re.match(r"\s*(file |run\b)", txt):
        # free-form replay (`c14 --raw`): files and programs, no model involved
        C.build_harness(ctx, ["c14"])
        rc, out, err = C.run_bin([C.bin_path("c14"), "--raw", os.path.join(ctx.scratch, "raw")], txt, timeout=120)
        print(out)
        return 0
    cases = re.findall(r"^case .*?^endcase\n", txt, re.M | re.S)
    C.build_harness(ctx, ["c14"])
    el = elab("".join(re.sub(r"^view .*\n", "", t, flags=re.M) for t in cases))
    real = run_real(ctx, re.findall(r"^case .*?^endcase\n", el, re.M | re.S), "replay")
    for mode in ("spec", "model"):
        rc, out, _ = driver(mode, el)
        print("--- %s" % mode)
        print(out)
    print("--- real")
    for cid, lines in real.items():
        print("case", cid)
        print("\n".join(lines))
    return 0
