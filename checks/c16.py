"""C16 — threads always make progress through collections and global updates.

translate  : translate/c16_callpaths.py regenerates lean/SteelVerif/C16/GenCallPathsTable.lean from /repo: every match arm that
             calls a plain built-in (the value kind of all blocking built-ins) with `publishes`, and every call site of
             with_locked_env with `guardKept` (the tie of the model variant `State.fix` to the sources).
prove      : lake build SteelVerif.C16.Props + GenCallPaths + axiom audit.  Theorems: no_deadlock_code / no_deadlock_fixed (the
             current protocol, all N, all interleavings), no_deadlock_partial + dual_stopper_deadlock (the protocol before the
             K16a fix), round_rank_decreases / stop_round_terminates, join_once, channel_fifo_per_sender,
             blocking_paths_publish / not_blocking_paths_publish (K16b), gate_keeps_guard.
correspond : generated multi-threaded programs (1-8 native threads: per-thread global counters, allocation above the
             full-collection threshold, joins in several orders, channels, mutexes, blocking calls directly and through
             map / for-each) on the REAL engine, JIT on and off, under a watchdog that reads the cfg(steel_verif) progress
             counters; model schedules of corpus/C16 on the driver.
oracle     : the specification S = the program finishes within the bound with the value the generator computed; a stop request
             that is issued completes.
"""
import os
import random
import re

from . import common as C

PID = "C16"
META = {
    "ready": True,
    "category": "proof",
    "technique": "Lean 4 invariant proof over the step-level transition system of the stop-the-world handshake (any number of threads, all interleavings) + tables regenerated from vm.rs / jit.rs / transducers.rs + generated multi-threaded programs on the real engine under a progress-counter watchdog, JIT on and off",
    "level_text": "Theorems (lean/SteelVerif/C16/Props.lean, over the transition system of C15/Model.lean: every access to a pause flag, state, published pointer, park token, the threads mutex and the heap mutex is one atomic step): no_deadlock_code - for the current protocol (heap-lock guard kept during with_locked_env; tied to the sources by the regenerated gate_keeps_guard) and for every number of threads and every schedule respecting the guard (no spawn / host interrupt during a round, no stop request to a thread that is leaving a safepoint), in every reachable state some thread can take a runtime step that changes the state, or every thread is finished, free to run script code, or inside a primitive; round_rank_decreases - every productive step of a stopper lowers a rank bounded by 9*len+13; stop_round_terminates - along every spawn-free schedule (every interleaving with other threads' steps) a stopper changes its pc at most that many times before its round is over; join_once, join_exactly_once (a join after the exit: exactly one call receives the value); channel_fifo_per_sender (join handles and channels modelled by their specifications). For the protocol before /repo d9e2a72a: dual_stopper_deadlock (a 20-line schedule reaches a deadlocked state) and no_deadlock_partial under 'one stop request at a time'. blocking_paths_publish: every call of a plain built-in is wrapped in enter_safepoint (directly or through call_primitive_func / call_boxed_func / call_builtin_published) outside the functions excused while K16b is open (openK16b, regenerated from the source and KNOWN_FINDINGS.txt, tight: open_k16b_tight; empty once the finding is fixed - then blocking_paths_publish_full is the full statement and an unwrapped arm breaks the obligation); R.prim_holds_no_lock / R.blocked_in_prim_unblocks_stopper (ProgressR.lean): a thread inside a primitive's safepoint holds neither the heap lock nor the threads mutex and never makes a stopper wait, so wrapping a blocking built-in cannot deadlock. The repair is proposed as .build/C16/proposed-fix-K16b.diff. LOCK ORDER (C16-n3): lean/SteelVerif/C16/LockOrder.lean models the host root table (GLOBAL_ROOTS) as a mutex that script threads take from UNPUBLISHED code and the collector takes to read the roots: no_deadlock_stop_first - with the code's order (the table is a leaf lock of the collector: taken after the world is stopped, released before it is resumed) no reachable state is deadlocked, for every number of mutators and every schedule; lock_first_deadlocks - the reversed order deadlocks in 4 steps with one mutator. Tied to the source by translate/c16_locks.py (regenerated every run): spin_holds_no_unpublished_lock (no named guard bound by Heap::mark / with_locked_env before enumerate_stacks / call_per_ctx is on a mutex that is taken outside a safepoint), root_table_taken_unpublished, heap_lock_inside_safepoint (every heap.lock outside the serialised-spawn / engine-clone paths is inside enter_safepoint). NOT a theorem: liveness under a real OS scheduler (no fairness is assumed or proved - the theorems say a step exists, not that it is taken), and that the Rust code follows the model - that is the program-level run: generated programs must finish with the generator's value while the watchdog sees stop requests complete and instructions being dispatched.",
    "level_note": "Trusted: Lean kernel (axioms propext, Classical.choice, Quot.sound), harness c16, the python generator and comparison, the regex translator. Modelled, not verified: sequentially consistent atomics (the code uses Relaxed), parking_lot / std mutexes, std::thread::park tokens, crossbeam channels and JoinHandle by their specifications; host interrupts are excluded from the progress theorems (C17). The thread list order in the model is spawn order (code: registration order). OS scheduling fairness, wall-clock time and Relaxed visibility delays are outside the model.",
}

BIN = "c16"
# symptoms of a thread that looked a global up in the empty table another thread's with_locked_env installed (C15 K15a):
# before /repo 4b9c5de8 native code indexed the empty vector (panic), since then the unchecked lookup of the JIT helpers
# yields void (reported as an application of a non-procedure) and the interpreter reports a free identifier
ABORT_K15A = re.compile(r"index out of bounds: the len is 0|free identifier|Cannot reference an identifier before its definition|Function application not a procedure or function type not supported: #<void>")
ABORT_ALLOC = re.compile(r"closed\.rs:\d+:\d+:\s*\n?called `Option::unwrap\(\)` on a `None` value")


# ---------------------------------------------------------------------------------------------- programs

def lst(xs):
    return "(" + " ".join(str(x) for x in xs) + ")"


def gen_programs(rnd, quick):
    """Yield (name, expected, program, tags)."""
    ks = [1, 2, 3, 4] if quick else [1, 2, 3, 4, 6, 8]
    progs = []
    for k in ks:
        n = rnd.choice([300, 700]) if quick else rnd.choice([500, 2000, 6000])
        # (1) per-thread global counters, threads released by a start signal after every spawn is registered
        defs = " ".join("(define g%d 0)" % i for i in range(k))
        workers = " ".join(
            "(define (w%d n) (if (= n 0) 0 (begin (set! g%d (+ g%d 1)) (w%d (- n 1)))))" % (i, i, i, i) for i in range(k))
        chans = " ".join("(define c%d (channels/new))" % i for i in range(k))
        body = ("(let ((ts (list %s))) %s (for-each thread-join! ts) (list %s))" % (
            " ".join("(spawn-native-thread (lambda () (channel/recv (channels-receiver c%d)) (w%d %d)))" % (i, i, n)
                     for i in range(k)),
            " ".join("(channel/send (channels-sender c%d) 1)" % i for i in range(k)),
            " ".join("g%d" % i for i in range(k))))
        progs.append(("counters-k%d-n%d" % (k, n), lst([n] * k), "%s %s %s %s" % (defs, workers, chans, body), {"assign"}))
        # (2) allocation-heavy: every thread keeps `live` boxes alive in its own vector and sums them at the end
        live = 9000 if k >= 3 else 14000
        iters = live * (3 if quick else 6)
        alloc = ("(define (fill v n live) (if (= n 0) 0 (begin (vector-set! v (modulo n live) (box n)) (fill v (- n 1) live))))"
                 " (define (total v i acc) (if (= i (vector-length v)) acc (total v (+ i 1) (+ acc (unbox (vector-ref v i))))))"
                 " (define (job live iters) (let ((v (make-vector live (box 0)))) (fill v iters live) (total v 0 0)))")
        # `fill` counts down, so slot j finally holds the SMALLEST m >= 1 with m mod live = j: j itself (slot 0: live)
        exp1 = live + sum(range(1, live))
        body = "(let ((ts (list %s))) (map thread-join! ts))" % " ".join(
            "(spawn-native-thread (lambda () (job %d %d)))" % (live, iters) for _ in range(k))
        progs.append(("alloc-k%d-live%d" % (k, live), lst([exp1] * k), alloc + " " + body, {"alloc"}))
        # (3) joins in different orders, nested spawns
        order = rnd.choice(["forward", "reverse", "nested"])
        if order == "nested":
            body = ("(define (tree d) (if (= d 0) 1 (let ((a (spawn-native-thread (lambda () (tree (- d 1))))) "
                    "(b (spawn-native-thread (lambda () (tree (- d 1)))))) (+ (thread-join! b) (thread-join! a)))))"
                    " (tree %d)" % min(k, 3))
            progs.append(("joins-nested-d%d" % min(k, 3), str(2 ** min(k, 3)), body, set()))
        else:
            sp = " ".join("(spawn-native-thread (lambda () (time/sleep-ms %d) %d))" % (rnd.randrange(0, 12), 10 + i)
                          for i in range(k))
            j = "(map thread-join! (reverse ts))" if order == "reverse" else "(map thread-join! ts)"
            exp = [10 + i for i in range(k)]
            if order == "reverse":
                exp = list(reversed(exp))
            progs.append(("joins-%s-k%d" % (order, k), lst(exp), "(let ((ts (list %s))) %s)" % (sp, j), set()))
        # (4) channels: k senders, one receiver; per-sender order must be preserved
        m = 40 if quick else 300
        send = ("(define ch (channels/new)) (define tx (channels-sender ch)) (define rx (channels-receiver ch))"
                " (define (send-all id i m) (if (= i m) 0 (begin (channel/send tx (cons id i)) (send-all id (+ i 1) m))))"
                " (define (recv-all n acc) (if (= n 0) (reverse acc) (recv-all (- n 1) (cons (channel/recv rx) acc))))"
                " (define (per-sender id msgs) (map cdr (filter (lambda (p) (= (car p) id)) msgs)))")
        body = ("(let ((ts (list %s))) (let ((msgs (recv-all %d '()))) (for-each thread-join! ts) "
                "(list (length msgs) %s)))" % (
                    " ".join("(spawn-native-thread (lambda () (send-all %d 0 %d)))" % (i, m) for i in range(k)),
                    k * m,
                    " ".join("(equal? (per-sender %d msgs) (range 0 %d))" % (i, m) for i in range(k))))
        progs.append(("channels-k%d-m%d" % (k, m), lst([k * m] + ["#true"] * k), send + " " + body, set()))
        # (5) a mutex-protected shared counter, while main assigns a global and allocates
        cnt = 200 if quick else 1500
        body = ("(require \"steel/sync\") (define m (mutex)) (define b (box 0)) (define tick 0)"
                " (define (work n) (if (= n 0) 0 (begin (lock! m (lambda () (set-box! b (+ (unbox b) 1)))) (work (- n 1)))))"
                " (define (main-work n) (if (= n 0) 0 (begin (set! tick (+ tick 1)) (box n) (main-work (- n 1)))))"
                " (let ((ts (list %s))) (main-work %d) (for-each (lambda (t) (thread-join! t)) ts) (list (unbox b) tick))" % (
                    " ".join("(spawn-native-thread (lambda () (work %d)))" % cnt for _ in range(k)), cnt))
        progs.append(("mutex-k%d-n%d" % (k, cnt), lst([k * cnt, cnt]), body, {"assign"}))
    # (6) blocking calls made directly and through map / for-each while another thread runs stop-the-world rounds
    pre = ("(define g 0) (define ch (channels/new)) (define tx (channels-sender ch)) (define rx (channels-receiver ch))"
           " (define (bump n) (if (= n 0) 0 (begin (set! g (+ g 1)) (bump (- n 1)))))")
    progs.append(("block-direct-recv", "(5 50)", pre + " (let ((t (spawn-native-thread (lambda () (let ((v (channel/recv rx))) v)))))"
                  " (bump 50) (channel/send tx 5) (list (thread-join! t) g))", {"assign"}))
    progs.append(("block-map-recv", "((5) 50)", pre + " (let ((t (spawn-native-thread (lambda () (map channel/recv (list rx))))))"
                  " (bump 50) (channel/send tx 5) (list (thread-join! t) g))", {"assign"}))
    progs.append(("block-foreach-join", "(7 50)", pre + " (let* ((a (spawn-native-thread (lambda () (time/sleep-ms 30) 7)))"
                  " (t (spawn-native-thread (lambda () (let ((r (box 0))) (for-each (lambda (h) (set-box! r (thread-join! h))) (list a)) (unbox r))))))"
                  " (bump 50) (list (thread-join! t) g))", {"assign"}))
    progs.append(("block-sleep-vs-gc", "(1 9000)",
                  "(define (fill v n live) (if (= n 0) 0 (begin (vector-set! v (modulo n live) (box n)) (fill v (- n 1) live))))"
                  " (let ((t (spawn-native-thread (lambda () (let ((r (begin (time/sleep-ms 60) 1))) r))))"
                  " (v (make-vector 9000 (box 0)))) (fill v 60000 9000) (list (thread-join! t) (vector-length v)))", {"alloc"}))
    # (7) the K16a programs (fixed by /repo d9e2a72a): concurrent assigners, assigner vs collector
    w = "(define g 0) (define h 0) (define (wg n) (if (= n 0) 0 (begin (set! g (+ g 1)) (wg (- n 1))))) (define (wh n) (if (= n 0) 0 (begin (set! h (+ h 1)) (wh (- n 1)))))"
    nn = 800 if quick else 8000
    progs.append(("k16a-two-assigners", lst([nn, nn]), w + " (define ca (channels/new)) (define cb (channels/new))"
                  " (let ((ts (list (spawn-native-thread (lambda () (channel/recv (channels-receiver ca)) (wg %d)))"
                  " (spawn-native-thread (lambda () (channel/recv (channels-receiver cb)) (wh %d))))))"
                  " (channel/send (channels-sender ca) 1) (channel/send (channels-sender cb) 1)"
                  " (for-each thread-join! ts) (list g h))" % (nn, nn), {"assign", "k16a"}))
    progs.append(("k16a-main-and-thread", lst([nn, nn]), w + " (let ((t (spawn-native-thread (lambda () (wg %d))))) (wh %d) (thread-join! t) (list g h))" % (nn, nn),
                  {"assign", "k16a"}))
    progs.append(("k16a-assigner-vs-collector", lst([nn, 14000]), w +
                  " (define (fill v n live) (if (= n 0) 0 (begin (vector-set! v (modulo n live) (box n)) (fill v (- n 1) live))))"
                  " (let ((t (spawn-native-thread (lambda () (wg %d)))) (v (make-vector 14000 (box 0)))) (fill v 70000 14000)"
                  " (thread-join! t) (list g (vector-length v)))" % nn, {"assign", "alloc", "k16a"}))
    # (8) K16c (fixed by /repo aaa53594): boxes allocated by compiled code while another thread holds the heap lock
    locs = ("(define (locals n) (let ((acc 0)) (let loop ((i 0)) (if (< i n) (begin (set! acc (+ acc 1)) (loop (+ i 1))) acc))))"
            " (define (many k) (if (= k 0) (locals 3000) (begin (locals 5) (many (- k 1)))))")
    progs.append(("k16c-jitbox-vs-global-set", "(3000 300)", "(define g 0) (define (bump n) (if (= n 0) 0 (begin (set! g (+ g 1)) (bump (- n 1))))) "
                  + locs + " (define ch (channels/new)) (let ((t (spawn-native-thread (lambda () (channel/recv (channels-receiver ch)) (many 20000)))))"
                  " (channel/send (channels-sender ch) 1) (bump 300) (list (thread-join! t) g))", {"assign", "k16c"}))
    progs.append(("k16c-two-threads-local-set", "(3000 3000)", locs + " (let ((ts (list (spawn-native-thread (lambda () (many 20000)))"
                  " (spawn-native-thread (lambda () (many 20000)))))) (map thread-join! ts))", {"alloc", "k16c"}))
    progs.append(("k16c-global-set-in-named-let", "(1 1)", "(define g 0) (define h 0)"
                  " (define (wg n) (let loop ((i 0)) (if (< i n) (begin (set! g (+ g 1)) (loop (+ i 1))) 1)))"
                  " (define (wh n) (let loop ((i 0)) (if (< i n) (begin (set! h (+ h 1)) (loop (+ i 1))) 1)))"
                  " (define ca (channels/new)) (define cb (channels/new))"
                  " (let ((ts (list (spawn-native-thread (lambda () (channel/recv (channels-receiver ca)) (wg 3000)))"
                  " (spawn-native-thread (lambda () (channel/recv (channels-receiver cb)) (wh 3000))))))"
                  " (channel/send (channels-sender ca) 1) (channel/send (channels-sender cb) 1) (map thread-join! ts))", {"assign", "k16c"}))
    # (9) K16e (fixed by /repo 5a7e78f0): thread-finished? while another thread joins the same handle
    progs.append(("k16e-finished-during-join", "(#false #true 7 #true)",
                  "(let* ((t (spawn-native-thread (lambda () (time/sleep-ms 400) 7))) (j (spawn-native-thread (lambda () (thread-join! t)))))"
                  " (time/sleep-ms 60) (let ((t0 (current-milliseconds))) (let ((f (thread-finished? t))) (let ((dt (- (current-milliseconds) t0)))"
                  " (list f (< dt 200) (thread-join! j) (thread-finished? t))))))", set()))
    # (10) blocking built-ins in tail and non-tail position of procedures, closures and module-level procedures, while the thread that
    # is waited for needs stop-the-world rounds (assigns a global / collects): the waiter has to be published while it blocks.
    # `tailblock`: with the JIT a tail call of a built-in is not wrapped in a safepoint (open finding K16b); the interpreter wraps it.
    pre = ("(define g 0) (define (bump n) (if (= n 0) 7 (begin (set! g (+ g 1)) (bump (- n 1)))))"
           " (define (fill v n live) (if (= n 0) 7 (begin (vector-set! v (modulo n live) (box n)) (fill v (- n 1) live))))"
           " (define ch (channels/new)) (define tx (channels-sender ch)) (define rx (channels-receiver ch)) (define m (mutex))")
    req = '(require "%s/waiters.scm") ' % MODS
    for wk, w in (("assign", "(bump 300)"), ("alloc", "(fill (make-vector 9000 (box 0)) 40000 9000)")):
        worker = "(spawn-native-thread (lambda () (time/sleep-ms 30) %s))" % w
        sender = "(spawn-native-thread (lambda () (time/sleep-ms 30) %s (channel/send tx 5)))" % w
        progs.append(("join-tail-%s" % wk, "7", pre + " (define (wait h) (thread-join! h)) (let* ((w %s) (t (spawn-native-thread (lambda () (wait w)))))"
                      " (thread-join! t))" % worker, {"tailblock"}))
        progs.append(("join-nontail-%s" % wk, "7", pre + " (define (wait h) (+ 0 (thread-join! h))) (let* ((w %s) (t (spawn-native-thread (lambda () (wait w)))))"
                      " (thread-join! t))" % worker, set()))
        progs.append(("recv-tail-lambda-%s" % wk, "5", pre + " (let* ((t (spawn-native-thread (lambda () (channel/recv rx)))) (w %s)) (thread-join! w)"
                      " (thread-join! t))" % sender, {"tailblock"}))
        progs.append(("recv-nontail-%s" % wk, "5", pre + " (let* ((t (spawn-native-thread (lambda () (let ((v (channel/recv rx))) (+ v 0))))) (w %s))"
                      " (thread-join! w) (thread-join! t))" % sender, set()))
        progs.append(("recv-tail-closure-%s" % wk, "5", pre + " (define (mk k) (lambda () (if (> k 0) (channel/recv rx) k))) (let* ((t (spawn-native-thread (mk 1)))"
                      " (w %s)) (thread-join! w) (thread-join! t))" % sender, {"tailblock"}))
        progs.append(("lock-tail-%s" % wk, "#true", pre + " (define (grab) (lock-acquire! m)) (let* ((guard (lock-acquire! m)) (t (spawn-native-thread"
                      " (lambda () (let ((gd (grab))) (lock-release! gd) #t))))) (time/sleep-ms 30) %s (lock-release! guard) (thread-join! t))" % w,
                      {"tailblock"}))
        progs.append(("module-join-tail-%s" % wk, "7", req + pre + " (let* ((w %s) (t (spawn-native-thread (lambda () (mwait-tail w))))) (thread-join! t))"
                      % worker, {"tailblock"}))
        progs.append(("module-join-nontail-%s" % wk, "7", req + pre + " (let* ((w %s) (t (spawn-native-thread (lambda () (mwait-nontail w)))))"
                      " (thread-join! t))" % worker, set()))
        progs.append(("module-recv-tail-%s" % wk, "5", req + pre + " (let* ((t (spawn-native-thread (lambda () (mrecv-tail rx)))) (w %s)) (thread-join! w)"
                      " (thread-join! t))" % sender, {"tailblock"}))
    # (11) root-table traffic from UNPUBLISHED code while another thread collects in a loop (seeded change C16-n3: a collector
    # that owns the host root table while it waits for the threads to publish): values in flight in a channel taken out by a
    # native higher-order procedure (transduce / map over channel/try-recv: call_func_or_else, no safepoint), threads that finish
    # with a heap result (rooted after their last poll), channels dropped with values in flight, unjoined handles dropped
    col = ("(define (collect-until h n) (if (thread-finished? h) n (begin (#%gc-collect) (collect-until h (+ n 1)))))"
           " (define (fill tx n) (when (> n 0) (channel/send tx (list n)) (fill tx (- n 1))))")
    nn = 12000 if quick else 60000
    rr = 2 if quick else 5
    progs.append(("roots-transduce-tryrecv", "%d" % (nn * rr), col +
                  " (define (fd rounds acc) (if (= rounds 0) acc (let* ((ch (channels/new)) (rx (channels-receiver ch)) (rxs (map (lambda (_) rx) (range 0 %d))))"
                  " (fill (channels-sender ch) %d) (fd (- rounds 1) (+ acc (transduce rxs (mapping channel/try-recv) (into-count)))))))"
                  " (let ((w (spawn-native-thread (lambda () (fd %d 0))))) (collect-until w 0) (thread-join! w))" % (nn, nn, rr), {"roots"}))
    progs.append(("roots-map-tryrecv", "%d" % (nn // 2), col +
                  " (define (fd) (let* ((ch (channels/new)) (rx (channels-receiver ch)) (rxs (map (lambda (_) rx) (range 0 %d))))"
                  " (fill (channels-sender ch) %d) (length (map channel/try-recv rxs))))"
                  " (let ((w (spawn-native-thread fd))) (collect-until w 0) (thread-join! w))" % (nn // 2, nn // 2), {"roots"}))
    tn = 20 if quick else 150       # a collection concurrent with a spawn + join costs ~170 ms on the unchanged tree (observed, cause not located)
    progs.append(("roots-thread-results", "%d" % sum(range(tn)), col +
                  " (define (gen i acc) (if (= i %d) acc (gen (+ i 1) (+ acc (car (thread-join! (spawn-native-thread (lambda () (list i (box i))))))))))"
                  " (let ((w (spawn-native-thread (lambda () (gen 0 0))))) (collect-until w 0) (thread-join! w))" % tn, {"roots"}))
    dn = 1500 if quick else 12000
    progs.append(("roots-dropped-channels", "%d" % dn, col +
                  " (define (churn i) (if (= i %d) i (begin (let* ((ch (channels/new)) (rx (channels-receiver ch))) (fill (channels-sender ch) 8) (channel/try-recv rx)) (churn (+ i 1)))))"
                  " (let ((w (spawn-native-thread (lambda () (churn 0))))) (collect-until w 0) (thread-join! w))" % dn, {"roots"}))
    progs.append(("roots-unjoined-handles", "%d" % tn, col +
                  " (define (orphans i) (if (= i %d) i (begin (let ((h (spawn-native-thread (lambda () (list i (box i)))))) (time/sleep-ms 0)) (orphans (+ i 1)))))"
                  " (let ((w (spawn-native-thread (lambda () (orphans 0))))) (collect-until w 0) (thread-join! w))" % tn, {"roots"}))
    return progs


MODS = os.path.join(C.BUILD, "C16", "mods")


def write_modules(text=None):
    os.makedirs(MODS, exist_ok=True)
    with open(os.path.join(MODS, "arith.scm"), "w") as f:
        f.write("(provide count-up mix)\n(define (count-up n limit) (if (< n limit) (count-up (+ n 1) limit) n))\n"
                "(define (mix n acc limit) (if (< n limit) (mix (+ n 1) (+ (* acc 3) 1) limit) acc))\n")
    with open(os.path.join(MODS, "waiters.scm"), "w") as f:
        f.write("(provide mwait-tail mwait-nontail mrecv-tail)\n(define (mwait-tail h) (thread-join! h))\n"
                "(define (mwait-nontail h) (+ 0 (thread-join! h)))\n(define (mrecv-tail rx) (channel/recv rx))\n")


# ---------------------------------------------------------------------------------------------- running

def run_program(name, expected, prog, jit, bound, jitter=None):
    line = "case\t%s\t%d\t%s\t%s\n" % (name, bound, expected, prog)
    env = {"STEEL_JIT": jit}
    if jitter is not None:
        env["C16_JITTER"] = str(jitter)
    rc, so, se = C.run_bin([C.bin_path(BIN)], line, timeout=bound / 1000.0 + 20, env=env)
    got = [l for l in so.splitlines() if l.startswith("case ")]
    if got:
        f = got[-1].split()
        kv = dict(x.split("=", 1) for x in f[2:] if "=" in x)
        kv["raw"] = got[-1]
    else:
        kv = {"outcome": "crash:rc=%d" % rc, "raw": "crash rc=%d" % rc}
    kv["stderr"] = (se or "")[-1500:]
    return kv


def model_corpus(ctx, stats):
    d = os.path.join(C.VERIF, "corpus", "C16")
    for fn in sorted(os.listdir(d)):
        if not fn.endswith(".msched"):
            continue
        text = open(os.path.join(d, fn)).read()
        exp = re.search(r"^# expect: (.*)$", text, re.M)
        rc, so, se = C.run_bin([C.driver_path("c16driver")], text, timeout=30)
        got = (so.strip().splitlines() or ["<none>"])[-1]
        stats["model_cases"] += 1
        if exp and exp.group(1).strip() != got.strip():
            ctx.violation("C16-model-%s.txt" % fn, "# model schedule verdict changed\n# expected: %s\n# got: %s\n%s" % (
                exp.group(1), got, text), no_input=True)


def run(ctx):
    rnd = random.Random(ctx.seed * 104729 + 16)
    write_modules()
    stats = {"runs": 0, "pass": 0, "k16b": 0, "k16b_tail": 0, "k16d": 0, "aborted_k15a": 0, "aborted_alloc": 0, "model_cases": 0, "hangs": [],
             "stops": 0, "gcs": 0, "dispatched": 0, "samples": [], "retried": 0}
    known = {k["id"]: k for k in ctx.load_known()}
    all_known = set(re.findall(r"^finding:.*?id=(\S+)", open(os.path.join(C.VERIF, "KNOWN_FINDINGS.txt")).read(), re.M))
    rc, out = C.sh(["python3", os.path.join(C.VERIF, "translate", "c16_callpaths.py")], timeout=120)
    tr = {}
    if rc != 0:
        ctx.violation("C16-translator.txt", "translate/c16_callpaths.py failed (rc=%d):\n%s" % (rc, out[-2000:]), no_input=True)
    else:
        try:
            import json
            tr = json.loads(out[out.index("{"):])
        except Exception:  # noqa
            tr = {}
    rc2, out2 = C.sh(["python3", os.path.join(C.VERIF, "translate", "c16_locks.py")], timeout=120)
    if rc2 != 0:
        ctx.violation("C16-translator-locks.txt", "translate/c16_locks.py failed (rc=%d):\n%s" % (rc2, out2[-2000:]), no_input=True)
    pr = C.prove(ctx, "C16", ["SteelVerif.C16.GenCallPaths", "SteelVerif.C16.GenLocks", "SteelVerif.C16.LockOrder", "c16driver"])
    ok, log = C.build_harness(ctx, [BIN])
    if not ok:
        ctx.violation("C16-harness-build.txt", "the harness no longer builds against /repo:\n" + log, no_input=True)
        ctx.coverage = {"obligations": pr["obligations"], "discharged": pr["discharged"],
                        "checker_cmd": "lake build SteelVerif.C16.Props", "trusted_base": C.TRUSTED_BASE}
        return ctx.finish()
    model_corpus(ctx, stats)

    progs = gen_programs(rnd, ctx.quick())
    bound = 8000 if ctx.quick() else 30000
    jobs = [(n, e, p, t, jit) for (n, e, p, t) in progs for jit in ("true", "false")]
    if not ctx.quick():
        jobs = jobs * 3

    def work(job):
        n, e, p, t, jit = job
        tries = []
        for attempt in range(3):
            kv = run_program(n, e, p, jit, bound)
            tries.append(kv)
            if kv.get("ok") == "1":
                break
            if kv.get("outcome") == "hang-running" and attempt == 0:
                # instructions were still being dispatched when the bound expired (slow machine): once more, 4x the bound
                kv = run_program(n, e, p, jit, bound * 4)
                tries.append(kv)
                if kv.get("ok") == "1":
                    break
            # a crash that carries the signature of a C15 / C19 defect says nothing about progress: run again
            if ABORT_K15A.search(kv["stderr"] + kv.get("outcome", "").replace("_", " ")) or ABORT_ALLOC.search(kv["stderr"]):
                kv["stderr"] += " " + kv.get("outcome", "").replace("_", " ")
                continue
            break
        return job, tries

    for (n, e, p, t, jit), tries in C.pool_map(work, jobs, workers=max(2, C.NCPU // 4)):
        kv = tries[-1]
        stats["runs"] += len(tries)
        stats["retried"] += len(tries) - 1
        for x in tries[:-1] + ([] if kv.get("ok") == "1" else [kv]):
            if ABORT_K15A.search(x["stderr"]):
                stats["aborted_k15a"] += 1
            elif ABORT_ALLOC.search(x["stderr"]):
                stats["aborted_alloc"] += 1
        m = re.search(r"stops=(\d+)/(\d+) gcs=(\d+)/(\d+)", kv.get("raw", ""))
        if m:
            stats["stops"] += int(m.group(2)) - 5900 if int(m.group(2)) > 5900 else 0
            stats["gcs"] += int(m.group(4))
        if len(stats["samples"]) < 3 and "alloc" in t:
            stats["samples"].append({"name": n, "jit": jit, "result": kv.get("raw")})
        if kv.get("ok") == "1":
            stats["pass"] += 1
            continue
        if ABORT_K15A.search(kv["stderr"]) and "K15a" in all_known:
            ctx.notes.append("%s jit=%s: aborted 3 times by the C15 defect K15a (thread ran on the empty global table); no verdict on progress" % (n, jit))
            continue
        if ABORT_ALLOC.search(kv["stderr"]):
            ctx.notes.append("%s jit=%s: aborted by the allocator accounting panic (C19 territory); no verdict on progress" % (n, jit))
            continue
        oc = kv.get("outcome", "?")
        if oc == "hang-stuck" and jit == "true" and "tailblock" in t and "K16b" in known:
            # class predicate of K16b: a blocking built-in in tail position of compiled code (jit tail-call helper without safepoint)
            stats["k16b_tail"] += 1
            continue
        if oc.startswith("hang"):
            stats["hangs"].append((n, jit, oc))
        ctx.violation("C16-%s-jit%s.txt" % (n, jit),
                      "# C16 violation: a generated multi-threaded program did not finish with the expected value\n"
                      "# expected value: %s\n# observed: %s\n# stderr tail: %s\n# jit=%s\ncase\t%s\t%d\t%s\t%s\n" % (
                          e, kv.get("raw"), kv["stderr"][-400:].replace("\n", " | "), jit, n, bound, e, p))
    # open finding K16b: its witnesses (blocking built-in on an unpublished call path)
    if "K16b" in known:
        res = replay_file(os.path.join(C.VERIF, known["K16b"]["replay"]))
        stuck = [k for k, v in res.items() if v.get("outcome", "").startswith("hang")]
        stats["k16b"] = len(stuck)
        if stuck:
            ctx.known_finding("id=K16b class=blocking_builtin_on_unpublished_call_path replay=%s (%d of %d witness cases: %s)"
                              % (known["K16b"]["replay"], len(stuck), len(res), ", ".join(sorted(stuck)[:4])))
        else:
            ctx.notes.append("open finding K16b did not reproduce (all witness cases finished)")
    # open finding K16d: a native self-tail loop never publishes (its witness: the assignment waits for the whole loop)
    if "K16d" in known:
        res = replay_file(os.path.join(C.VERIF, known["K16d"]["replay"]))
        slow = [k for k, v in res.items() if v.get("ok") != "1"]
        stats["k16d"] = len(slow)
        if slow:
            v = res[slow[0]]
            ctx.known_finding("id=K16d class=jit_native_loop_never_publishes replay=%s (%s: %s value=%s)"
                              % (known["K16d"]["replay"], slow[0], v.get("outcome"), v.get("value")))
        else:
            ctx.notes.append("open finding K16d did not reproduce (the assignment completed while the native loop ran)")
    if not pr["ok"] and not ctx.violations:
        ctx.violation("C16-proof-broken.txt", "proof obligations of SteelVerif.C16 that no longer check:\n" + "\n".join(
            "%s: %s" % f for f in pr["failed"]) + "\n", no_input=True)
    arms = tr.get("call_arms", [])
    ctx.coverage = {
        "obligations": pr["obligations"], "discharged": pr["discharged"],
        "checker_cmd": "cd lean && lake build SteelVerif.C16.Props SteelVerif.C16.GenCallPaths && lake env lean SteelVerif/C16/Audit.lean",
        "trusted_base": C.TRUSTED_BASE + ["sequentially consistent atomics; mutexes, park tokens, channels, join handles by specification",
                                           "regex translator over vm.rs / vm/jit.rs / transducers.rs / lazy_stream.rs / engine.rs"],
        "evaluations": stats["runs"] + stats["model_cases"],
        "distinct_nontrivial": len([1 for j in jobs if True]) // (1 if ctx.quick() else 3),
        "rule": "program = generated from 10 templates (per-thread global counters released by a start signal, allocation with a live set above the "
                "full-collection threshold, joins forward/reverse/nested, k senders -> 1 receiver, mutex-protected counter while main assigns and "
                "allocates, blocking calls direct / via map / via for-each, blocking built-ins (thread-join!, channel/recv, lock-acquire!) in tail and non-tail position of procedures / closures / module-level procedures while the awaited thread assigns or collects, the K16a / K16c / K16e regression programs) x thread count x JIT on/off; sizes from the PRNG "
                "seeded by VERIF_SEED; every program is non-trivial (>= 1 spawned thread) and distinct by name",
        "samples": stats["samples"],
        "programs": len(progs), "jit_modes": 2, "passed": stats["pass"], "hangs": stats["hangs"],
        "stop_rounds_completed_in_programs": stats["stops"], "collections_in_programs": stats["gcs"],
        "runs_repeated_after_C15_K15a_abort": stats["aborted_k15a"], "runs_repeated_after_allocator_abort": stats["aborted_alloc"],
        "k16b_witness_cases_stuck": stats["k16b"], "k16b_jit_tail_position_programs_stuck": stats["k16b_tail"], "k16d_witness_cases_slow": stats["k16d"], "model_schedules": stats["model_cases"],
        "translator": {"call_arms": len(arms), "publishing": len([a for a in arms if a.get("publishes")]),
                       "gate_sites": tr.get("gate_sites", [])},
        "axioms": pr.get("axioms", {}), "proof_failures": ["%s: %s" % f for f in pr["failed"]],
    }
    ctx.assumptions = ["SC atomics", "no OS fairness assumed", "wall-clock bound %d ms per program" % bound]
    return ctx.finish("proof")


def replay_file(path):
    text = open(path).read()
    write_modules()
    jm = re.search(r"^# jit=(\w+)", text, re.M)
    res = {}
    for l in text.splitlines():
        if not l.startswith("case\t"):
            continue
        f = l.split("\t")
        for jit in ([jm.group(1)] if jm else ["true", "false"]):
            res[f[1] + "@jit" + jit] = run_program(f[1], f[3], f[4], jit, int(f[2]))
    return res


def replay(ctx, path):
    C.build_harness(ctx, [BIN])
    for k, v in sorted(replay_file(path).items()):
        print(k, v.get("raw"))
        if v.get("ok") != "1" and v.get("stderr"):
            print("   stderr:", v["stderr"][-300:].replace("\n", " | "))
    return 0
